"""C15 — Lexing is whitespace-insensitive, quote-faithful and normalises Python code.

Correspondence stream `c15` (engine `Engines/C15.lean`), one request per case:
  op `lex`     the tokens the real `tokenize(s)` yields (also those yielded before it raises), each with
               (text, kind, start, stop), `get_source_context()` plain and colorized, `to_factor()`, `to_terms()`,
               `required_variables` (non-Python tokens); and for every Python token the alias pass
               (`sanitize_variable_names`: sanitised text, alias table) and the result of
               `sanitize_python_code` — against `Model.tokenizeStream`, `Model.TokM.*`, `Model.PyAlias.*`;
               `format_expr` (CPython) is the only thing handed to the model as data.
  op `alias`   `UNQUOTED_BACKTICK_MATCHER.split`, `sanitize_variable_names` with either template and an
               environment (alias table, additions to env), `sanitize_python_code` on arbitrary fragments,
               malformed ones included.
  ops `split`, `tokcmp`, `tokinfo`   `Token.split/__eq__/__lt__/__hash__/source_loc/to_factor/to_terms/
               get_source_context/required_variables` on constructed tokens.
Oracle (impl only): re-spacing around operators/brackets does not change `Formula(s)`; a backtick-quoted name /
brace / call fragment is one token with the text verbatim (several fragments: one token each); reformatted
fragments (keywords touching back-quoted names, `%` inside fragments, either quote style) denote the same
factor, which is the same Python AST over the same back-quoted names; spans delimit the text, are ordered and do
not overlap; source contexts (of tokens and of error messages) are the source with the span marked; the column
named by a quoted name can be evaluated (model_matrix on a frame holding it) and is the required variable;
aliases are ASCII identifiers, not keywords, not words of the fragment, one per name, and restoring them in the
formatted code gives the quoted names back.
"""
from __future__ import annotations

import ast
import re

from harness import parser_common as pc
from harness.props import c01

PROPERTY = "C15"
ENGINE = "c15"
REQUIRED_THEOREMS = ["backtick_verbatim", "whitespace_noop", "whitespace_flushes", "spans_ordered", "ws_insensitive", "positions_irrelevant",
                     "span_delimits_text", "tokens_have_kinds", "quoted_verbatim", "brace_verbatim",
                     "call_verbatim", "call_chain_verbatim", "dotted_call_verbatim", "call_at_end", "call_then", "token_text_exact",
                     "ws_insensitive_formula", "formula_ignores_spans", "respacing_keeps_formula", "parser_split_is_token_split", "alias_scan_partition", "alias_is_identifier",
                     "alias_loop_terminates", "alias_table_faithful", "alias_unique_per_name", "restore_roundtrip", "normal_form_of_formatted",
                     "kind_to_factor", "leaf_factor_agrees", "source_context_marks_span", "split_keeps_text_and_span"]
TRUSTED = list(c01.TRUSTED) + [
    "CPython's ast.parse/ast.unparse (format_expr): that two formattings of one Python fragment have the same unparse, and that "
    "unparse leaves identifiers whole, is exercised (oracle: same AST over the same back-quoted names), not proved; it enters the "
    "model as per-case data (the formatted text of the sanitised fragment)",
    "CPython's str.isidentifier / unicodedata.normalize (per-name data for the `{}` template) and str.isspace (per-case data); "
    "keyword.kwlist, the alias template, Token.to_factor's kind table and the markers of get_source_context are read from the "
    "live package/interpreter by harness/translate.py (Gen/TokenTable.lean)",
]
ASSUMPTIONS = []
RULE = (
    "grammar-derived formulas rendered twice with independent random whitespace at token boundaries; column names drawn from arbitrary "
    "printable/Unicode characters except the backtick (operator characters, quotes, brackets, backslashes, leading digits, spaces), plus "
    "Python keywords and names that are not NFKC-stable, each also evaluated with model_matrix on a frame holding the column; Python "
    "call/brace fragments from an expression grammar (calls, subscripts, lists, dicts, binary operators incl. %, keyword operators "
    "and/or/in/is/not/if-else that may touch back-quoted names, brackets and quotes without whitespace) printed twice with random spacing, "
    "redundant parentheses, either quote style, string literals containing brackets, braces, quotes, backslashes (also trailing) and "
    "backticks, back-quoted names containing quotes, alias look-alike identifiers/strings; one or two fragments per formula joined by "
    "+ : * / ~ %in%; a fixed table of 35 fragment formulas (keyword touching a quoted name; % inside fragments, with %in%) on every "
    "seed; alias-pass cases: fragments as above, quote-interplay calls, random strings over quotes/backticks/backslashes, both templates, "
    "environments that collide with the aliases (forces the numeric suffix), 19 fixed rows; Token method cases: split with literal "
    "patterns and both flags on random operator runs, comparisons, to_factor/get_source_context on constructed tokens of every kind "
    "(none included) with and without source; random strings over an adversarial alphabet. non-trivial = has a quote, bracket or "
    "operator (alias cases: a back-quote); distinct by JSON"
)

NAME_CHARS = "abcxyz019_ .+-*/:^~|(){}[]'\"%$#@!,;<>=&\\éß漢١\t"


def rand_name(rng):
    n = rng.randint(1, 8)
    return "".join(rng.choice(NAME_CHARS) for _ in range(n))


# ---- small Python expression grammar, printed with random formatting


KW2 = ["and", "or", "in", "not in", "is", "is not"]
QUOTES = ["'", '"']
TRIPLE_CONTENTS = ["x", "a b", 'a"b', "it's", 'say "hi" now', "don't 'x'", "(", "`q`"]


def gen_pyexpr(rng, depth):
    r = rng.random()
    if depth <= 0 or r < 0.3:
        if rng.random() < 0.03:  # a triple-quoted string literal, possibly with single quote characters inside
            return ("t", rng.choice(TRIPLE_CONTENTS), rng.choice(QUOTES))
        return rng.choice([("n", "a"), ("n", "x1"), ("n", "b"), ("c", 1), ("c", 2.5), ("s", rng.choice(["q", "a)b", "(", "]}", "it's", '"', "{", "a b", "", "it's `50%`", "`x`", 'say "`q`" now', "`", "a `b", "'`a`'", "%", "%d%%", "a % b"]))])
    if r < 0.5:
        return ("call", rng.choice(["f", "np.log", "g"]), [gen_pyexpr(rng, depth - 1) for _ in range(rng.randint(0, 3))])
    if r < 0.66:
        return ("bin", rng.choice(["+", "*", "-", "/", "**", "%", "%"]), gen_pyexpr(rng, depth - 1), gen_pyexpr(rng, depth - 1))
    if r < 0.72:  # keyword operators: they may touch a back-quoted name, a bracket or a string quote without whitespace
        k = rng.random()
        if k < 0.6:
            return ("kw2", rng.choice(KW2), gen_pyexpr(rng, depth - 1), gen_pyexpr(rng, depth - 1))
        if k < 0.75:
            return ("not", gen_pyexpr(rng, depth - 1))
        return ("ifx", gen_pyexpr(rng, depth - 1), gen_pyexpr(rng, depth - 1), gen_pyexpr(rng, depth - 1))
    if r < 0.8:
        return ("sub", gen_pyexpr(rng, depth - 1), gen_pyexpr(rng, depth - 1))
    if r < 0.9:
        return ("list", [gen_pyexpr(rng, depth - 1) for _ in range(rng.randint(0, 3))])
    return ("dict", [(("s", rng.choice(["k", "}", ")"])), gen_pyexpr(rng, depth - 1)) for _ in range(rng.randint(1, 2))])


BT_NAME = {}  # grammar name -> backtick-quoted spelling; set around show_py calls by cases()
# pairs chosen so that the sanitised aliases collide, are prefixes of one another, or are identifier-valid
# names that occur inside other identifiers of the fragment (`o` in np.log, `a` in a call name, ...)
BT_CHOICES = [
    {"a": "a b"}, {"a": "x+y"}, {"a": "2nd"}, {"a": "it's"}, {"a": "p)q"}, {"a": "é"},
    {"a": "a"}, {"a": "o"}, {"a": "g"}, {"a": "f"}, {"a": "n"}, {"b": "x"}, {"a": "l", "b": "p"},
    {"a": "a b", "b": "a|b"}, {"a": "a-b", "b": "a-"}, {"a": "a-", "b": "a-b"}, {"a": "a_", "b": "a-"},
    {"a": "a b", "b": "a_b"}, {"a": "a-1", "b": "a-"}, {"a": "x1", "b": "x"}, {"a": "log", "b": "np"},
    # names with characters that Python's parser rewrites in identifiers (NFKC: \ufb01 -> fi, \u00b5 -> \u03bc, \u00b2 -> 2,
    # e + combining acute -> \u00e9), alone (a valid identifier that is not NFKC-stable) and inside non-identifiers
    {"a": "\ufb01 x"}, {"a": "\ufb01"}, {"a": "\u00b5"}, {"a": "x\u00b2"}, {"a": "e\u0301"}, {"a": "\u017f-t"}, {"a": "\u2167", "b": "VIII"},
    {"a": "\ufb01 x", "b": "fi x"}, {"a": "\u00aa b", "b": "a b"}, {"a": "\u0661 0"}, {"a": "\u00e9 \u6f22"},
    # quote characters inside the quoted name, with string literals and further names around
    {"a": "it's", "b": "say \"hi\""}, {"a": "'"}, {"a": "\""}, {"a": "a'b", "b": "c'd"}, {"a": "'x'"}, {"a": "\"'"},
]

# string-literal contents and quoted names for the quote-interplay stream: backslashes (also trailing), both quote
# characters, backticks inside strings, quote characters inside names
Q_STRS = ["a\\", "\\", "\\\\", "a\\b", "\\'", "\\\"", "x", "", "it's", "`", "`n`", "a `b", "\"", "'", "d\\\"e", "\\`", "(", ")]"]
Q_NAMES = ["b c", "it's", "a\"b", "x+y", "'", "\"", "a'b'c", "n", "''", "p q", "\ufb01 x", "don't", "\"q\"", "a\\'b", "a\\\\"]


def gen_quote_args(rng):
    """a call whose arguments interleave string literals (escaped backslashes and quotes inside) and back-quoted
    names (quote characters inside): the class of inputs on which the alias pass has to tell the two apart"""
    n = rng.randint(2, 5)
    args = []
    for _ in range(n):
        r = rng.random()
        if r < 0.45:
            args.append(("s", rng.choice(Q_STRS)))
        elif r < 0.9:
            args.append(("q", rng.choice(Q_NAMES)))
        else:
            args.append(rng.choice([("n", "x1"), ("c", 1), ("call", "g", [("q", rng.choice(Q_NAMES))])]))
    return ("call", rng.choice(["f", "np.log", "g"]), args)


def _kw_join(left, kw, right, rng):
    """`left kw right` where the keyword may touch its neighbour when the character at the junction cannot be
    part of an identifier or number (a backtick, a bracket, a string quote)"""
    w = lambda: rng.choice([" ", " ", "  "])
    ls = rng.choice(["", "", " "]) if left and left[-1] in "`)]}'\"" else w()
    rs = rng.choice(["", "", " "]) if right and right[0] in "`([{'\"" else w()
    return left + ls + kw + rs + right


def show_py(e, rng, top=False):
    """one spelling of the expression; `top`: the expression is a whole fragment / call argument, so the redundant
    parentheses around a binary operation may be left out"""
    w = lambda: rng.choice(["", "", " ", "  "])
    k = e[0]
    paren = (lambda t: t) if top and rng.random() < 0.6 else (lambda t: "(" + w() + t + w() + ")")
    if k == "n":
        # optionally one name of the fragment is a backtick-quoted (non-identifier) column name
        return ("`" + BT_NAME[e[1]] + "`") if e[1] in BT_NAME else e[1]
    if k == "q":
        return "`" + e[1] + "`"
    if k == "c":
        return repr(e[1])
    if k == "t":
        q = e[2] if not e[1].endswith(e[2]) else [x for x in QUOTES if x != e[2]][0]
        return q * 3 + e[1] + q * 3
    if k == "s":
        s = e[1]
        q = rng.choice("'\"")  # either quote style; the style's own quote character is backslash-escaped
        return q + s.replace("\\", "\\\\").replace(q, "\\" + q) + q
    if k == "call":
        args = (w() + "," + w()).join(show_py(a, rng, top=True) for a in e[2])
        return e[1] + "(" + w() + args + w() + ")"
    if k == "bin":
        return paren(show_py(e[2], rng) + w() + e[1] + w() + show_py(e[3], rng))
    if k == "kw2":
        return paren(_kw_join(show_py(e[2], rng), e[1], show_py(e[3], rng), rng))
    if k == "not":
        return paren(_kw_join("", "not", show_py(e[1], rng), rng))
    if k == "ifx":
        t = _kw_join(show_py(e[1], rng), "if", show_py(e[2], rng), rng)
        return paren(_kw_join(t, "else", show_py(e[3], rng), rng))
    if k == "sub":
        base = show_py(e[1], rng)
        if e[1][0] not in ("n", "q", "call", "sub", "list", "dict"):
            base = "(" + base + ")"
        return base + "[" + w() + show_py(e[2], rng, top=True) + w() + "]"
    if k == "list":
        return "[" + (w() + "," + w()).join(show_py(a, rng, top=True) for a in e[1]) + "]"
    if k == "dict":
        return "{" + (w() + "," + w()).join(show_py(a, rng) + w() + ":" + w() + show_py(b, rng) for a, b in e[1]) + "}"
    raise ValueError(k)


def gen_lookalike(rng):
    """identifiers and string literals of the fragment that look like the aliases its back-quoted names get"""
    pool = [("q", "a b"), ("q", "a b"), ("q", "a|b"), ("q", "_formulaic_a_b c"), ("n", "_formulaic_a_b"), ("n", "_formulaic_a_b_1"),
            ("n", "_formulaic_a_bc"), ("n", "x_formulaic_a_b"), ("s", "_formulaic_a_b"), ("s", "x _formulaic_a_b_1 y"), ("n", "a_b"),
            ("q", "a_b"), ("n", "x1"), ("q", "_formulaic_a_b"), ("q", "class"), ("q", "None")]
    return ("call", rng.choice(["f", "g"]), [rng.choice(pool) for _ in range(rng.randint(2, 5))])


def gen_touching(rng):
    """keyword operators over back-quoted names and atoms (the class `{`a b`and`c d`}`)"""
    atom = lambda: rng.choice([("q", rng.choice(["a b", "c d", "x", "y", "it's", "a", "2nd", "if", "p)q"])), ("q", rng.choice(["a b", "c d"])), ("n", "x1"), ("c", 1), ("s", "k")])
    r = rng.random()
    if r < 0.45:
        e = ("kw2", rng.choice(KW2), atom(), atom())
    elif r < 0.6:
        e = ("not", atom())
    elif r < 0.85:
        e = ("ifx", atom(), atom(), atom())
    else:
        e = ("kw2", rng.choice(["and", "or"]), ("not", atom()), ("kw2", rng.choice(KW2), atom(), atom()))
    return e


def gen_percent(rng):
    """Python's % operator outside string literals, next to brackets and names"""
    atom = lambda: rng.choice([("n", "a"), ("n", "b"), ("n", "x1"), ("c", 2), ("c", 3), ("sub", ("n", "a"), ("c", 0)), ("call", "g", [("n", "b")]), ("s", "%d"), ("q", "a b")])
    r = rng.random()
    if r < 0.4:
        return ("bin", "%", atom(), atom())
    if r < 0.6:
        return ("bin", "%", ("bin", "%", atom(), atom()), atom())
    if r < 0.8:
        return ("call", rng.choice(["f", "g"]), [("bin", "%", atom(), atom()) for _ in range(rng.randint(1, 3))])
    return ("bin", rng.choice(["+", "==", "*"]), ("bin", "%", atom(), atom()), atom())


# fixed inputs run on every seed and tier: (formula, the same formula conventionally spaced, python fragments of the first
# in order, each with its form).  (a) a back-quoted name touching a keyword/identifier; (b) Python's % inside fragments.
FIXED_PY = [
    ("{`a b`and`c d`}", "{`a b` and `c d`}", [("`a b`and`c d`", "brace")]),
    ("{not`a b`}", "{not `a b`}", [("not`a b`", "brace")]),
    ("{1 if`a b`else 0}", "{1 if `a b` else 0}", [("1 if`a b`else 0", "brace")]),
    ("f(`a`if`b`else`c`)", "f(`a` if `b` else `c`)", [("f(`a`if`b`else`c`)", "call")]),
    ("{`x`in`y`}", "{`x` in `y`}", [("`x`in`y`", "brace")]),
    ("{`a b`or`c d`}", "{`a b` or `c d`}", [("`a b`or`c d`", "brace")]),
    ("f(`a b`is not`c d`)", "f(`a b` is not `c d`)", [("f(`a b`is not`c d`)", "call")]),
    ("f(`a b`not in`c d`, 1)", "f(`a b` not in `c d`, 1)", [("f(`a b`not in`c d`, 1)", "call")]),
    ("{`a b`if`c d`else`e f`}", "{`a b` if `c d` else `e f`}", [("`a b`if`c d`else`e f`", "brace")]),
    ("f(x if`a b`else y)", "f(x if `a b` else y)", [("f(x if`a b`else y)", "call")]),
    ("{[`a b`for z in`c d`]}", "{[`a b` for z in `c d`]}", [("[`a b`for z in`c d`]", "brace")]),
    ("g(`a b`and not`c d`)", "g(`a b` and not `c d`)", [("g(`a b`and not`c d`)", "call")]),
    ("{lambda q:`a b`}", "{lambda q: `a b`}", [("lambda q:`a b`", "brace")]),
    ("y ~ {`a b`and`c d`} + f(not`e`)", "y~{`a b` and `c d`}+f(not `e`)", [("`a b`and`c d`", "brace"), ("f(not`e`)", "call")]),
    ("a + I(x % 2)", "a+I(x%2)", [("I(x % 2)", "call")]),
    ("{(x % 2) == 0} + b", "{(x%2)==0}+b", [("(x % 2) == 0", "brace")]),
    ("I(x % 2) + I(z % 3)", "I(x%2)+I(z%3)", [("I(x % 2)", "call"), ("I(z % 3)", "call")]),
    ("f(a % 2, b % 3)", "f(a%2,b%3)", [("f(a % 2, b % 3)", "call")]),
    ("f((a) % (b))", "f((a)%(b))", [("f((a) % (b))", "call")]),
    ("f(x[0] % y[1])", "f(x[0]%y[1])", [("f(x[0] % y[1])", "call")]),
    ("{[1, 2][0] % 2}", "{[1,2][0]%2}", [("[1, 2][0] % 2", "brace")]),
    ("I(x % 2) %in% I(z % 3)", "I(x%2)%in%I(z%3)", [("I(x % 2)", "call"), ("I(z % 3)", "call")]),
    ("f(a %2)%in%g(b% 3)", "f(a % 2) %in% g(b % 3)", [("f(a %2)", "call"), ("g(b% 3)", "call")]),
    ("{x % 2}", "{x%2}", [("x % 2", "brace")]),
    ("{'%d' % x}", "{'%d'%x}", [("'%d' % x", "brace")]),
    ("f('%s %s' % (a, b))", "f('%s %s'%(a,b))", [("f('%s %s' % (a, b))", "call")]),
    ("{a %b% c}", "{a % b % c}", [("a %b% c", "brace")]),
    ("f(a %b% c)", "f(a % b % c)", [("f(a %b% c)", "call")]),
    ("np.log(x % 2 + 1) : {y % 3}", "np.log(x%2+1):{y%3}", [("np.log(x % 2 + 1)", "call"), ("y % 3", "brace")]),
    ("a %in% f(b % 2)", "a%in%f(b%2)", [("f(b % 2)", "call")]),
    ("{x % 2} %in% {y % 3}", "{x%2}%in%{y%3}", [("x % 2", "brace"), ("y % 3", "brace")]),
    ("f(x)[a % 2] + g(b) % 2", None, None),  # `%` after a closed call is at top level: an unterminated %-quote
    ("(I(x % 2))", "( I(x%2) )", [("I(x % 2)", "call")]),
    ("f(`a b` % 2, `c%d` % 3)", "f(`a b`%2,`c%d`%3)", [("f(`a b` % 2, `c%d` % 3)", "call")]),
    ("{`100%` % 2}", "{`100%`%2}", [("`100%` % 2", "brace")]),
    ('f(' + '"' * 3 + 'a b' + '"' * 3 + ', x)', 'f( ' + '"' * 3 + 'a b' + '"' * 3 + ',x )', [('f(' + '"' * 3 + 'a b' + '"' * 3 + ', x)', "call")]),
    # known finding C15-F4: an odd number of quote characters inside a triple-quoted literal
    ('f(' + '"' * 3 + 'a"b' + '"' * 3 + ')', 'f( ' + '"' * 3 + 'a"b' + '"' * 3 + ' )', [('f(' + '"' * 3 + 'a"b' + '"' * 3 + ')', "call")]),
]


def wrap_frag(text, form):
    return "{" + text + "}" if form == "brace" else text


def gen_fragment(rng):
    """one Python fragment in two spellings: (frag text, form), (frag2 text, form)"""
    e = gen_pyexpr(rng, 3)
    BT_NAME.clear()
    r = rng.random()
    if r < 0.2:
        e = gen_quote_args(rng)
    elif r < 0.32:
        e = gen_touching(rng)
    elif r < 0.44:
        e = gen_percent(rng)
    elif r < 0.52:
        e = gen_lookalike(rng)
    elif r < 0.72:
        BT_NAME.update(rng.choice(BT_CHOICES))
        if rng.random() < 0.5:  # make sure the quoted names occur, next to look-alike identifiers
            e = ("call", rng.choice(["g", "np.log", "f"]), [("n", "a"), e, ("n", "b"), ("n", "a")])
    if e[0] in ("c", "s", "t"):  # a bare constant is not a fragment of its own (`{1}` is the intercept)
        e = ("call", "g", [e])
    a, b = show_py(e, rng, top=True), show_py(e, rng, top=True)
    BT_NAME.clear()
    form = rng.choice(["call", "brace"])
    if form == "call":
        fn = rng.choice(["f", "f", "I", "np.log"])
        return (fn + "(" + a + ")", form), (fn + "( " + b + " )", form)
    return (a, form), (" " + b + " ", form)


ALIAS_ALPHABET = "ab_1 `'\"\\(),+.x\ufb01\u00e9\t"
FIXED_ALIAS = [
    # (expr, prefix, env keys): collisions with env force the numeric suffix; unterminated quotes and back-quotes
    ("f(`a b`, `a|b`)", "", ["a_b", "a_b_1", "a b"]),
    ("f(`a b`, `a|b`, `a b`)", "", ["a b", "a|b"]),
    ("f(`a b`, `a|b`)", "_formulaic_", []),
    ("`a b` + a_b", "", ["a_b"]),
    ("`x` + `class` + `\ufb01`", "", ["x", "class"]),
    ("f(`a b", "_formulaic_", []),
    ("f('a b, `c d`)", "_formulaic_", []),
    ("f(\"a\\\\\", `b c`, \"d\")", "_formulaic_", []),
    ("f(`it's`, 'x', `it's`)", "_formulaic_", []),
    ("f(\\\"`a`\\\")", "_formulaic_", []),
    ("  `a b`  ", "_formulaic_", []),
    ("``+`1`+`1a`", "", ["_", "_1"]),
    ("`a\\`b` + 'c\\'`d`'", "_formulaic_", []),
    ("f(`_formulaic_a_b c`, `a b`)", "_formulaic_", []),
    ("f(`a b`, x1, `a_b`, `a b`)", "", []),
    ("f(`a_b`, `a b`, `a_b`)", "", []),
    ("f(`a b`, a_b, \"a_b_1\")", "", []),
    ("f(`a b`, _formulaic_a_b, '_formulaic_a_b_1')", "_formulaic_", []),
    ("f(`class`, `None`, `x`)", "", ["class", "x"]),
]


def gen_alias_case(rng):
    r = rng.random()
    if r < 0.45:
        (a, form), _ = gen_fragment(rng)
        expr = a
    elif r < 0.6:
        expr = show_py(gen_quote_args(rng), rng, top=True)
    else:
        expr = "".join(rng.choice(ALIAS_ALPHABET) for _ in range(rng.randint(1, 16)))
    pre = rng.choice(["", "_formulaic_", "_formulaic_"])
    env = []
    if rng.random() < 0.5:  # keys that collide with the aliases the names of this fragment would get
        import re as _re

        for nm in _re.findall(r"`([^`]*)`", expr):
            base = "".join(ch if (ch.isascii() and (ch.isalnum() or ch == "_")) else "_" for ch in nm)
            if not base or base[0].isdigit():
                base = "_" + base
            for cand in (nm, pre + base, pre + base + "_1", pre + base + "_2"):
                if rng.random() < 0.4:
                    env.append(cand)
    return dict(kind="alias", expr=expr, pre=pre, env=sorted(set(env)))


def gen_tokmeth_case(rng):
    kinds = ["operator", "name", "python", "value", "context", "none"]
    text = lambda: "".join(rng.choice("~+-|ab~|") for _ in range(rng.randint(0, 7)))
    span = lambda: rng.choice([[None, None], [0, 3], [2, 2], [5, 7]])
    if rng.random() < 0.7:
        a, b = span()
        return dict(kind="tokmeth", op="split", tok=[text(), rng.choice(kinds), a, b], src=rng.choice([None, "a ~+ b|c"]),
                    pat=rng.choice(["~", "|", "+-", "ab", "~~", "a"]), after=rng.random() < 0.6, before=rng.random() < 0.4,
                    compiled=rng.random() < 0.5)
    if rng.random() < 0.4:
        a, b = span()
        txt = rng.choice([text(), "f(x", "g(`a b`) +", "x 1", "a.b", "", "np.log(a)"])
        return dict(kind="tokmeth", op="tokinfo", tok=[txt, rng.choice(kinds), a, b], src=rng.choice([None, "", "a ~+ b|c", "f(x) + y z"]))
    (a1, b1), (a2, b2) = span(), span()
    t1 = text()
    return dict(kind="tokmeth", op="tokcmp", a=[t1, rng.choice(kinds), a1, b1],
                b=[t1 if rng.random() < 0.5 else text(), rng.choice(kinds), a2, b2])


def cases(rng, tier):
    for expr, pre, env in FIXED_ALIAS:
        yield dict(kind="alias", expr=expr, pre=pre, env=env)
    for _ in range({"quick": 150, "thorough": 4000, "search": 150}[tier]):
        yield gen_alias_case(rng)
    for _ in range({"quick": 60, "thorough": 1000, "search": 60}[tier]):
        yield gen_tokmeth_case(rng)
    for s1, s2, frags in FIXED_PY:
        if frags is None:
            yield dict(kind="random", s=s1)
        else:
            yield dict(kind="py", form="fixed", frags=[list(f) for f in frags], s=s1, s2=s2)
    n = {"quick": 1200, "thorough": 30000, "search": 1200}[tier]
    for _ in range(n):
        r = rng.random()
        if r < 0.3:
            f = pc.gen_formula(rng, depth=rng.choice([1, 2]))
            try:
                pc.denote(pc.to_lists(f), pc.CFG_DEFAULT, None, ordered=True)
            except pc.TooBig:
                continue
            except Exception:
                pass
            yield dict(kind="respace", s=pc.render_formula(f, rng), s2=pc.render_formula(f, rng))
        elif r < 0.55:
            name = rng.choice(["class", "if", "None", "lambda", "\ufb01", "x\u00b2", "e\u0301", "\u00b5 g"]) if rng.random() < 0.08 else rand_name(rng)
            tmpl = rng.choice(["`{}`", "a + `{}`", "`{}`:b + c", "y ~ `{}` * x", "(`{}`)", "f(`{}`)", "{{`{}` + 1}}"])
            yield dict(kind="name", name=name, tmpl=tmpl, s=tmpl.format(name))
        elif r < 0.85:
            (a, form), (b, _) = gen_fragment(rng)
            if rng.random() < 0.75:
                yield dict(kind="py", form=form, frags=[[a, form]],
                           s="x + " + wrap_frag(a, form) + " : y", s2="x+" + wrap_frag(b, form) + ":y")
            else:  # two fragments joined by a top-level operator (the %in% operator included)
                (a2, form2), (b2, _) = gen_fragment(rng)
                op = rng.choice(["+", ":", "*", "%in%", "%in%", "/", "~"])
                sp = lambda: rng.choice(["", " ", "  "])
                yield dict(kind="py", form=form + "+" + form2, frags=[[a, form], [a2, form2]],
                           s=wrap_frag(a, form) + sp() + op + sp() + wrap_frag(a2, form2),
                           s2=wrap_frag(b, form) + sp() + op + sp() + wrap_frag(b2, form2))
        else:
            m = rng.randint(1, 14)
            yield dict(kind="random", s="".join(rng.choice(c01.ALPHABET + "\\é\t") for _ in range(m)))


def describe(c):
    if c["kind"] == "alias":
        return "alias/" + (c["pre"] or "plain") + ("/env" if c["env"] else "")
    if c["kind"] == "tokmeth":
        return "tokmeth/" + c["op"]
    return c["kind"] + ("/" + c["form"] if "form" in c else "")


def nontrivial(c):
    if c["kind"] == "alias":
        return "`" in c["expr"]
    if c["kind"] == "tokmeth":
        return True
    return any(ch in c["s"] for ch in "+-*:/^~|()[]{}`%'\"")


def _cls(e):
    return pc.exc_class(e)


def _tok4(t):
    return [t.token, t.kind.value if t.kind else "none", t.source_start, t.source_end]


def _space_chars(*strings):
    return "".join(sorted({" "} | {ch for st in strings for ch in st if ch.isspace()}))


def impl_lex(s):
    """everything the lexer layer says about one string: the tokens the generator yields (also before it raises),
    each with its source context, factor and terms; the alias pass and the normal form of every Python token"""
    from formulaic.parser.algos.sanitize_tokens import sanitize_python_code
    from formulaic.parser.algos.tokenize import tokenize
    from formulaic.parser.types import Token
    from formulaic.utils.code import format_expr, sanitize_variable_names

    toks, err, err_msg = [], None, None
    try:
        for t in tokenize(s):
            toks.append(t)
    except Exception as e:
        err, err_msg = _cls(e), str(e)
    full, py, fmt, pyrv = [], [], [], []
    for t in toks:
        try:
            f = t.to_factor()
            fac = [f.expr, f.eval_method.value]
        except Exception as e:
            fac = {"error": type(e).__name__}
        try:
            terms = [pc.canon_term(x) for x in t.to_terms()]
        except Exception as e:
            terms = {"error": type(e).__name__}
        rv = None if t.kind is Token.Kind.PYTHON else sorted(str(v) for v in t.required_variables)
        pyrv.append(sorted(str(v) for v in t.required_variables) if t.kind is Token.Kind.PYTHON else None)
        full.append(dict(tok=_tok4(t), ctx=t.get_source_context(), cctx=t.get_source_context(colorize=True), factor=fac, terms=terms, rv=rv))
        if t.kind is Token.Kind.PYTHON:
            aliases = {}
            s1 = sanitize_variable_names(t.token, {}, aliases, template="_formulaic_{}")
            try:
                fmt.append(dict(k=s1, ok=format_expr(s1)))
            except Exception as e:
                fmt.append(dict(k=s1, err=type(e).__name__))
            try:
                fin = {"ok": sanitize_python_code(t.token)}
            except Exception as e:
                fin = {"error": _cls(e)}
            py.append(dict(s1=s1, aliases=[[k, v] for k, v in aliases.items()], final=fin))
    lex = dict(tokens=full, error=err, py=py)
    tok = {"error": err} if err else {"tokens": [x["tok"] for x in full]}
    return dict(lex=lex, tok=tok, fmt=fmt, err_msg=err_msg, pyrv=pyrv)


def impl_alias(c):
    from formulaic.utils.code import UNQUOTED_BACKTICK_MATCHER, format_expr, sanitize_variable_names

    env = {k: i for i, k in enumerate(c["env"])}
    aliases = {}
    tmpl = c["pre"] + "{}"
    s1 = sanitize_variable_names(c["expr"], env, aliases, template=tmpl)
    added = [[k, v] for k, v in aliases.items() if k in env and k not in c["env"]]
    out = dict(parts=UNQUOTED_BACKTICK_MATCHER.split(c["expr"]), s1=s1, aliases=[[k, v] for k, v in aliases.items()],
               added=added, env_ok=all(env[k] == env.get(v) for k, v in added))
    if c["pre"]:
        from formulaic.parser.algos.sanitize_tokens import sanitize_python_code

        try:
            out["fmt"] = [dict(k=s1, ok=format_expr(s1))]
        except Exception as e:
            out["fmt"] = [dict(k=s1, err=type(e).__name__)]
        try:
            out["final"] = {"ok": sanitize_python_code(c["expr"])}
        except Exception as e:
            out["final"] = {"error": _cls(e)}
    else:
        out["final"] = None
    return out


# templates whose model matrix is computed on a frame holding the quoted column: expected value of the column per row value v
EVAL_TEMPLATES = {"`{}`": lambda v: v, "(`{}`)": lambda v: v, "f(`{}`)": lambda v: 2 * v, "{{`{}` + 1}}": lambda v: v + 1}
EVAL_ROWS = [1.0, 2.0, 4.0]


def impl_eval(s, name):
    """the model matrix of the formula on a frame whose only column is the quoted name (f doubles its argument)"""
    import pandas

    from formulaic import Formula, model_matrix

    out = {}
    try:
        out["required"] = sorted(str(v) for v in Formula(s).required_variables)
    except Exception as e:
        out["required"] = {"error": type(e).__name__}
    try:
        mm = model_matrix(s, pandas.DataFrame({name: EVAL_ROWS}), context={"f": lambda x: x * 2})
        out["values"] = [[float(x) for x in row] for row in mm.values.tolist()]
    except Exception as e:
        out["values"] = {"error": type(e).__name__ + ": " + str(e)[:120]}
    return out


def _mk_token(t, src=None):
    from formulaic.parser.types import Token

    return Token(t[0], kind=None if t[1] == "none" else t[1], source=src, source_start=t[2], source_end=t[3])


def impl_tokmeth(c):
    if c["op"] == "tokinfo":
        t = _mk_token(c["tok"], c["src"])
        try:
            f = t.to_factor()
            fac = [f.expr, f.eval_method.value]
        except Exception as e:
            fac = {"error": type(e).__name__}
        try:
            terms = [pc.canon_term(x) for x in t.to_terms()]
        except Exception as e:
            terms = {"error": type(e).__name__}
        rv = None if c["tok"][1] == "python" else sorted(str(v) for v in t.required_variables)
        if c["tok"][1] == "python":
            t.required_variables  # CPython's answer (also for malformed code: an empty set, never an exception)
        return dict(ctx=t.get_source_context(), cctx=t.get_source_context(colorize=True), factor=fac, terms=terms, rv=rv)
    if c["op"] == "split":
        t = _mk_token(c["tok"], c.get("src"))
        return [_tok4(x) for x in t.split(re.compile(re.escape(c["pat"])) if c.get("compiled") else re.escape(c["pat"]), after=c["after"], before=c["before"])]
    a, b = _mk_token(c["a"]), _mk_token(c["b"])
    return dict(eq=(a == b), eqstr=(a == b.token), lt=(a < b), samehash=(hash(a) == hash(b)), loc=list(a.source_loc),
                other=[a.__eq__(1) is NotImplemented, a.__lt__("x") is NotImplemented, a.flatten() is a, a.flatten(str_args=True) == a.token, repr(a) == a.token])


def impl(c):
    if c["kind"] == "alias":
        return impl_alias(c)
    if c["kind"] == "tokmeth":
        return impl_tokmeth(c)
    out = impl_lex(c["s"])
    if c["kind"] in ("respace", "py"):
        out["f1"] = pc.impl_formula(c["s"], pc.CFG_DEFAULT)
        out["f2"] = pc.impl_formula(c["s2"], pc.CFG_DEFAULT)
    if c["kind"] == "random":
        out["f1"] = pc.impl_formula(c["s"], pc.CFG_DEFAULT)
    if c["kind"] == "name":
        out["f1"] = pc.impl_formula(c["s"], pc.CFG_DEFAULT)
        if c["tmpl"] in EVAL_TEMPLATES:
            out["eval"] = impl_eval(c["s"], c["name"])
    return out


def request(c, o):
    if c["kind"] == "alias":
        names = [p[1:-1] for i, p in enumerate(o.get("parts", [])) if i % 2 == 1 and p.startswith("`")] if isinstance(o, dict) else []
        import unicodedata

        plain = [[n, bool(n.isidentifier() and unicodedata.normalize("NFKC", n) == n)] for n in sorted(set(names))]
        r = dict(op="alias", expr=c["expr"], pre=c["pre"], env=c["env"], plain=plain, spchars=_space_chars(c["expr"]))
        if c["pre"] and isinstance(o, dict) and "fmt" in o:
            r["fmt"] = o["fmt"]
        return r
    if c["kind"] == "tokmeth":
        return dict(c, op=c["op"])
    w, sp = pc.char_flags(c["s"])
    return dict(op="lex", s=c["s"], w=w, sp=sp, spchars=_space_chars(c["s"]), fmt=o.get("fmt", []) if isinstance(o, dict) else [])


def _diff(a, b, path=""):
    if type(a) != type(b):
        return f"{path}: impl {a!r} vs model {b!r}"
    if isinstance(a, dict):
        for k in sorted(set(a) | set(b)):
            if k not in a or k not in b:
                return f"{path}.{k}: present on one side only"
            d = _diff(a[k], b[k], path + "." + k)
            if d:
                return d
        return None
    if isinstance(a, list):
        if len(a) != len(b):
            return f"{path}: lengths {len(a)} vs {len(b)}: impl {a!r} vs model {b!r}"[:400]
        for i, (x, y) in enumerate(zip(a, b)):
            d = _diff(x, y, f"{path}[{i}]")
            if d:
                return d
        return None
    return None if a == b else f"{path}: impl {a!r} vs model {b!r}"[:400]


def agree(c, o, m):
    if isinstance(m, dict) and "driver_error" in m:
        return "driver: " + m["driver_error"][:300]
    if c["kind"] == "alias":
        want = {k: o[k] for k in ("parts", "s1", "aliases", "added", "final")}
        if not o["env_ok"]:
            return "env[new_name] = env[name] was not carried out for every alias added to env"
        if isinstance(m, dict) and isinstance(m.get("added"), list):  # the assignment is repeated for a repeated name: same effect
            m = dict(m, added=[x for i, x in enumerate(m["added"]) if x not in m["added"][:i]])
        return _diff(want, m)
    if c["kind"] == "tokmeth":
        if c["op"] in ("split", "tokinfo"):
            return _diff(o, m)
        if not all(o["other"]):
            return f"Token.__eq__/__lt__/flatten/__repr__ conventions: {o['other']}"
        return _diff({k: v for k, v in o.items() if k != "other"}, m)
    return _diff(o["lex"], m)


def _all_factors(v, acc):
    if isinstance(v, dict):
        for x in (v.get("s", {}).values() if "s" in v else v.get("t", [])):
            _all_factors(x, acc)
    else:
        for t in v:
            for f in t:
                acc.append(f)
    return acc


def _odd_trailing_backslashes(name):
    return (len(name) - len(name.rstrip("\\"))) % 2 == 1


def _scan_fragment(expr):
    """independent reader of a Python fragment: [(kind, text)] with kind in text/str/name; None when a quote or a
    back-quote is left open (the reader does not say what should happen then)"""
    out, i, n, cur = [], 0, len(expr), []
    while i < n:
        ch = expr[i]
        if ch in "'\"`":
            j = i + 1
            while j < n and expr[j] != ch:
                j += 2 if expr[j] == "\\" else 1
            if j >= n:
                return None
            if cur:
                out.append(("text", "".join(cur)))
                cur = []
            out.append(("name", expr[i + 1:j]) if ch == "`" else ("str", expr[i:j + 1]))
            i = j + 1
        elif ch == "\\":
            return None  # a backslash outside quotes is not Python
        else:
            cur.append(ch)
            i += 1
    if cur:
        out.append(("text", "".join(cur)))
    return out


def oracle_alias(c, o):
    import keyword
    import unicodedata

    expr = c["expr"]
    if "".join(o["parts"]) != expr:
        return f"the parts of the scan do not add up to the fragment: {o['parts']!r}"
    aliases = o["aliases"]
    news, olds = [a[0] for a in aliases], [a[1] for a in aliases]
    if len(set(olds)) != len(olds):
        return f"one name has two aliases: {aliases!r}"
    for new, old in aliases:
        if new == old and not c["pre"]:
            if not new.isidentifier() or unicodedata.normalize("NFKC", new) != new:
                return f"name {old!r} is used as it is but Python's parser would not read it back unchanged"
            continue
        if not new.isascii() or not new.isidentifier() or keyword.iskeyword(new):
            return f"alias {new!r} of {old!r} is not an ASCII identifier"
        if new in c["env"] and old not in c["env"]:
            return f"alias {new!r} of {old!r} shadows a variable of the environment"
    segs = _scan_fragment(expr)
    if segs is not None:
        names = [t for k, t in segs if k == "name"]
        if sorted(set(names)) != sorted(set(olds)):
            return f"back-quoted names {names!r} but aliases for {olds!r}"
        amap = {old: new for new, old in aliases}
        want = "".join((" " + amap[t] + " ") if k == "name" else t for k, t in segs).strip()
        if o["s1"] != want:
            return f"sanitised fragment {o['s1']!r} is not the fragment with each back-quoted name replaced by its alias ({want!r})"
        words = {w for k, t in segs if k == "text" or (k == "str" and c["pre"]) for w in re.findall(r"[^\W\d]\w*", t)}
        for new, old in aliases:
            if new != old and new in words:
                return f"alias {new!r} of {old!r} is also an identifier (or a word of a string literal) of the fragment itself"
        if c["pre"] and o["final"] and "ok" in o["final"]:
            f = o["fmt"][0]
            if "ok" in f:
                # restoration: what comes back is the formatted code with every alias replaced by its quoted name
                pat = re.compile(r"\b(" + "|".join(re.escape(a) for a in sorted(news, key=len, reverse=True)) + r")\b") if news else None
                back = pat.sub(lambda m: "`" + dict(aliases)[m.group(1)] + "`", f["ok"]) if pat else f["ok"]
                if o["final"]["ok"] != back:
                    return f"restoration: {o['final']['ok']!r} is not {f['ok']!r} with the aliases replaced by the quoted names ({back!r})"
    return None


def oracle_tokmeth(c, o):
    if c["op"] == "tokinfo":
        text, kind, a, b = c["tok"]
        want = {"name": "lookup", "python": "python", "value": "literal"}.get(kind)
        if want and o["factor"] != [text, want]:
            return f"{kind} token {text!r} gives the factor {o['factor']!r}"
        if not want and "error" not in o["factor"]:
            return f"{kind} token {text!r} was turned into a factor: {o['factor']!r}"
        if c["src"] and a is not None and "\u29db" not in c["src"]:
            for ctx, colored in ((o["ctx"], False), (o["cctx"], True)):
                if ctx is None:
                    return "no source context although the token has a source and a span"
                plain = re.sub("\x1b\\[[0-9;]*m", "", ctx) if colored else ctx
                if plain.replace("\u29db", "", 1).replace("\u29da", "", 1) != c["src"]:
                    return f"source context {ctx!r} is not the source {c['src']!r} with one span marked"
        if kind == "name" and o["rv"] != [text]:
            return f"name token {text!r} requires {o['rv']!r}"
        return None
    if c["op"] == "split":
        text, kind, a, b = c["tok"]
        if not c["after"] and not c["before"]:
            return None if o == [c["tok"]] else f"split without after/before must give the token itself: {o!r}"
        if "".join(p[0] for p in o) != text:
            return f"the pieces of split do not add up to the token text {text!r}: {o!r}"
        for p in o:
            if p[1:] != [kind, a, b]:
                return f"a piece of split lost the kind or the source span of its token: {p!r} from {c['tok']!r}"
        if c["after"] and not c["before"]:
            for p in o[:-1]:
                if not p[0].endswith(c["pat"]):
                    return f"split(after=True): piece {p[0]!r} does not end with the separator {c['pat']!r}"
            if any(c["pat"] in p[0][:-len(c["pat"])] for p in o):
                return f"split(after=True): a piece still holds a separator inside: {o!r}"
        return None
    if o["eq"] and not o["samehash"]:
        return "equal tokens with different hashes"
    if o["eq"] != (c["a"][0] == c["b"][0] and c["a"][1] == c["b"][1]):
        return "Token equality is not equality of text and kind"
    if o["loc"] != c["a"][2:]:
        return "source_loc is not (source_start, source_end)"
    return None


def _context_check(s, a, b, ctx, colored):
    """`ctx` must be the source with the span a..b put between the two markers (and nothing else changed)"""
    if ctx is None:
        return None if (not s or a is None or b is None) else "no source context although the token has a span"
    if colored:
        ctx = re.sub("\x1b\\[[0-9;]*m", "", ctx)
    if ctx.count("\u29db") < 1 or ctx.count("\u29da") < 1:
        return f"source context {ctx!r} lacks the span markers"
    i = ctx.index("\u29db")
    j = ctx.index("\u29da", i)
    pre, mid, post = ctx[:i], ctx[i + 1:j], ctx[j + 1:]
    if pre + mid + post != s:
        return f"source context {ctx!r} is not the source {s!r} with markers inserted"
    if (len(pre), len(pre) + len(mid) - 1) != (a, b):
        return f"source context {ctx!r} highlights {len(pre)}..{len(pre) + len(mid) - 1}, the token's span is {a}..{b}"
    return None


def oracle(c, o):
    if "harness_exception" in o:
        return "harness failure: " + o["harness_exception"]
    if c["kind"] == "alias":
        return oracle_alias(c, o)
    if c["kind"] == "tokmeth":
        return oracle_tokmeth(c, o)
    tok = o["tok"]
    s = c["s"]
    for t in o["lex"]["tokens"]:
        text, kind, a, b = t["tok"]
        if "\u29db" in s or "\u29da" in s:
            break
        for ctx, colored in ((t["ctx"], False), (t["cctx"], True)):
            why = _context_check(s, a, b, ctx, colored)
            if why:
                return f"token {text!r}: " + why
        want = {"name": "lookup", "python": "python", "value": "literal"}.get(kind)
        if want and t["factor"] != [text, want]:
            return f"{kind} token {text!r} gives the factor {t['factor']!r}, not [{text!r}, {want!r}]"
        if want and t["terms"] != [[[text, want]]]:
            return f"{kind} token {text!r} gives the terms {t['terms']!r}"
        if not want and "error" not in t["factor"]:
            return f"{kind} token {text!r} was turned into a factor: {t['factor']!r}"
    if o.get("err_msg") and "\n\n" in o["err_msg"] and "\u29db" not in s and "\u29da" not in s:
        ctx = re.sub("\x1b\\[[0-9;]*m", "", o["err_msg"].split("\n\n", 1)[1])
        if "\u29db" in ctx and "\u29da" in ctx:
            if ctx.replace("\u29db", "", 1).replace("\u29da", "", 1) != s:
                return f"the source context of the error message, {ctx!r}, is not the formula with one span marked"
    # spans: ordered, non-overlapping, delimit the text
    if "tokens" in tok:
        prev = -1
        for text, kind, a, b in tok["tokens"]:
            if a is None or b is None or not (prev < a <= b < len(s)):
                return f"span of token {text!r} is not ordered/non-overlapping: ({a}, {b}) after {prev}"
            prev = b
            src = s[a:b + 1]
            if kind == "operator" and not src.startswith("%"):
                src = re.sub(r"\s", "", src)
            if src.startswith(("`", "{", "%")) and kind in ("name", "python", "operator") and src[1:] == text:
                continue
            if src != text:
                return f"span ({a},{b}) = {src!r} does not delimit token text {text!r}"
    # (a Python fragment that was lexed before the point of failure may be reported first: SyntaxError)
    if c["kind"] == "random" and "error" in tok and o["f1"].get("error") not in (tok["error"], "SyntaxError"):
        return f"tokenize({s!r}) fails with {tok['error']} but Formula({s!r}) gives {o['f1']}"
    if c["kind"] == "respace":
        if o["f1"] != o["f2"]:
            return f"re-spacing changed the parsed formula: {c['s']!r} -> {o['f1']} vs {c['s2']!r} -> {o['f2']}"
    if c["kind"] == "name":
        name = c["name"]
        if "error" in tok:
            return f"column name {name!r} cannot be referenced: tokenisation of {s!r} fails with {tok['error']}"
        if c["tmpl"] in ("`{}`", "a + `{}`", "`{}`:b + c", "y ~ `{}` * x", "(`{}`)"):
            names = [t for t in tok["tokens"] if t[1] == "name" and t[0] == name]
            if not names:
                return f"quoted name {name!r} not taken verbatim: tokens {[(t[0], t[1]) for t in tok['tokens']]}"
            if "error" in o["f1"]:
                return f"formula {s!r} with quoted name {name!r} rejected: {o['f1']['error']}"
            if [name, "lookup"] not in _all_factors(o["f1"]["formula"], []):
                return f"no lookup factor named {name!r} in {o['f1']}"
        else:  # inside a Python fragment the whole fragment must be one python token
            py = [t for t in tok["tokens"] if t[1] == "python"]
            if len(py) != 1 or ("`" + name + "`") not in py[0][0]:
                return f"fragment containing quoted name {name!r} not taken verbatim: {[(t[0], t[1]) for t in tok['tokens']]}"
        if "eval" in o and name != "1":
            ev = o["eval"]
            want = [[1.0, EVAL_TEMPLATES[c["tmpl"]](v)] for v in EVAL_ROWS]
            if ev["values"] != want:
                return f"the column named {name!r} cannot be referenced: model_matrix({s!r}) on a frame with that column gives {ev['values']!r}, expected {want!r}"
            from formulaic.transforms import TRANSFORMS

            # (a column named like a transform is left out of required_variables: known finding C17-F1, not C15's)
            if ev["required"] != [name] and name.split(".", 1)[0] not in TRANSFORMS:
                return f"the column named {name!r} is referenced by {s!r} but required_variables is {ev['required']!r}"
    if c["kind"] == "py":
        frags = c["frags"]
        if "error" in tok:
            return f"Python fragments {[f[0] for f in frags]!r} not lexed: {tok['error']}"
        py = [t[0] for t in tok["tokens"] if t[1] == "python"]
        if py != [f[0] for f in frags]:
            return f"Python fragments not taken verbatim, one token each: want {[f[0] for f in frags]!r}, tokens {[(t[0], t[1]) for t in tok['tokens']]}"
        if o["f1"] != o["f2"]:
            return f"fragments differing only in formatting denote different formulas: {c['s']!r} -> {o['f1']} vs {c['s2']!r} -> {o['f2']}"
        if "error" in o["f1"]:
            return f"valid Python fragment rejected: {o['f1']}"
        want = [_frag_ast("(" + f + ")") for f, _ in frags]
        if all(w is not None for w in want):
            got = sorted({f[0] for f in _all_factors(o["f1"]["formula"], []) if f[1] == "python"})
            got_ast = [_frag_ast("(" + g + ")") for g in got]
            if sorted(set(want)) != sorted(set(a for a in got_ast if a is not None)) or None in got_ast:
                return (f"the Python factors {got!r} are not the Python expressions written as {[f[0] for f in frags]!r} "
                        f"(one factor per fragment, same code over the same back-quoted names)")
    return None


def _frag_ast(frag):
    """AST dump of a fragment in which every back-quoted name (outside string literals) is replaced by a
    placeholder carrying the name; None when the fragment is outside what this reader handles"""
    import ast as _ast

    out, names, i, n = [], [], 0, len(frag)
    while i < n:
        ch = frag[i]
        if ch in "'\"":
            j = i + 1
            while j < n and frag[j] != ch:
                j += 2 if frag[j] == "\\" else 1
            out.append(frag[i:j + 1])
            i = j + 1
        elif ch == "`":
            j = i + 1  # as the formula tokenizer reads a quoted name: a backslash takes the next character with it
            while j < n and frag[j] != "`":
                j += 2 if frag[j] == "\\" else 1
            if j >= n:
                return None
            names.append(frag[i + 1:j])
            out.append(f" __bt{len(names) - 1}__ ")
            i = j + 1
        else:
            out.append(ch)
            i += 1
    try:
        tree = _ast.parse("".join(out).strip(), mode="eval")
    except SyntaxError:
        return None
    # identify placeholders by the NAME they stand for, not by their position
    class R(_ast.NodeTransformer):
        def visit_Name(self, node):
            if node.id.startswith("__bt") and node.id.endswith("__"):
                k = int(node.id[4:-2])
                return _ast.copy_location(_ast.Name(id="`" + names[k] + "`", ctx=node.ctx), node)
            return node
    return _ast.dump(R().visit(tree))


def classify(c, o, why):
    if c["kind"] == "name" and _odd_trailing_backslashes(c["name"]):
        return "C15-F1"
    if c["kind"] == "name" and c["name"] == "1" and "no lookup factor" in str(why):
        return "C15-F2"
    if c["kind"] == "py" and any(w in str(why) for w in ("not lexed", "rejected", "not taken verbatim")):
        for frag, _ in c["frags"]:
            for q1 in QUOTES:
                parts = frag.split(q1 * 3)
                # an odd number of single quote characters of its own kind inside a triple-quoted literal
                if any(parts[i].count(q1) % 2 == 1 for i in range(1, len(parts), 2)):
                    return "C15-F4"
    return None


LEVEL_TEXT = (
    'Proof (every clause but CPython\'s own normal form): Lean theorems about the executable models of tokenize()/Token, of the parser '
    'pipeline and of utils/code.py, all run against the real functions on every check. LEXER, for ALL strings: a backtick-quoted body '
    '(any characters except backtick/backslash) is ONE name token with the body verbatim; brace-, backtick- and percent-quoted bodies and '
    'call-style fragments name(...)[...] (dotted names, chains, in any context) that leave the quote stack as they found it are ONE token '
    'with the text verbatim (quoted_verbatim, brace_verbatim, call_verbatim, call_chain_verbatim, dotted_call_verbatim, call_at_end, '
    'call_then); spans lie inside the string, are ordered and disjoint (spans_ordered); the span and kind determine the text exactly '
    '(token_text_exact, span_delimits_text); every token has a kind and a non-empty text (tokens_have_kinds). WHITESPACE: one unquoted '
    'whitespace character inserted where no quote is open and the pending token is empty or an operator changes no token text/kind '
    '(ws_insensitive, positions_irrelevant) and — new — does not change the PARSED FORMULA: no stage after the tokenizer (sanitisation, '
    '0/~/|/intercept rewrites, sign merging, shunting yard, evaluation, Formula ordering) reads a span, so Formula(s) and get_terms(s) are '
    'equal for the two strings, or both rejected with the same exception class (ws_insensitive_formula, formula_ignores_spans), and the '
    'same for any number of insertions and removals (respacing_keeps_formula). PYTHON FRAGMENTS — new, model Model/PyAlias.lean of '
    'UNQUOTED_BACKTICK_MATCHER.split / sanitize_variable_name(s) / sanitize_python_code: the scan is a partition of the fragment into '
    'alternating text/match parts (alias_scan_partition); every alias is an ASCII identifier that is not a keyword, not a word of the '
    'code, not in use for another name (alias_is_identifier); the suffix loop terminates (alias_loop_terminates, pigeonhole); no name '
    'has two aliases (alias_unique_per_name); the '
    'sanitised text is the fragment with each back-quoted name replaced by an alias the FINAL table maps back to it '
    '(alias_table_faithful); the restoration undoes the alias pass for EVERY fragment — quotes in names, look-alike identifiers and '
    'strings, unterminated quotes included (restore_roundtrip), so a fragment format_expr leaves alone is its own normal form '
    '(normal_form_of_formatted). TOKEN METHODS — new: kind -> eval-method table read from the live class (kind_to_factor, '
    'leaf_factor_agrees), get_source_context marks exactly the span, plain and colorized (source_context_marks_span), Token.split cuts '
    'the text and keeps kind and span (split_keeps_text_and_span). NOT a theorem: that CPython\'s ast.unparse(ast.parse(.)) maps two '
    'formattings of one expression to one text and leaves identifiers whole; it is the one external parameter (format_expr of the '
    'sanitised fragment), covered by the correspondence and by the oracle "same Python AST over the same back-quoted names" on generated '
    'reformattings (spacing, parentheses, quote style, keywords touching names).'
)
LEVEL_NOTE = (
    "Trusted: Lean kernel + the three standard axioms; the hand models of tokenize()/Token/utils.code validated on every run (tokens "
    "incl. spans and contexts, alias tables, sanitised and restored texts); Python's re classes \\w, \\s, str.isspace/isidentifier/"
    "NFKC enter as data; ast.parse/ast.unparse are CPython's. Findings C15-F1 (name ending in a backslash) and C15-F2 (column named 1) "
    "stay open; C15-F3 is repaired."
)
