"""C16 — Linear-constraint specifications compile to the affine map they express.

Correspondence stream `c16`: the real `LinearConstraints.from_spec(spec, names)` (and, for a share of
the cases, `ModelSpec.get_linear_constraints`) against `Model.ConstraintForms.fromSpecAny`, the model of
from_spec's whole dispatch and of the constructor, which for the formula forms runs
`Model.Constraints.fromSpec`. The model starts at the string: `Model/ConstraintParse.lean` tokenises and
parses it (base operator resolver, live constraint table); the harness also asks the REAL parser
(`LinearConstraintParser.get_ast`) for the tree of every string the code will parse and the two trees /
rejections are compared. For the other forms the Python object enters the model structurally (an instance
as the arguments of its constructor) and matrix, values, shapes, variable_names, n_constraints, or the
exception class and message, are compared.

Oracle (impl only, independent of model and of formulaic's parser): a small recursive-descent reader
of conventional algebra evaluates lhs - rhs with `fractions.Fraction`
  (1) pointwise at 0 and the unit vectors (the documented n+1-point test) and
  (2) symbolically as a polynomial in the column names;
an accepted specification must have one row per written constraint, in order, with
A.x - b == lhs(x) - rhs(x); a specification whose lhs - rhs is a polynomial of degree >= 2, or that
divides by the constant zero, or that divides by a column expression and has a non-zero second
difference (exact witness of non-affinity), must be rejected. Rejection of a linear specification is NOT a failure
(completeness is not part of the property: `(a-a)*b` is rejected by design).
For a (matrix, values) pair / bare matrix the map is x -> matrix.x - values: the instance must hold the rows
and values as given, in order (plain-Python reading of the description); ragged / wrong-length / wrong-width
input must be rejected, well-formed input accepted; an instance must come back as the same object, untouched;
every accepted result read back as the tuple (constraint_matrix, constraint_values) must give the same result.
"""
from __future__ import annotations

from fractions import Fraction

PROPERTY = "C16"
ENGINE = "c16"
REQUIRED_THEOREMS = [
    "compile_sound",
    "rows_in_order_written",
    "order_independent",
    "nonlinear_rejected",
    "npoint_test_complete",
    "operator_table_covered",
    "error_class_covered",
    "parser_refines_general",
    "parser_fails_only_with_syntax_error",
    "compile_sound_from_string",
    "parser_total",
    # exactly which specifications are accepted
    "accepted_iff",
    "tree_accepted_iff",
    "comma_compiles_iff",
    # compiling is a homomorphism; the row is determined by the map
    "compile_add_hom",
    "compile_sub_hom",
    "compile_eq_hom",
    "compile_sign_hom",
    "compile_scalar_mul_hom",
    "compile_scalar_div_hom",
    "compile_mul_div_sem",
    "linear_operations_total",
    "chained_equalities_one_row",
    "same_map_same_result",
    "column_order_equivariant",
    "entries_depend_only_on_the_name",
    # every kind of specification: from_spec's dispatch and the constructor
    "from_spec_formula_forms",
    "compile_sound_every_form",
    "accepted_iff_every_form",
    "names_required",
    "instance_returned_as_is",
    "list_form_is_joined_string",
    "bare_matrix_is_pair_with_zero",
    "pair_form_accepted_iff",
    "scalar_values_and_flat_rows",
    "built_instance_well_shaped",
    "matrix_form_denotes",
    "matrix_form_has_formula",
    "forms_agree",
    "n_constraints_matrix_forms",
    "dict_entry_is_string_shifted",
    "messages_match_source",
]
TRUSTED = [
    "modelled and compared per case: LinearConstraintParser.get_ast = tokenizer + shunting-yard with the base operator resolver over the "
    "live constraint operator table (Model/ConstraintParse.lean; character classes from the live regexes). The model parses every string "
    "itself; its tree / rejection is compared with the real parser's for every string of every case, and the matrix is compiled from the "
    "model's own tree. The theorems compile_sound … are proved for ANY parse function, hence also for this one (compile_sound_from_string). "
    "The oracle uses its own independent recursive-descent reader, so a mis-parse (precedence, associativity) surfaces against conventional algebra too.",
    "modelled and compared per case: LinearConstraints.from_spec's whole isinstance chain and LinearConstraints.__init__ "
    "(Model/ConstraintForms.lean): the Python object passed as the specification enters the model structurally (instance = the ARGUMENTS of "
    "its constructor, string, list, mapping, tuple, ndarray, number, None; variable_names a list or None); the model decides the branch, "
    "runs its own constructor (shape discovery of nested sequences, 1-D -> one row, scalar values broadcast, default names, the four "
    "validations, the final variable_names line) and predicts matrix, values, shape, variable_names, n_constraints or the exception class "
    "AND message; the messages the model carries are proved equal to the literal messages in the live source (Gen/ConstraintMessages.lean, "
    "theorem messages_match_source)",
    "modelled, not verified: ast.literal_eval on [0-9.]+ tokens (Model.Constraints.parseNumber), numpy array assembly "
    "(numpy.array on nested sequences of numbers/strings: rectangular -> that shape, ragged -> ValueError; vstack/hstack), "
    "graphlib scheduling inside ASTNode.to_terms (irrelevant for successful evaluations; on failure the model reports the set "
    "of error classes any schedule / set order could raise and the implementation's class must be one of them)",
    "numbers are exact rationals in the model; the generator keeps every intermediate a dyadic rational below 2^50 so the "
    "implementation's float arithmetic is exact and is compared exactly (cases marked exact, and all matrix-form cases); on the "
    "mutated/malformed stream, where non-dyadic literals can arise, values are compared with relative tolerance 1e-9; IEEE "
    "rounding/overflow is not modelled; a string inside an array-like makes numpy turn the whole array into strings: numeric cells of "
    "such an array are compared through their decimal text",
    "Python set iteration order is abstracted: theorem order_independent shows the result does not depend on it",
    "not modelled (outside the property): LinearConstraints.__str__ / show (pretty-printing with float formatting; the text is not "
    "re-parseable: negative coefficients print as `+ -1.0 * a`; __repr__ IS modelled and compared), dict values that are not numbers, numpy dtypes (bool, object), pandas Index as variable_names",
]
ASSUMPTIONS = [
    "quoted VALUE tokens contain no backslash escapes (then ast.literal_eval returns a str exactly when nothing follows the closing quote)",
    "dict specifications have distinct keys (a Python dict cannot have others) and numeric values",
    "array-like arguments are nests of Python numbers / strings / lists / tuples / ndarrays of those (no None, dict or object inside an array)",
]
RULE = (
    "random expression trees (depth <= 6: + - * / unary +/-, constants on both sides, repeated variables, dyadic literals) over "
    "1-6 column names incl. backtick-quoted names with odd characters, python-call names and (p=0.15 each, plus a fixed table of 48 "
    "specifications x 3 forms x 2 column orders) names that LOOK LIKE literals or operators (`1`, `0`, `1.0`, `-1`, `True`, `+`, …: a "
    "back-quoted `1` is a column, never the constant), rendered with random whitespace "
    "and redundant parentheses, 1-4 constraints, as str / list of str / dict; ~15% carry an injected fault (product of two "
    "non-constant factors, non-constant or zero divisor, unknown name, string literal, tuple under an operator); plus a "
    "malformed stream (templates + character mutations); a share goes through ModelSpec.get_linear_constraints on real "
    "model-matrix column names; plus a history stream: ONE specification compiled 3-6 times in the same process against "
    "permuted / extended / shrunk column lists and through the three forms, every step compared with the model (a pure "
    "function of (spec, names)) and with the oracle for its own column order; plus a stream over EVERY kind of specification: "
    "bare matrices (list / tuple / ndarray, flat rows, ragged, 3-D, scalars, with strings), (matrix, values) pairs (scalar, right / wrong "
    "length, 2-D, string values), LinearConstraints instances (built by the real constructor from generated arguments, some invalid) passed "
    "with other names, formula forms with names None / [] / wrong length, the empty list / mapping / tuple, lists mixing strings and numbers, "
    "None and numbers; every accepted result is also read back as the tuple (constraint_matrix, constraint_values) and as an instance. "
    "non-trivial = the specification contains a binary operator and a column name, or is a matrix / pair / instance form"
)

# ----------------------------------------------------------------------------- generator

PLAIN = ["a", "b", "c", "x1", "y_2", "Intercept", "w.z", "alpha"]
ODD = ["a:b", "x y", "a+b", "C(g)[T.u]", "np.log(x)", "1e3", "2x", "é", "a=b", "p,q", "3", "(", "f(", "T.[x]"]
CALLS = ["np.log(x)", "C(g)[T.u]", "f(a, b)", "g(x)[1]"]  # tokenised unquoted as one PYTHON token
# column names that LOOK LIKE literals or operators: back-quoted they are COLUMNS (coefficient in A), never constants
LITERALISH = ["1", "0", "2", "1.0", "-1", "1e3", "True", "None", "+", "-", "*", "/", "=", ",", "0.5", "1.", "00"]


def _with_literalish(rng, names, p=0.15):
    """each name is replaced, with probability p, by one that looks like a number / literal / operator"""
    out = list(names)
    for i in range(len(out)):
        if rng.random() < p:
            cand = [x for x in LITERALISH if x not in out]
            if cand:
                out[i] = rng.choice(cand)
    return out


# a small fixed table (every tier): back-quoted literal-looking columns next to the real constants
LITERALISH_TABLE = [
    (["1", "x"], "`1` + x = 3"),
    (["1", "x"], "`1` * x"),
    (["1", "x"], "x / `1`"),
    (["1", "x"], "x * `1`"),
    (["0", "1"], "2 * `0` = `1`"),
    (["1"], "`1`"),
    (["1"], "`1` = 1"),
    (["1"], "1 = `1`"),
    (["1"], "`1` * 2"),
    (["1"], "2 * `1`"),
    (["1"], "`1` / 2"),
    (["1"], "1 / `1`"),
    (["1"], "2 / `1`"),
    (["1"], "`1` * `1`"),
    (["1"], "`1` / `1`"),
    (["1"], "3 * `1` + `1`"),
    (["1"], "`1` - `1`"),
    (["1"], "`1` + 1"),
    (["1"], "1 + `1`"),
    (["1"], "1 - `1` = `1` - 1"),
    (["1"], "(`1` + 1) * 2"),
    (["1"], "2 * (1 + `1`)"),
    (["1"], "(1 + `1`) / 2"),
    (["1", "x"], "(`1` + 1) * x"),
    (["1", "x"], "(`1` + 1) * (x + 1)"),
    (["1", "x"], "x / (`1` + 1)"),
    (["1", "x"], "`1` + x, x - `1` = 1"),
    (["x", "1"], "`1` + 2 * x = 3"),
    (["0"], "`0`"),
    (["0"], "`0` * 5 = 1"),
    (["0", "x"], "x / `0`"),
    (["0", "x"], "x * `0`"),
    (["0", "x"], "x + `0`"),
    (["2", "x"], "2 * `2` + x = 2"),
    (["1.0", "x"], "`1.0` / 2 + x"),
    (["1.0", "x"], "x * `1.0`"),
    (["-1", "x"], "`-1` + 1 = x"),
    (["-1", "x"], "`-1` * x"),
    (["1e3", "x"], "`1e3` * 0.5 + x"),
    (["True", "None"], "`True` + `None` = 1"),
    (["True", "None"], "`True` * `None`"),
    (["True", "x"], "x / `True`"),
    (["+", "*"], "`+` + `*` = 2"),
    (["+", "*"], "`+` * `*`"),
    (["/", "-"], "`/` - `-`"),
    (["=", ","], "`=` = `,`, `,` = 1"),
    (["1", "0", "2"], "`1` + `0` + `2` = 1 + 0 + 2"),
    (["1", "0", "2"], "`1` * 0 + `0` * 1 + 2 * `2`"),
]


def _literalish_cases(rng):
    for names, text in LITERALISH_TABLE:
        for form in ("str", "list", "dict"):
            if form == "str":
                spec = text
            elif form == "list":
                spec = [t for t in text.split(", ")]
            else:
                spec = [[t, rng.choice(DICT_VALUES)] for t in dict.fromkeys(text.split(", "))]
            yield dict(names=list(names), form=form, spec=spec, via="from_spec", exact=True)
            # the same columns in another order, and with an unrelated column in front
            other = list(reversed(names)) if len(names) > 1 else ["y"] + list(names)
            yield dict(names=other, form=form, spec=spec, via="from_spec", exact=True)
LITS = ["0", "1", "2", "3", "4", "5", "7", "10", "0.5", "0.25", "1.5", "2.5", "0.75", "0.125", ".5", "2.", "00", "3.0", "0.0"]
LIMIT = 2 ** 50


def _lit(rng):
    t = rng.choice(LITS)
    return ("num", t)


def _render_name(rng, n):
    if n in CALLS:
        return n if rng.random() < 0.7 else "`" + n + "`"
    if n in PLAIN:
        return n if rng.random() < 0.8 else "`" + n + "`"
    return "`" + n + "`"


def _con(rng, d):
    """constant expression tree"""
    r = rng.random()
    if d <= 0 or r < 0.35:
        return _lit(rng)
    if r < 0.55:
        return (rng.choice(["add", "sub"]), _con(rng, d - 1), _con(rng, d - 1))
    if r < 0.7:
        return ("mul", _con(rng, d - 1), _con(rng, d - 1))
    if r < 0.85:
        return ("div", _con(rng, d - 1), _pow2(rng, d - 1))
    return (rng.choice(["neg", "neg", "pos"]), _con(rng, d - 1))


def _is_pow2(v):
    v = abs(v)
    if v == 0:
        return False
    n, m = v.numerator, v.denominator
    return (n & (n - 1)) == 0 and (m & (m - 1)) == 0


def _pow2(rng, d):
    """constant expression whose value is +-2^k (so that dividing by it is exact in floats)"""
    for _ in range(6):
        t = _con(rng, min(d, 2))
        try:
            v = _eval(t, {})
        except ZeroDivisionError:
            continue
        if _is_pow2(v):
            return t
    return ("num", rng.choice(["1", "2", "4", "8", "0.5", "0.25"]))


def _lin(rng, d, names):
    r = rng.random()
    if d <= 0 or r < 0.22:
        return ("var", rng.choice(names)) if rng.random() < 0.75 else _lit(rng)
    if r < 0.52:
        return (rng.choice(["add", "sub"]), _lin(rng, d - 1, names), _lin(rng, d - 1, names))
    if r < 0.64:
        return ("mul", _con(rng, min(d - 1, 2)), _lin(rng, d - 1, names))
    if r < 0.76:
        return ("mul", _lin(rng, d - 1, names), _con(rng, min(d - 1, 2)))
    if r < 0.88:
        return ("div", _lin(rng, d - 1, names), _pow2(rng, d - 1))
    return (rng.choice(["neg", "neg", "pos"]), _lin(rng, d - 1, names))


def _fault(rng, t, names):
    """replace one random subtree by something the property says must be rejected / is not well formed"""
    kind = rng.choice(["mulvv", "divv", "div0", "unknown", "string", "divv0", "badnum"])
    if kind == "mulvv":
        new = ("mul", _lin(rng, 1, names), ("add", ("var", rng.choice(names)), _lit(rng)))
    elif kind == "divv":
        new = ("div", _lin(rng, 1, names), ("var", rng.choice(names)))
    elif kind == "div0":
        new = ("div", _lin(rng, 1, names), rng.choice([("num", "0"), ("num", "0.0"), ("sub", ("num", "2"), ("num", "2"))]))
    elif kind == "divv0":
        new = ("div", _lin(rng, 1, names), ("add", ("var", rng.choice(names)), ("num", "0")))
    elif kind == "unknown":
        new = ("var", rng.choice(["zz", "nope", "a b c"]))
    elif kind == "badnum":
        new = ("num", rng.choice(["1.2.3", ".", "007", "1..2"]))
    else:
        new = ("str", rng.choice(["'x'", '"abc"']))

    def walk(t):
        if t[0] in ("var", "num", "str") or rng.random() < 0.3:
            return new
        if len(t) == 2:
            return (t[0], walk(t[1]))
        if rng.random() < 0.5:
            return (t[0], walk(t[1]), t[2])
        return (t[0], t[1], walk(t[2]))

    return walk(t)


PREC = {"add": 1, "sub": 1, "mul": 2, "div": 2, "neg": 1, "pos": 1}
SYM = {"add": "+", "sub": "-", "mul": "*", "div": "/", "neg": "-", "pos": "+"}


def _ws(rng):
    return rng.choice(["", "", " ", " ", "  ", "\t"])


def _render(rng, t, first=True):
    """conventional-algebra rendering; `first` = nothing but '(' precedes (a prefix sign is legal there:
    adjacent operator characters would otherwise fuse into one unknown operator token)"""
    k = t[0]
    if k == "var":
        s = _render_name(rng, t[1])
    elif k in ("num", "str"):
        s = t[1]
    elif k in ("neg", "pos"):
        a = t[1]
        inner = _render(rng, a, first=False)
        if a[0] in ("add", "sub", "neg", "pos"):
            inner = "(" + _render(rng, a, first=True) + ")"
        s = SYM[k] + _ws(rng) + inner
        if not first:
            return "(" + _ws(rng) + s + _ws(rng) + ")"
    else:
        l, r = t[1], t[2]
        ls = _render(rng, l, first=first)
        if l[0] in PREC and len(l) == 3 and PREC[l[0]] < PREC[k]:
            ls = "(" + _render(rng, l, first=True) + ")"
        elif l[0] in ("neg", "pos") and PREC[k] == 2 and first:
            # `-a*b` would re-associate as -(a*b): same value, different tree; keep the tree
            ls = "(" + _render(rng, l, first=True) + ")"
        rs = _render(rng, r, first=False)
        if len(r) == 3 and r[0] in PREC and (PREC[r[0]] < PREC[k] or (PREC[r[0]] == PREC[k] and k in ("sub", "div", "mul", "add"))):
            rs = "(" + _render(rng, r, first=True) + ")"
        s = ls + _ws(rng) + SYM[k] + _ws(rng) + rs
    if rng.random() < 0.12:
        s = "(" + _ws(rng) + s + _ws(rng) + ")"
    return s


def _bounded(t):
    """every intermediate coefficient is a dyadic rational p/2^D with |p| < LIMIT (floats stay exact)"""
    ok = True

    def go(t):
        nonlocal ok
        k = t[0]
        if k == "var":
            return Fraction(1), 0
        if k == "num":
            try:
                v = Fraction(t[1]) if t[1] not in (".",) else None
            except Exception:
                v = None
            if v is None:
                return Fraction(1), 0
            dd = v.denominator.bit_length() - 1
            if v.denominator & (v.denominator - 1):
                ok = False
            return abs(v), dd
        if k == "str":
            return Fraction(1), 0
        if k in ("neg", "pos"):
            return go(t[1])
        (n1, d1), (n2, d2) = go(t[1]), go(t[2])
        if k in ("add", "sub"):
            n, d = n1 + n2, max(d1, d2)
        elif k == "mul":
            n, d = n1 * n2, d1 + d2
        else:
            try:
                v = _eval(t[2], {})
            except Exception:
                v = None
            if v is None or v == 0:
                n, d = n1, d1
            elif not _is_pow2(v):
                ok = False
                n, d = n1, d1
            else:
                v = abs(v)
                n, d = n1 / v, d1 + (v.numerator.bit_length() - 1)
        if n * (1 << d) >= LIMIT or d > 45:
            ok = False
        return n, d

    go(t)
    return ok


def _constraint(rng, names, depth, first=True):
    """one constraint as text; `first` = it starts the string the code will tokenise"""
    for _ in range(20):
        lhs = _lin(rng, depth, names)
        rhs = None
        if rng.random() < 0.6:
            rhs = _lin(rng, rng.randint(0, max(0, depth - 2)), names) if rng.random() < 0.5 else _con(rng, 2)
        fault = rng.random() < 0.06
        if fault:
            if rhs is not None and rng.random() < 0.4:
                rhs = _fault(rng, rhs, names)
            else:
                lhs = _fault(rng, lhs, names)
        exact = _bounded(lhs) and (rhs is None or _bounded(rhs))
        if not exact and not fault:
            continue
        s = _render(rng, lhs, first=first)
        if rhs is not None:
            s = s + _ws(rng) + "=" + _ws(rng) + _render(rng, rhs, first=False)
        return _ws(rng) + s + _ws(rng), exact
    return "a", True


MALFORMED = [
    "", "   ", "a,", ",a", "a,,b", "a b", "()", "(", "a)", "(a", "a+", "*a", "a*", "a = ", "= a", "a == b", "a ~ b",
    "a:b", "a**2", "a^2", "a --b", "a - -b", "a*-b", "a+-b", "1.2.3", ".", "..", "...", "....", "'x'1", "007", "00", "1.", ".5", "1e3", "2x",
    "'x'", "a + 'x'", '"s" = a', "{a}", "{a+b}", "f(a)", "`a", "a`", "``", "[a]", "a[", "(a,b)+c", "(a,b)=c", "2*(a,b)",
    "-(a,b)", "+(a,b)", "(a,b)+(c,d)", "(a,b)*(c,d)", "(a,b)=(c,d)", "-(a,b),c", "(-(a,b))+(-(c,d))", "-(-(a,b))",
    "(-(a,b))+c", "(-(a,b))+(c,d)", "(a,b),c", "a,(b,c)", "((a,b))", "((a,b),(c,d))", "a = b = c", "(a = b) + 1",
    "(a = b) = (c = d)", "a*b", "a/b", "a/0", "a/0.0", "1/0", "0/0", "a/(b+0)", "a/(0+b)", "a/(b-b)", "(a-a)*b", "a*(b-b)",
    "a*b + 1/0", "1/0 + a*b", "(a*b, 1/0)", "a/(b*c)", "(a+1)*(b+1)", "a*a", "a/a", "3", "3 = 2", "zz", "a + zz", "zz, a*b",
    "a/2/2", "a/(1+1)", "2*3*a", "a*2*3", "(2+3)*(a+b)", "(a+b)*(2+3)", "1/4*a", "a - a", "a = a", "a+a+a", "-a", "+a",
    "-(-a)", "-(a+b)", "(-a)*2", "2*(-a)", "a*0", "0*a", "a/1", "\n a \n+\tb ", "a;b", "a | b", "a & b", "a % b", "a @ b",
    "`1` + a", "`1` * a", "a / `1`", "2 * `0` = `1`", "`1` * `2`", "`1` = 1", "a * `0`", "`+` + a", "`1`*2 + `2`*1", "`0`/2", "2/`2`",
    "`a`+a", "`np.log(x)` + np.log(x)", "C(g)[T.u] = 1", "`a:b` - `x y`", "Intercept = 0",
]
ALPHABET = list("ab()+-*/=, 01.`'") + ["zz", "x1"]


DICT_VALUES = ["0", "1", "-2", "3", "0.5", "-1.25", "10", "0.0"]


def _as_form(rng, form, cons, values=None):
    """the same written constraints as a str / list of str / mapping"""
    if form == "str":
        return ",".join(cons)
    if form == "list":
        return list(cons)
    keys = []
    for c in cons:
        if c not in keys:
            keys.append(c)
    values = values or {}
    return [[key, values.get(key) or rng.choice(DICT_VALUES)] for key in keys]


def _history(rng):
    """ONE specification compiled several times in the same process: against permuted, extended and shrunk
    column lists and through the three forms. `from_spec` must be a pure function of (spec, names): every step
    is compared with the model and with the oracle for ITS OWN column order."""
    pool = list(dict.fromkeys(PLAIN + ODD + CALLS))  # distinct names: a permutation must be observable
    k = rng.randint(2, 6)
    names = _with_literalish(rng, rng.sample(pool, k))
    pool = list(dict.fromkeys(pool + LITERALISH))
    depth = rng.choice([1, 2, 2, 3, 3, 4])
    ncons = rng.choice([1, 1, 2, 2, 3])
    cons_x = [_constraint(rng, names, depth, first=(q == 0)) for q in range(ncons)]
    cons = [t for t, _ in cons_x]
    exact = all(x for _, x in cons_x)
    form = rng.choice(["str", "str", "list", "dict"])
    values = {c: rng.choice(DICT_VALUES) for c in cons}
    steps = [dict(names=list(names), form=form, spec=_as_form(rng, form, cons, values), via="from_spec", exact=exact)]
    cur = list(names)
    for _ in range(rng.choice([2, 3, 3, 4, 5])):
        r = rng.random()
        nm = list(cur)
        if r < 0.45 and len(nm) > 1:
            for _try in range(20):
                rng.shuffle(nm)
                if nm != cur:
                    break
        elif r < 0.6:
            extra = rng.choice([x for x in pool if x not in nm])
            nm.insert(rng.randrange(len(nm) + 1), extra)
            if rng.random() < 0.5:
                rng.shuffle(nm)
        elif r < 0.72 and len(nm) > 1:
            nm.pop(rng.randrange(len(nm)))  # may remove a used column: KeyError expected then
        elif r < 0.8:
            nm = list(names)  # back to the first layout
        if rng.random() < 0.35:
            form = rng.choice(["str", "list", "dict"])
        cur = nm
        steps.append(dict(names=list(nm), form=form, spec=_as_form(rng, form, cons, values), via="from_spec", exact=exact))
    return dict(history=steps)

# ----------------------------------------------------------------------------- every kind of specification

NUMS = ["0", "1", "-1", "2", "3", "-2", "0.5", "-2.5", "10", "-0.25", "4", "1.5"]


def _seq(rng, items, top=False):
    return dict(seq=items, **{"as": rng.choice(["list", "list", "tuple", "nd"])})


def _row(rng, n, text=0.0):
    return _seq(rng, [dict(s=rng.choice(["a", "b", "x0", "1"])) if rng.random() < text else rng.choice(NUMS) for _ in range(n)])


def _matrix(rng, k, n, text=0.0):
    return _seq(rng, [_row(rng, n, text) for _ in range(k)])


def _nrows(m):
    """rows numpy will see: a sequence of sequences has one per element, a flat (or empty) sequence is ONE row"""
    if isinstance(m, dict) and m.get("seq") and all(isinstance(x, dict) and "seq" in x for x in m["seq"]):
        return len(m["seq"])
    return 1


def _pycase(rng):
    """a specification of any kind (LinearConstraints.from_spec's whole isinstance chain and the constructor's
    validations): mostly well formed, with the wrong shapes / lengths / kinds mixed in"""
    k = rng.choice([0, 1, 1, 2, 2, 3, 4])
    n = rng.choice([0, 1, 2, 2, 3, 3, 4])
    via = "from_spec"
    r = rng.random()
    # variable names: none / right length / wrong length / empty
    q = rng.random()
    if q < 0.35:
        names = None
    elif q < 0.8:
        names = rng.sample(PLAIN + ODD, n) if n <= len(PLAIN + ODD) else None
    elif q < 0.9:
        names = rng.sample(PLAIN + ODD, rng.choice([x for x in range(0, 6) if x != n]))
    else:
        names = []
    if r < 0.3:
        # bare matrix: a list / tuple / ndarray of rows, or one flat row
        if rng.random() < 0.25:
            m = _row(rng, n)
            rows = None
        else:
            m = _matrix(rng, k, n, text=0.03 if rng.random() < 0.2 else 0.0)
            rows = m["seq"]
        x = rng.random()
        if x < 0.1 and rows:
            rng.choice(rows)["seq"].append(rng.choice(NUMS))  # ragged
        elif x < 0.15 and rows:
            rows[rng.randrange(len(rows))] = rng.choice(NUMS)  # a number among the rows
        elif x < 0.2:
            m = _seq(rng, [m, _matrix(rng, k, n) if rows is not None else _row(rng, n)])  # one dimension too many
        kind = m["as"]
        py = dict(t="nd", v=m) if kind == "nd" else dict(t=kind, v=m["seq"])
    elif r < 0.62:
        # (matrix, values)
        m = _row(rng, n) if rng.random() < 0.2 else _matrix(rng, k, n)
        kk = _nrows(m)
        x = rng.random()
        if x < 0.25:
            v = rng.choice(NUMS)
        elif x < 0.8:
            v = _row(rng, kk)
        elif x < 0.9:
            v = _row(rng, rng.choice([y for y in range(0, 5) if y != kk]))
        elif x < 0.95:
            v = _matrix(rng, 1, kk)
        elif x < 0.98:
            v = dict(s="c")
        else:
            v = _row(rng, kk, text=0.5)
        if rng.random() < 0.06 and m["seq"] and isinstance(m["seq"][0], dict) and "seq" in m["seq"][0]:
            rng.choice(m["seq"])["seq"].append(rng.choice(NUMS))
        if rng.random() < 0.03:
            m = rng.choice(NUMS)  # a scalar for the matrix
        py = dict(t="tuple", v=[m, v])
    elif r < 0.72:
        # an instance goes through untouched, whatever names come with it
        kk, nn = max(k, 1), max(n, 1)
        inames = rng.sample(PLAIN + ODD, nn) if rng.random() < 0.7 else None
        bvals = _row(rng, kk) if rng.random() < 0.8 else rng.choice(NUMS)
        py = dict(t="inst", A=_matrix(rng, kk, nn), b=bvals, names=inames)
        x = rng.random()
        if x < 0.08:
            py["b"] = _row(rng, kk + 1)  # the constructor itself must refuse
        elif x < 0.16 and inames:
            py["names"] = inames + ["extra"]
        elif x < 0.2:
            py["A"] = _seq(rng, [py["A"], py["A"]])
    elif r < 0.9:
        # the formula forms with missing / empty names, the empty list, a list that is not all strings
        x = rng.random()
        cols = names if names else ["a", "b"]
        cons_x = [_constraint(rng, cols, rng.choice([1, 2])) for _ in range(rng.choice([1, 2]))]
        cons = [t for t, _ in cons_x]
        formula_exact = all(x for _, x in cons_x)
        if x < 0.3:
            py = dict(t="str", v=",".join(cons))
        elif x < 0.5:
            py = dict(t="list", v=[dict(s=t) for t in cons])
        elif x < 0.6:
            py = dict(t="list", v=[])
        elif x < 0.75:
            items = [dict(s=t) for t in cons] + [rng.choice(NUMS)]
            rng.shuffle(items)
            py = dict(t="list", v=items)
        elif x < 0.92:
            py = dict(t="dict", v=[[t, rng.choice(DICT_VALUES)] for t in dict.fromkeys(cons)])
        else:
            py = dict(t="dict", v=[])
    else:
        py = rng.choice([dict(t="none"), dict(t="num", v=rng.choice(NUMS)), dict(t="tuple", v=[]), dict(t="nd", v=rng.choice(NUMS)),
                         dict(t="tuple", v=[rng.choice(NUMS)] * 3), dict(t="tuple", v=[_row(rng, n)] * 3), dict(t="nd", v=dict(seq=[], **{"as": "list"}))])
    if rng.random() < 0.1:
        via, names = "modelspec", list(MODELSPEC_NAMES)
        if py["t"] in ("tuple", "list", "nd") and rng.random() < 0.8:
            kk = max(k, 1)
            py = dict(t="tuple", v=[_matrix(rng, kk, len(MODELSPEC_NAMES)), _row(rng, kk)]) if rng.random() < 0.6 else dict(t="list", v=_matrix(rng, kk, len(MODELSPEC_NAMES))["seq"])
    out = dict(names=names, form="py", py=py, via=via)
    if _py_formula(py) is not None:
        out["exact"] = bool(locals().get("formula_exact", True))
    return out


def cases(rng, tier):
    n = {"quick": 700, "thorough": 12000, "search": 300}[tier]
    nmal = {"quick": 260, "thorough": 2500, "search": 60}[tier]
    nhist = {"quick": 150, "thorough": 2000, "search": 120}[tier]
    npy = {"quick": 500, "thorough": 6000, "search": 200}[tier]
    yield from _literalish_cases(rng)
    for i in range(npy):
        yield _pycase(rng)
    for i in range(nhist):
        yield _history(rng)
    for i in range(n):
        k = rng.randint(1, 6)
        pool = PLAIN + ODD + CALLS
        names = _with_literalish(rng, rng.sample(pool, k))
        via = "from_spec"
        if rng.random() < 0.12:
            via, names = "modelspec", list(MODELSPEC_NAMES)
        elif rng.random() < 0.03:
            names = names + [rng.choice(names)]  # duplicated column name: dict(zip(..)) keeps the last
        depth = rng.choice([1, 2, 2, 3, 3, 4, 5, 6])
        ncons = rng.choice([1, 1, 2, 2, 3, 4])
        form = rng.choice(["str", "list", "dict"])
        cons_x = [_constraint(rng, names, depth, first=(form == "dict" or q == 0)) for q in range(ncons)]
        cons = [t for t, _ in cons_x]
        exact = all(x for _, x in cons_x)
        if form == "str":
            spec = ",".join(cons)
        elif form == "list":
            # pieces may themselves hold several constraints
            pieces, cur = [], []
            for c in cons:
                cur.append(c)
                if rng.random() < 0.7:
                    pieces.append(",".join(cur))
                    cur = []
            if cur:
                pieces.append(",".join(cur))
            spec = pieces
        else:
            keys = []
            for c in cons:
                if c not in keys:
                    keys.append(c)
            spec = [[key, rng.choice(["0", "1", "-2", "3", "0.5", "-1.25", "10", "0.0"])] for key in keys]
        yield dict(names=names, form=form, spec=spec, via=via, exact=exact)
    for i in range(nmal):
        names = rng.choice([["a", "b", "c", "d"], ["a", "b"], ["a"], ["a", "b", "c", "d", "np.log(x)", "C(g)[T.u]", "a:b", "x y", "Intercept"],
                            ["a", "1", "b", "0"], ["1", "2", "a", "b", "+"]])
        s = rng.choice(MALFORMED)
        if rng.random() < 0.35:
            s = _constraint(rng, names, rng.choice([1, 2, 3]))[0]
        for _ in range(rng.choice([0, 0, 1, 1, 2])):
            p = rng.randrange(len(s) + 1)
            r = rng.random()
            if r < 0.4 and s:
                s = s[:p] + s[p + 1:]
            elif r < 0.8:
                s = s[:p] + rng.choice(ALPHABET) + s[p:]
            elif s:
                q = rng.randrange(len(s) + 1)
                p, q = min(p, q), max(p, q)
                s = s[:p] + s[q:]
        form = rng.choice(["str", "str", "list", "dict"])
        if form == "str":
            spec = s
        elif form == "list":
            spec = [s] + ([rng.choice(MALFORMED)] if rng.random() < 0.5 else [])
            if rng.random() < 0.1:
                spec = []
        else:
            spec = [[s, rng.choice(["0", "2", "-0.5"])]]
            if rng.random() < 0.4:
                t = rng.choice(MALFORMED)
                if t != s:
                    spec.append([t, "1"])
            if rng.random() < 0.05:
                spec = []
        yield dict(names=names, form=form, spec=spec, via="from_spec", malformed=True)


def describe(c):
    if "history" in c:
        return f"history,steps={len(c['history'])},{c['history'][0]['form']}"
    if c["form"] == "py":
        return f"py,{c['py']['t']},names={'none' if c['names'] is None else 'empty' if not c['names'] else 'given'},{c.get('via', 'from_spec')}"
    txt = _text(c)
    ops = sum(txt.count(o) for o in "+-*/")
    size = "ops0" if ops == 0 else "ops1-3" if ops <= 3 else "ops4-10" if ops <= 10 else "ops11+"
    return ("malformed," if c.get("malformed") else "") + f"{c['form']},{size},{c.get('via', 'from_spec')}"


def _text(c):
    if c["form"] == "py":
        return ",".join(_strings(c))
    if c["form"] == "str":
        return c["spec"]
    if c["form"] == "list":
        return ",".join(c["spec"])
    return ",".join(k for k, _ in c["spec"])


def nontrivial(c):
    if "history" in c:
        return any(nontrivial(s) for s in c["history"])
    if c["form"] == "py" and _py_formula(c["py"]) is None:
        return c["py"]["t"] in ("list", "tuple", "nd", "inst")
    t = _text(c)
    return any(o in t for o in "+-*/=") and any(ch.isalpha() for ch in t)


# ----------------------------------------------------------------------------- implementation side

MODELSPEC_NAMES = ["Intercept", "a", "C(g)[T.u]", "C(g)[T.v]", "np.log(x)", "a:np.log(x)"]
_MS = None


def _model_spec():
    global _MS
    if _MS is None:
        import numpy as np  # noqa: F401  (used by the formula)
        import pandas
        from formulaic import model_matrix

        df = pandas.DataFrame({"a": [1.0, 2.0, 3.0, 4.0], "x": [1.0, 2.0, 4.0, 8.0], "g": ["t", "u", "v", "u"]})
        mm = model_matrix("a + C(g) + np.log(x) + a:np.log(x)", df)
        _MS = mm.model_spec
        assert list(_MS.column_names) == MODELSPEC_NAMES, list(_MS.column_names)
    return _MS


def _num(text):
    return float(text) if "." in text else int(text)


def _frac(v):
    f = Fraction(v)
    return f"{f.numerator}/{f.denominator}"


def _ser(node):
    from formulaic.parser.types import ASTNode

    if isinstance(node, ASTNode):
        return dict(op=node.operator.symbol, args=[_ser(a) for a in node.args])
    return dict(k=node.kind.value, t=node.token)


def _parse(names, s):
    from formulaic.utils.constraints import LinearConstraintParser

    try:
        ast = LinearConstraintParser(variable_names=names).get_ast(s)
    except Exception as e:
        return dict(error=type(e).__name__)
    if ast is None:
        return dict(empty=True)
    return dict(ast=_ser(ast))


def _strings(c):
    if c["form"] == "py":
        f = _py_formula(c["py"])
        if f is None:
            return []
        form, spec = f
        return _strings(dict(form=form, spec=spec))
    if c["form"] == "str":
        return [c["spec"]]
    if c["form"] == "list":
        return [",".join(c["spec"])]
    return [k for k, _ in c["spec"]]


def impl(c):
    if "history" in c:
        # the steps run one after the other in this process: any state the library keeps between calls is live
        return dict(steps=[_impl_one(s) for s in c["history"]])
    return _impl_one(c)


def _py_formula(d):
    """(form, spec) in the old case vocabulary when the Python object is one of the three formula forms"""
    t = d["t"]
    if t == "str":
        return "str", d["v"]
    if t == "dict":
        return "dict", d["v"]
    if t == "list" and all(isinstance(x, dict) and "s" in x for x in d["v"]):
        return "list", [x["s"] for x in d["v"]]
    return None


def _build_arr(a):
    """array-like from its description: "0.5" (number) | {"s": text} | {"seq": [...], "as": list|tuple|nd}"""
    if isinstance(a, str):
        return _num(a)
    if "s" in a:
        return a["s"]
    seq = [_build_arr(x) for x in a["seq"]]
    kind = a.get("as", "list")
    if kind == "tuple":
        return tuple(seq)
    if kind == "nd":
        import numpy

        try:
            arr = numpy.array(seq)
            if arr.dtype.kind in "iufUS":
                return arr
        except Exception:
            pass
    return seq


def _build_py(d):
    from formulaic.utils.constraints import LinearConstraints

    t = d["t"]
    if t == "none":
        return None
    if t == "num":
        return _num(d["v"])
    if t == "str":
        return d["v"]
    if t == "dict":
        return {k: _num(v) for k, v in d["v"]}
    if t == "list":
        return [_build_arr(x) for x in d["v"]]
    if t == "tuple":
        return tuple(_build_arr(x) for x in d["v"])
    if t == "nd":
        import numpy

        inner = _build_arr(d["v"])
        try:
            return numpy.array(inner)
        except ValueError:
            return inner  # a ragged nest is not an array: numpy raises the same error inside the library
    if t == "inst":
        return LinearConstraints(_build_arr(d["A"]), _build_arr(d["b"]), d["names"])
    raise ValueError(t)


def _cell(x):
    if isinstance(x, list):  # an array with too many dimensions (never valid): keep the nest
        return [_cell(y) for y in x]
    return dict(s=x) if isinstance(x, str) else _frac(x)


def _observe(lc):
    A = lc.constraint_matrix
    b = lc.constraint_values
    return dict(
        A=[[_cell(v) for v in row] for row in A.tolist()] if A.ndim >= 2 else [_cell(v) for v in A.tolist()],
        b=[_cell(v) for v in b.tolist()] if b.ndim >= 1 else _cell(b.tolist()),
        shape=list(A.shape),
        bshape=list(b.shape),
        names=[str(x) for x in lc.variable_names],
        n=int(lc.n_constraints),
        repr=repr(lc),
    )


ETAGS = [
    ("`variable_names` must be provided", "namesRequired"),
    ("`constraint_matrix` must be a 2D array", "matrixNot2D"),
    ("`constraint_values` must be a 1D array", "valuesNot1D"),
    ("Number of rows in constraint matrix", "rowsMismatch"),
    ("Number of column names does not match", "namesMismatch"),
    ("inhomogeneous", "inhomogeneous"),
    ("need at least one array to concatenate", "emptyDict"),
    ("tuple index out of range", "indexError"),
    ("did not contain a loop", "ufuncType"),
]


def _etag(e):
    msg = str(e)
    for needle, tag in ETAGS:
        if needle in msg:
            return tag
    return ""


def _impl_one(c):
    from formulaic.utils.constraints import LinearConstraints

    names = None if c["names"] is None else list(c["names"])
    given = None
    parses = []
    for s in dict.fromkeys(_strings(c)):
        parses.append([s, _parse(names or [], s)])
    try:
        if c["form"] == "py":
            spec = _build_py(c["py"])  # for an instance: the real constructor runs here
            if c["py"]["t"] == "inst":
                given = (spec, _observe(spec))
        elif c["form"] == "dict":
            spec = {k: _num(v) for k, v in c["spec"]}
        else:
            spec = c["spec"] if c["form"] == "str" else list(c["spec"])
        if c.get("via") == "modelspec":
            lc = _model_spec().get_linear_constraints(spec)
        else:
            lc = LinearConstraints.from_spec(spec, variable_names=names)
        out = _observe(lc)
        if given is not None:
            # an instance must come back as it is: the same object, attributes untouched
            out["same"] = lc is given[0]
            out["given"] = given[1]
        else:
            # the result read back as a (matrix, values) tuple and as an instance: the forms must agree
            try:
                # (with no column the constructor stores x0 … x(rows-1) as names, which it would itself reject: the
                # matrix and the values are read back without names then; variable_names are not part of C16)
                back = lc.variable_names if lc.constraint_matrix.shape[1] else None
                out["rt"] = _observe(LinearConstraints.from_spec((lc.constraint_matrix, lc.constraint_values), back))
            except Exception as e:
                out["rt"] = dict(error=type(e).__name__)
            out["rt_same"] = LinearConstraints.from_spec(lc, ["zz"]) is lc
    except Exception as e:
        out = dict(error=type(e).__name__, etag=_etag(e), msg=str(e))
        if given is not None:
            out["given"] = given[1]
    out["parses"] = parses
    return out


def request(c, o):
    if "history" in c:
        outs = o.get("steps") or [{}] * len(c["history"])
        return dict(steps=[_request_one(s, so) for s, so in zip(c["history"], outs)])
    return _request_one(c, o)


def _arr_json(a):
    if isinstance(a, str):
        return dict(n=_frac(Fraction(a)))
    if "s" in a:
        return dict(s=a["s"])
    return [_arr_json(x) for x in a["seq"]]


def _py_json(c, o):
    """the Python object passed as `spec`, as the engine's PyVal"""
    if c["form"] == "str":
        return dict(t="str", v=c["spec"])
    if c["form"] == "list":
        return dict(t="list", v=[dict(s=x) for x in c["spec"]])
    if c["form"] == "dict":
        return dict(t="dict", v=[[k, _frac(Fraction(v))] for k, v in c["spec"]])
    d = c["py"]
    t = d["t"]
    if t in ("none",):
        return dict(t="none")
    if t == "num":
        return dict(t="num", v=_frac(Fraction(d["v"])))
    if t == "str":
        return dict(t="str", v=d["v"])
    if t == "dict":
        return dict(t="dict", v=[[k, _frac(Fraction(v))] for k, v in d["v"]])
    if t in ("list", "tuple"):
        return dict(t=t, v=[_arr_json(x) for x in d["v"]])
    if t == "nd":
        return dict(t="nd", v=_arr_json(d["v"]))
    # an instance enters the model as the ARGUMENTS of its constructor: the model's own constructor builds it
    return dict(t="inst", A=_arr_json(d["A"]), b=_arr_json(d["b"]), inames=d["names"])


def _request_one(c, o):
    from harness.parser_common import char_flags

    # every string the code parses goes to the model as characters + the live regex classes: the model's
    # own tokenizer + shunting-yard (Model/ConstraintParse.lean, live constraint operator table) parse it
    parses = []
    for k, v in o.get("parses", []):
        w, sp = char_flags(k)
        parses.append([k, v, dict(s=k, w=w, sp=sp)])
    names = c["names"]
    if c.get("via") == "modelspec":
        names = list(MODELSPEC_NAMES)
    return dict(names=names, py=_py_json(c, o), parses=parses)


def agree(c, o, m):
    if "driver_error" in m:
        return "driver: " + m["driver_error"][:300]
    if "harness_exception" in o:
        return "harness: " + o["harness_exception"]
    if "history" in c:
        ms = m.get("steps")
        if not isinstance(ms, list) or len(ms) != len(c["history"]):
            return "model did not answer every step of the history"
        for i, (s, so, sm) in enumerate(zip(c["history"], o["steps"], ms)):
            w = _agree_one(s, so, sm)
            if w:
                return f"step {i} (columns {s['names']}): {w}"
        return None
    return _agree_one(c, o, m)


def _cell_eq(x, y, exact):
    """implementation cell vs model cell: numbers as "p/q"; a string cell as {"s": text}. In a string array numpy
    holds the decimal text of a number: it must denote the model's rational."""
    if x == y:
        return True
    try:
        fx = Fraction(x["s"]) if isinstance(x, dict) else Fraction(x)
        fy = Fraction(y["s"]) if isinstance(y, dict) else Fraction(y)
    except (ValueError, ZeroDivisionError):
        return False
    if isinstance(x, dict) and isinstance(y, dict):
        return False  # two different texts
    return fx == fy or (not exact and _close(fx, fy))


def _agree_one(c, o, m):
    if m.get("error") != "unmodelled":
        pm = dict((k, v) for k, v in m.get("pm", []))
        for k, v in o.get("parses", []):
            if pm.get(k) != v:
                return f"LinearConstraintParser.get_ast({k!r}): impl {v} vs model parser {pm.get(k)}"
    if m.get("error") == "unmodelled":
        return "the specification / AST is outside what the model reads"
    if "error" in o:
        if "error" not in m:
            return f"impl raised {o['error']}, model returned a matrix"
        pairs = [(m["error"], m.get("msg"))] + [(a[0], a[1]) for a in m.get("alt", [])]
        allowed = {cl for cl, _ in pairs}
        if o["error"] not in allowed:
            return f"impl raised {o['error']}, model allows {sorted(allowed)}"
        if m.get("etag") and o["error"] == m["error"] and o.get("etag") != m["etag"]:
            return f"impl raised {o['error']} with the message of {o.get('etag')!r}, model: {m['etag']!r}"
        # the message: where the source raises with a literal text the model carries that text (checked against the
        # live source by theorem messages_match_source); it must be the text of one of the errors the model allows
        texts = [t for cl, t in pairs if cl == o["error"]]
        if texts and all(t is not None for t in texts):
            got = o.get("msg", "")
            if not any(got == t or got.startswith(t + "\n") for t in texts):
                return f"impl raised {o['error']}({got[:80]!r}), the model's message(s): {texts}"
        return None
    if "error" in m:
        return f"impl returned a matrix, model raises {m['error']} {m.get('etag', '')}"
    exact = bool(c.get("exact", c["form"] == "py"))  # matrix forms carry small dyadic numbers only
    same_shape = (
        [len(r) for r in o["A"]] == [len(r) for r in m["A"]] and len(o["b"]) == len(m["b"])
    )
    if not same_shape or not all(
        _cell_eq(x, y, exact) for x, y in zip([v for row in o["A"] for v in row] + o["b"], [v for row in m["A"] for v in row] + m["b"])
    ):
        return f"A/b differ: impl {o['A']} {o['b']} vs model {m['A']} {m['b']}"
    if o["shape"] != [len(m["A"]), m["ncols"]] or o["bshape"] != [len(m["b"])]:
        return f"shapes differ: impl matrix {o['shape']} values {o['bshape']} vs model {[len(m['A']), m['ncols']]} {[len(m['b'])]}"
    if o["names"] != m["names"]:
        return f"variable_names differ: impl {o['names']} vs model {m['names']}"
    if o["n"] != m["n"]:
        return f"n_constraints differ: impl {o['n']} vs model {m['n']}"
    if o["repr"] != m["repr"]:
        return f"repr differs: impl {o['repr']!r} vs model {m['repr']!r}"
    if "same" in o and not o["same"]:
        return "a LinearConstraints instance was not returned as it is (the model returns the instance itself)"
    return None


TOL = Fraction(1, 10 ** 9)


def _close(got, want):
    return abs(got - want) <= TOL * max(1, abs(want))


def _same(c, got, want):
    """exact on the certified stream; relative tolerance 1e-9 where float rounding is possible"""
    return got == want or (not c.get("exact") and _close(got, want))


# ----------------------------------------------------------------------------- oracle: independent reader


class _Abstain(Exception):
    pass


def _lex(s):
    toks, i, n = [], 0, len(s)
    while i < n:
        ch = s[i]
        if ch.isspace():
            i += 1
        elif ch in "+-*/=,()":
            toks.append((ch, ch))
            i += 1
        elif ch == "`":
            j = s.find("`", i + 1)
            if j < 0 or "\\" in s[i:j]:
                raise _Abstain
            if j == i + 1:
                raise _Abstain
            toks.append(("var", s[i + 1:j]))
            i = j + 1
        elif ch.isdigit() or ch == ".":
            j = i
            while j < n and (s[j].isdigit() or s[j] == "."):
                j += 1
            if j < n and (s[j].isalnum() or s[j] in "_([{`'\""):
                raise _Abstain
            t = s[i:j]
            if t.count(".") > 1 or t == "." or (t.isdigit() and len(t) > 1 and t[0] == "0" and set(t) != {"0"}):
                raise _Abstain  # not a numeric literal
            toks.append(("num", Fraction(t if not t.endswith(".") else t + "0")))
            i = j
        elif ch.isalpha() or ch == "_":
            j = i
            while j < n and (s[j].isalnum() or s[j] in "_."):
                j += 1
            # python-call / index suffixes belong to the name, verbatim
            while j < n and s[j] in "([":
                depth, k2 = 0, j
                while k2 < n:
                    if s[k2] in "([":
                        depth += 1
                    elif s[k2] in ")]":
                        depth -= 1
                        if depth == 0:
                            break
                    elif s[k2] in "'\"`{}\\":
                        raise _Abstain
                    k2 += 1
                if k2 >= n:
                    raise _Abstain
                j = k2 + 1
            if j < n and (s[j].isalnum() or s[j] in "_.`'\"{"):
                raise _Abstain
            toks.append(("var", s[i:j]))
            i = j
        else:
            raise _Abstain
    return toks


class _P:
    """constraints := constraint (',' constraint)* ; constraint := expr ('=' expr)? ;
    expr := ['+'|'-'] term (('+'|'-') term)* ; term := atom (('*'|'/') atom)* ; atom := num | var | '(' expr ')'
    (a prefix sign applies to the first term only; anywhere else formulaic fuses operator characters)"""

    def __init__(self, toks):
        self.t, self.i = toks, 0

    def peek(self):
        return self.t[self.i][0] if self.i < len(self.t) else None

    def eat(self, k):
        if self.peek() != k:
            raise _Abstain
        self.i += 1
        return self.t[self.i - 1][1]

    def constraints(self):
        out = [self.constraint()]
        while self.peek() == ",":
            self.eat(",")
            out.append(self.constraint())
        if self.peek() is not None:
            raise _Abstain
        return out

    def constraint(self):
        l = self.expr()
        r = None
        if self.peek() == "=":
            self.eat("=")
            r = self.expr()
        return (l, r)

    def expr(self):
        sign = None
        if self.peek() in ("+", "-"):
            sign = self.eat(self.peek())
        e = self.term()
        if sign == "-":
            e = ("neg", e)
        while self.peek() in ("+", "-"):
            o = self.eat(self.peek())
            e = ("add" if o == "+" else "sub", e, self.term())
        return e

    def term(self):
        e = self.atom()
        while self.peek() in ("*", "/"):
            o = self.eat(self.peek())
            e = ("mul" if o == "*" else "div", e, self.atom())
        return e

    def atom(self):
        k = self.peek()
        if k == "num":
            return ("numv", self.eat("num"))
        if k == "var":
            return ("var", self.eat("var"))
        if k == "(":
            self.eat("(")
            e = self.expr()
            self.eat(")")
            return e
        raise _Abstain


def _read(s):
    if not s.strip():
        return []
    return _P(_lex(s)).constraints()


def _eval(t, env):
    k = t[0]
    if k == "var":
        return env[t[1]]
    if k == "numv":
        return t[1]
    if k == "num":
        return Fraction(t[1] if not t[1].endswith(".") else t[1] + "0")
    if k == "neg":
        return -_eval(t[1], env)
    if k == "pos":
        return _eval(t[1], env)
    a, b = _eval(t[1], env), _eval(t[2], env)
    if k == "add":
        return a + b
    if k == "sub":
        return a - b
    if k == "mul":
        return a * b
    if b == 0:
        raise ZeroDivisionError
    return a / b


class _Rational(Exception):
    pass


def _poly(t):
    """polynomial in the names: {sorted tuple of names: coefficient}"""
    k = t[0]
    if k == "var":
        return {(t[1],): Fraction(1)}
    if k == "numv":
        return {(): t[1]}
    if k == "neg":
        return {m: -c for m, c in _poly(t[1]).items()}
    if k == "pos":
        return _poly(t[1])
    a, b = _poly(t[1]), _poly(t[2])
    out = {}
    if k in ("add", "sub"):
        s = 1 if k == "add" else -1
        out = dict(a)
        for m, c in b.items():
            out[m] = out.get(m, 0) + s * c
    elif k == "mul":
        for m1, c1 in a.items():
            for m2, c2 in b.items():
                m = tuple(sorted(m1 + m2))
                out[m] = out.get(m, 0) + c1 * c2
    else:
        b = {m: c for m, c in b.items() if c != 0}
        if any(m != () for m in b):
            raise _Rational
        if not b:
            raise ZeroDivisionError
        out = {m: c / b[()] for m, c in a.items()}
    return {m: c for m, c in out.items() if c != 0}


def _not_affine(l, r, names):
    """exact witness that x -> lhs(x) - rhs(x) is not affine: a non-zero second difference
    f(p+u+v) - f(p+u) - f(p+v) + f(p) at rational points where f is defined (an affine map has none)."""
    import random

    rng = random.Random(20260929)  # fixed: the oracle is deterministic
    n = len(names)

    def f(x):
        env = dict(zip(names, x))
        return _eval(l, env) - (_eval(r, env) if r is not None else 0)

    for _ in range(6):
        p = [Fraction(rng.randint(1, 40), rng.randint(1, 9)) for _ in range(n)]
        h = [Fraction(rng.randint(1, 30), rng.randint(1, 7)) for _ in range(n)]
        for i in range(n):
            for j in range(i, n):
                u = [h[q] if q == i else 0 for q in range(n)]
                v = [h[q] if q == j else 0 for q in range(n)]
                try:
                    d = (
                        f([a + b + c2 for a, b, c2 in zip(p, u, v)])
                        - f([a + b for a, b in zip(p, u)])
                        - f([a + b for a, b in zip(p, v)])
                        + f(p)
                    )
                except ZeroDivisionError:
                    continue
                if d != 0:
                    return f"second difference {d} in the directions {names[i]}, {names[j]} at {[str(a) for a in p]}"
    return None


def _vars(t):
    if t[0] == "var":
        return {t[1]}
    if t[0] == "numv":
        return set()
    return set().union(*[_vars(x) for x in t[1:]])


def _written(c):
    """[(lhs, rhs|None, offset)] in the order written, or raises _Abstain"""
    if c["form"] == "str":
        return [(l, r, Fraction(0)) for l, r in _read(c["spec"])]
    if c["form"] == "list":
        out = []
        for piece in c["spec"]:
            cs = _read(piece)
            if not cs:
                raise _Abstain  # an empty piece makes the joined string ill-formed
            out += [(l, r, Fraction(0)) for l, r in cs]
        return out
    out = []
    for key, v in c["spec"]:
        out += [(l, r, Fraction(v)) for l, r in _read(key)]
    return out


def oracle(c, o):
    if "harness_exception" in o:
        return "harness could not run the implementation: " + o["harness_exception"]
    if "history" in c:
        for i, (s, so) in enumerate(zip(c["history"], o["steps"])):
            w = _oracle_one(s, so)
            if w:
                return (
                    f"step {i} of a sequence of compilations in one process (columns {s['names']}, form {s['form']}; "
                    f"earlier steps used {[h['names'] for h in c['history'][:i]]}): {w}"
                )
        return None
    return _oracle_one(c, o)


class _Ragged(Exception):
    pass


def _plain(a):
    """nested Python lists of Fraction / str from an array-like description"""
    if isinstance(a, str):
        return Fraction(a)
    if "s" in a:
        return a["s"]
    return [_plain(x) for x in a["seq"]]


def _shape(x):
    if not isinstance(x, list):
        return ()
    if not x:
        return (0,)
    shapes = {_shape(y) for y in x}
    if len(shapes) != 1:
        raise _Ragged
    return (len(x),) + shapes.pop()


def _flat(x):
    return [z for y in x for z in _flat(y)] if isinstance(x, list) else [x]


def _generic(c, o):
    """what any returned LinearConstraints must satisfy (matrix, values, n_constraints hang together; the other
    forms of the same content agree with it)"""
    if "error" in o:
        return None
    k = len(o["A"])
    if len(o["shape"]) != 2 or len(o["bshape"]) != 1:
        return f"constraint_matrix has shape {o['shape']} and constraint_values shape {o['bshape']}: not a table with one value per row"
    if o["shape"][0] != k or any(len(r) != o["shape"][1] for r in o["A"]):
        return f"constraint_matrix is not a {o['shape']} table: {o['A']}"
    if o["bshape"] != [k] or len(o["b"]) != k:
        return f"{k} rows but constraint_values has shape {o['bshape']}"
    if o["n"] != k:
        return f"n_constraints = {o['n']} but the matrix has {k} rows"
    if "rt" in o:
        rt = o["rt"]
        if "error" in rt:
            return f"the result read back as the tuple (constraint_matrix, constraint_values) is rejected: {rt['error']}"
        if rt["A"] != o["A"] or rt["b"] != o["b"]:
            return f"the result read back as the tuple (constraint_matrix, constraint_values) gives A={rt['A']} b={rt['b']}, not A={o['A']} b={o['b']}"
        if not o.get("rt_same"):
            return "the result passed through from_spec again (a LinearConstraints instance) is not returned as it is"
    return None


def _oracle_py(c, o):
    """the forms that are not formulas: a (matrix, values) pair says x -> matrix.x - values, a bare matrix says the
    same with values 0, an instance says what it holds. Independent of the model (plain Python on the description)."""
    d = c["py"]
    t = d["t"]
    names = list(MODELSPEC_NAMES) if c.get("via") == "modelspec" else c["names"]
    if t == "inst":
        if "given" not in o:
            # the constructor call LinearConstraints(A, b, names) itself failed: judged like the pair (A, b)
            return _pair_verdict(_plain(d["A"]), _plain(d["b"]), d["names"], o)
        if "error" in o:
            return f"a LinearConstraints instance given as the specification is rejected: {o['error']}"
        if not o.get("same"):
            return "a LinearConstraints instance given as the specification is not returned as it is"
        g = o["given"]
        if any(o[key] != g[key] for key in ("A", "b", "names", "n", "shape")):
            return f"the instance given as the specification was changed: {g} -> { {key: o[key] for key in ('A', 'b', 'names', 'n', 'shape')} }"
        # and the instance the constructor built holds what it was given
        return _pair_verdict(_plain(d["A"]), _plain(d["b"]), d["names"], dict(g))
    if t in ("none", "num"):
        return None if "error" in o else f"{t} is not a specification but was accepted: A={o['A']} b={o['b']}"
    if t == "tuple" and len(d["v"]) == 2:
        m, v = _plain(d["v"][0]), _plain(d["v"][1])
    elif t == "nd":
        m, v = _plain(d["v"]), Fraction(0)
    else:
        m, v = [_plain(x) for x in d["v"]], Fraction(0)
    return _pair_verdict(m, v, names, o)


def _pair_verdict(m, v, names, o):
    """(matrix, values, names) as plain nests against what came back (an observation or an error)"""
    try:
        ms = _shape(m)
    except _Ragged:
        return None if "error" in o else f"a ragged matrix was accepted: A={o['A']}"
    try:
        vs = _shape(v)
    except _Ragged:
        return None if "error" in o else f"ragged values were accepted: b={o['b']}"
    if any(isinstance(z, str) for z in _flat(m) + _flat(v)):
        return None  # strings inside an array: no statement
    if len(ms) == 1:
        m, ms = [m], (1,) + ms
    bad = None
    if len(ms) != 2:
        bad = f"the matrix has {len(ms)} dimensions"
    elif len(vs) > 1:
        bad = f"the values have {len(vs)} dimensions"
    elif len(vs) == 1 and vs[0] != ms[0]:
        bad = f"{ms[0]} rows but {vs[0]} values"
    elif names and len(names) != ms[1]:
        bad = f"{ms[1]} columns but {len(names)} names"
    if "error" in o:
        return None if bad else f"a well-formed matrix specification (matrix {ms}, values {vs}, names {names}) is rejected: {o['error']}"
    if bad:
        return f"accepted although {bad}: A={o['A']} b={o['b']} names={o['names']}"
    want_b = v if len(vs) == 1 else [v] * ms[0]
    got_A = [[Fraction(z) for z in row] for row in o["A"]]
    got_b = [Fraction(z) for z in o["b"]]
    if got_A != m:
        return f"the matrix given is {m} but constraint_matrix is {got_A} (rows must be kept, in order)"
    if got_b != want_b:
        return f"the values given are {want_b} but constraint_values is {got_b}"
    if names and o["names"] != list(names):
        return f"variable_names given {names}, returned {o['names']}"
    if not names and ms[1] > 0 and o["names"] != [f"x{i}" for i in range(ms[1])]:
        return f"no names given for {ms[1]} columns, returned {o['names']}"
    return None


def _oracle_one(c, o):
    w = _generic(c, o)
    if w:
        return w
    if c["form"] == "py":
        f = _py_formula(c["py"])
        if f is None:
            return _oracle_py(c, o)
        if c["names"] is None and c.get("via") != "modelspec":
            return None if "error" in o else f"a formula was compiled without variable names: A={o['A']} b={o['b']}"
        names = list(MODELSPEC_NAMES) if c.get("via") == "modelspec" else c["names"]
        return _oracle_formula(dict(c, form=f[0], spec=f[1], names=names), o)
    return _oracle_formula(c, o)


def _oracle_formula(c, o):
    names = list(c["names"])
    try:
        cons = _written(c)
    except _Abstain:
        return None
    used = set()
    for l, r, _ in cons:
        used |= _vars(l) | (_vars(r) if r is not None else set())
    if any(v not in names for v in used) or any(names.count(v) > 1 for v in used):
        return None  # not an expression over the given columns / ambiguous column
    # symbolic difference lhs - rhs - offset
    polys, must_reject = [], None
    for i, (l, r, off) in enumerate(cons):
        try:
            p = _poly(("sub", l, r)) if r is not None else _poly(l)
        except ZeroDivisionError:
            must_reject = f"constraint {i} divides by the constant zero"
            polys.append(None)
            continue
        except _Rational:
            polys.append(None)
            w = _not_affine(l, r, names)
            if w:
                must_reject = f"constraint {i} divides by an expression in the columns and is not affine: {w}"
            continue
        if any(len(m) >= 2 for m in p):
            must_reject = f"constraint {i} is not linear: lhs - rhs has the monomial {max(p, key=len)}"
        polys.append((p, off))
    if "error" in o:
        return None  # rejection never violates the property (completeness is not claimed)
    if must_reject:
        return f"accepted although {must_reject}; returned A={o['A']} b={o['b']}"
    if c["form"] == "dict" and not cons and not c["spec"]:
        return None
    A = [[Fraction(v) for v in row] for row in o["A"]]
    b = [Fraction(v) for v in o["b"]]
    n = len(names)
    if len(A) != len(cons) or len(b) != len(cons):
        return f"{len(cons)} constraints written, {len(A)} rows / {len(b)} values returned"
    if any(len(row) != n for row in A):
        return f"row width differs from the number of columns {n}"
    for i, ((l, r, off), pq) in enumerate(zip(cons, polys)):
        # (1) the n+1-point test: x = 0 and the unit vectors
        for j in range(-1, n):
            x = [Fraction(1) if q == j else Fraction(0) for q in range(n)]
            env = dict(zip(names, x))
            try:
                want = _eval(l, env) - (_eval(r, env) if r is not None else 0) - off
            except ZeroDivisionError:
                if pq is None:
                    continue  # genuinely rational expression undefined at this point
                return f"constraint {i}: lhs - rhs is undefined (division by zero) but a row was returned"
            got = sum(a * xv for a, xv in zip(A[i], x)) - b[i]
            if not _same(c, got, want):
                pt = "0" if j < 0 else f"e_{j} ({names[j]}=1)"
                return f"constraint {i}: A.x - b = {got} but lhs(x) - rhs(x) = {want} at x = {pt}"
        # (2) symbolic: the affine map itself
        if pq is not None:
            p, _ = pq
            for j, nm in enumerate(names):
                if not _same(c, A[i][j], p.get((nm,), 0)):
                    return f"constraint {i}: coefficient of {nm} is {A[i][j]}, expected {p.get((nm,), 0)}"
            if not _same(c, -b[i], p.get((), 0) - off):
                return f"constraint {i}: constant is {-b[i]}, expected {p.get((), 0) - off}"
    return None


def classify(c, o, why):
    return None


LEVEL_TEXT = (
    "Proof: Lean theorems (Props/C16.lean, 42) about the executable model of formulaic/utils/constraints.py show, for EVERY abstract "
    "syntax tree (structural induction: unbounded nesting, repeated variables, constants on both sides), every list of column "
    "names, every set-iteration order and all specification forms, that a returned (A, b) has one row per written "
    "constraint in order with (A.x - b)_i = lhs_i(x) - rhs_i(x) for every rational vector x (compile_sound, rows_in_order_written, "
    "compile_sound_every_form for from_spec itself incl. n_constraints); that the result does not depend on Python's set iteration "
    "order (order_independent), that each entry is determined by the tree and the NAME of its column alone, so that permuting the column "
    "list permutes the coefficients with it (entries_depend_only_on_the_name, column_order_equivariant), that it does not depend on how "
    "the same maps are written or in which form they come (same_map_same_result, forms_agree, "
    "matrix_form_denotes, matrix_form_has_formula (every matrix row is what an explicit formula tree compiles to), list_form_is_joined_string, dict_entry_is_string_shifted, bare_matrix_is_pair_with_zero); EXACTLY which "
    "specifications are accepted (accepted_iff: comma-separated scalar expressions with numeric literals, no product of two "
    "column-mentioning subexpressions, no division by one or by a constant zero, every name a column — so non-linear ones are rejected "
    "and the syntactically linear fragment is accepted completely); that compiling is a homomorphism (compile_add/sub/eq/sign/"
    "scalar_mul/scalar_div_hom, compile_mul_div_sem, linear_operations_total, chained_equalities_one_row); that agreement at 0 and the unit vectors determines "
    "(A, b) (npoint_test_complete); and, for the matrix / pair / instance forms, exactly when the constructor accepts and what the "
    "instance then holds (pair_form_accepted_iff, scalar_values_and_flat_rows, built_instance_well_shaped, instance_returned_as_is, "
    "names_required). The model is tied to the code on every run by a differential correspondence on generated specifications of every "
    "kind, starting at the characters of the string and at the Python object passed as the specification."
)
LEVEL_NOTE = (
    "Trusted: Lean kernel + propext/Classical.choice/Quot.sound; the hand model validated by correspondence (results, shapes, names, "
    "n_constraints, exception classes and messages); the tokenizer/shunting-yard model is shared with C01/C14/C15 (the oracle's "
    "independent reader would expose a mis-parse); numpy.array / vstack / hstack and ast.literal_eval are modelled, not verified; "
    "rational arithmetic instead of IEEE floats. Completeness is claimed only for the syntactically linear fragment (accepted_iff): "
    "`(a-a)*b` is linear as a map but rejected by design. Code-as-it-is quirks the model mirrors and the theorems state: with no column "
    "the constructor stores x0…x(rows-1) as variable_names (built_instance_well_shaped); a number or None as the specification raises "
    "IndexError, not ValueError; `a = b = c` is the single constraint a - b - c (chained_equalities_one_row)."
)
