"""C20 — Formula differentiation is the term-wise partial derivative.

Correspondence stream `c20` (op `diff`): every differentiation entry point of the real package —
`SimpleFormula.differentiate`, `StructuredFormula.differentiate` (part-wise `_map`), `ModelSpec.differentiate`
(fresh spec / spec of an already built matrix), `ModelSpecs.differentiate` — on formulas built with every
`_ordering` option from strings and from explicit term trees, before and after in-place edit histories, with and
without `use_sympy`, against `Model.Calc` (Lean). The model is handed the term lists as they are BEFORE the
constructor's re-ordering and computes itself: the re-ordered term lists, the edit history (Model.SFm), the
derivative of every part, the state of the derivative object after further edits (its ordering is NONE), and —
through the C02 materializer model on a numeric factor cache — the columns of the derivative's and of the original's
model matrix, term by term.

Oracle (implementation only, no model): (1) every part of the result has the same number/order of terms and each is
the product-rule derivative of the term at the same position; the structure (keys, tuple lengths) is unchanged;
(2) every non-zero derivative term materialises to exactly one column, equal to the exact finite difference
(step 1 in each variable, successively) of the product of the original term's factor columns on integer data.
"""
from __future__ import annotations

import importlib.util
from fractions import Fraction

import numpy
import pandas

PROPERTY = "C20"
ENGINE = "c20"
REQUIRED_THEOREMS = [
    # differentiate_term
    "diff_term_is_partial", "diff_termwise", "diff_length", "atomic_factor_zero", "whole_factor_removed",
    "sympy_missing", "sympy_missing_formula", "diff_term_plain",
    # entry points, orderings, histories
    "simple_differentiate_termwise", "history_differentiate_termwise", "slice_differentiate_termwise",
    "structured_differentiate_partwise", "specs_differentiate_partwise", "structured_error_propagates",
    "gen_constants",
    # values
    "diff_is_finite_difference", "finite_difference_many", "diff_commutes", "diff_commutes_any_order",
    # materialisation
    "numeric_matrix_refines", "numeric_term_column", "derivative_columns_are_finite_differences",
    "derivative_columns_of_distinct_terms",
]
TRUSTED = [
    "not modelled: the sympy path of differentiate_term (use_sympy=True with sympy importable; sympy is not installed "
    "here, the generator then emits no such case and the engine would answer NOT-MODELLED); what IS modelled and "
    "exercised is use_sympy=True without sympy (ImportError unless there is nothing to ask sympy about)",
    "the materialisation theorems are about Model.CalcMat.materialize = the C02 model of _build_model_matrix "
    "(Model/Materialize.lean, Model/Columns.lean) run on a numeric factor cache; that the real materializer agrees with "
    "that model is checked here on every derivative/original matrix (columns compared exactly, term by term) and is "
    "property C02's tie in general; the values of Python factors (I(a ** 2), abs(b), …) enter as data computed by the "
    "harness, literals as exact rationals",
    "the term lists handed to the SimpleFormula constructors (the parser's output for string formulas; Structured's "
    "key handling for explicit trees) enter as data (properties C01/C19); the re-ordering, the edit history, every "
    "derivative and every column are computed by the model",
    "Gen/Calculus.lean (OrderingMethod members, default/derivative ordering, the literal 0/1 terms, exception class "
    "names, sympy importable) is regenerated from the live package by harness/translate.py:gen_calculus",
]
ASSUMPTIONS = [
    "terms are products of distinct factors (Term.__init__ de-duplicates by expression; the theorems carry it as "
    "Term.WF, preserved by every ordering and sequence operation: history_differentiate_termwise)",
    "second clause: numeric factors only (literals and single numeric columns, no categorical factor, no missing "
    "values), every column has one entry per row, the literals 0 and 1 evaluate to 0 and 1; with rank reduction on, "
    "no two terms of the formula have the same set of variable factors (the parser merges such terms; a repeated "
    "term gets no column of its own: numeric_matrix_refines says exactly which)",
]
RULE = (
    "formulas from strings (sums of products of distinct factors over numeric columns a..e, Python factors I(a ** 2), "
    "abs(b), I(c * d), I(e + 1), literal scalings, intercept on/off/removed, written in shuffled order; 30% structured: "
    "lhs ~ rhs, multi-part `|`) and from explicit term trees (35%: nested keys/tuples, optionally repeated and "
    "factor-less terms, Python factors spelled differently from the parser) x EVERY _ordering option (degree, none, "
    "sort, default) x tuples of 0..3 variables incl. repeats, absent names, whole Python-factor strings, spellings that "
    "are not the factor string, a literal x entry point (Formula.differentiate on Simple/StructuredFormula, "
    "ModelSpec(s).differentiate on a fresh spec and on the spec of an already built matrix) x use_sympy=True without "
    "sympy (8%) x, for simple formulas, in-place edit histories before a second differentiation (55%), a slice (25%), "
    "edits of the derivative object (30%); the derivative and the original are materialised (numpy output, rank "
    "reduction on/off) on 4 rows of integer data; non-trivial = wrt non-empty and an interaction/explicit tree; "
    "distinct by canonical JSON; 8 fixed corpus cases for the ordering class"
)

VARS = ["a", "b", "c", "d", "e"]
# Python factors with exact integer values (the non-sympy path treats the whole factor string as ONE symbol)
PYF = {
    # as the parser writes them (it re-prints Python code through `ast`) ...
    "I(a ** 2)": lambda d: d["a"] ** 2,
    "abs(b)": lambda d: abs(d["b"]),
    "I(c * d)": lambda d: d["c"] * d["d"],
    "I(e + 1)": lambda d: d["e"] + 1,
    # ... and spelled differently: other factor strings, hence other symbols for `differentiate`
    "I(a**2)": lambda d: d["a"] ** 2,
    "I(c*d)": lambda d: d["c"] * d["d"],
}
PYF_VARS = {"I(a ** 2)": {"a"}, "abs(b)": {"b"}, "I(c * d)": {"c", "d"}, "I(e + 1)": {"e"}, "I(a**2)": {"a"},
            "I(c*d)": {"c", "d"}}
PYF_PARSED = ["I(a ** 2)", "abs(b)", "I(c * d)", "I(e + 1)"]
LITS = ["2", "3", "0.5"]
NROWS = 4
HAVE_SYMPY = importlib.util.find_spec("sympy") is not None


# ----------------------------------------------------------------------------- generators


def _method(x):
    if x in PYF:
        return "python"
    return "literal" if x[:1].isdigit() else "lookup"


def _gen_factor_sets(rng, nterms, pyprob, explicit=False):
    """term strings over distinct non-literal factor sets (one term per set: the parser merges re-scaled repeats,
    and with rank reduction a repeated term gets no column of its own)"""
    terms, seen = [], set()
    for _ in range(nterms):
        k = rng.choice([1, 1, 2, 2, 3, 4])
        pool = VARS + ((list(PYF) if explicit else PYF_PARSED) if rng.random() < pyprob else [])
        fs = rng.sample(pool, min(k, len(pool)))
        if frozenset(fs) in seen:
            continue
        seen.add(frozenset(fs))
        if rng.random() < 0.2:
            fs.insert(rng.randrange(len(fs) + 1), rng.choice(LITS))
        terms.append(fs)
    return terms


def _gen_wrt(rng, used):
    nw = rng.choice([0, 1, 1, 1, 1, 2, 2, 2, 3])
    pool = VARS + ["zz"] + [u for u in used if u in PYF] * 2 + (["2"] if rng.random() < 0.1 else [])
    if any(u in PYF for u in used) and rng.random() < 0.3:
        pool = pool + list(PYF)  # also spellings that are NOT the factor string
    return [rng.choice(pool) for _ in range(nw)]


def _gen_rhs(rng, pyprob):
    terms = _gen_factor_sets(rng, rng.randint(1, 6), pyprob)
    rng.shuffle(terms)  # so that the written order is not already the degree order
    body = " + ".join(":".join(t) for t in terms)
    r = rng.random()
    if r < 0.25:
        return body + " - 1", terms
    if r < 0.4:
        return "1 + " + body, terms
    if r < 0.5:
        return "0 + " + body, terms
    return body, terms


def _gen_string_spec(rng, structured, pyprob):
    used = []
    if not structured:
        s, ts = _gen_rhs(rng, pyprob)
        used += [x for t in ts for x in t]
        return {"s": s}, used
    parts = []
    for _ in range(rng.choice([1, 1, 2, 3])):
        s, ts = _gen_rhs(rng, pyprob)
        used += [x for t in ts for x in t]
        parts.append(s)
    rhs = " | ".join(parts)
    r = rng.random()
    if r < 0.6:
        lhs = " + ".join(rng.sample(VARS, rng.choice([1, 1, 2])))
        return {"s": lhs + " ~ " + rhs}, used
    if r < 0.8 and len(parts) > 1:
        return {"s": rhs}, used
    return {"s": "~ " + rhs}, used


def _gen_term_dicts(rng, n, pyprob, allow_dups):
    out = []
    for fs in _gen_factor_sets(rng, n, pyprob, explicit=True):
        out.append([{"x": x, "m": _method(x)} for x in fs])
    if allow_dups and out and rng.random() < 0.5:
        out.insert(rng.randrange(len(out) + 1), list(rng.choice(out)))  # a repeated term
    if allow_dups and rng.random() < 0.3:
        out.insert(rng.randrange(len(out) + 1), [])  # a term without factors
    rng.shuffle(out)
    return out


def _gen_tree_spec(rng, structured, pyprob, allow_dups):
    """explicit term trees: {"l": [terms]} | {"t": [...]} | {"n": [[key, sub], ...]}"""

    def leaf():
        return {"l": _gen_term_dicts(rng, rng.choice([0, 1, 2, 3, 4, 5]), pyprob, allow_dups)}

    def sub(depth):
        r = rng.random()
        if depth >= 2 or r < 0.55:
            return leaf()
        if r < 0.8:
            return {"t": [leaf() for _ in range(rng.choice([1, 2, 3]))]}
        return node(depth + 1)

    def node(depth):
        keys = rng.sample(["root", "lhs", "rhs", "z", "q"], rng.choice([1, 2, 2, 3]))
        return {"n": [[k, sub(depth)] for k in keys]}

    t = node(0) if structured else leaf()
    used = []

    def walk(v):
        if "l" in v:
            used.extend(f["x"] for term in v["l"] for f in term)
        elif "t" in v:
            for x in v["t"]:
                walk(x)
        else:
            for _, x in v["n"]:
                walk(x)

    walk(t)
    return {"tree": t}, used


def _gen_term_value(rng):
    if rng.random() < 0.06:
        return None  # not a Term: rejected before anything changes
    k = rng.choice([0, 1, 1, 2, 2, 3])
    fs = rng.sample(VARS + list(PYF), k)
    if k == 0 or rng.random() < 0.15:
        fs.insert(rng.randrange(len(fs) + 1), rng.choice(["1"] + LITS))
    return [{"x": x, "m": _method(x)} for x in fs]


def _gen_ops(rng, n):
    ops = []
    for _ in range(n):
        r = rng.random()
        i = rng.choice([-9, -3, -2, -1, 0, 0, 1, 2, 3, 5, 9])
        if r < 0.3:
            ops.append({"o": "insert", "i": i, "t": _gen_term_value(rng)})
        elif r < 0.5:
            ops.append({"o": "set", "i": i, "t": _gen_term_value(rng)})
        elif r < 0.65:
            ops.append({"o": "del", "i": i})
        elif r < 0.7:
            ops.append({"o": "delslice", "a": i, "b": rng.choice([-2, 0, 1, 2, 4, 9])})
        elif r < 0.82:
            ops.append({"o": "append", "t": _gen_term_value(rng)})
        elif r < 0.88:
            ops.append({"o": "extend", "ts": [_gen_term_value(rng) for _ in range(rng.choice([0, 1, 2]))]})
        elif r < 0.96:
            ops.append({"o": "pop", "i": rng.choice([-1, -1, 0, i])})
        else:
            ops.append({"o": "reverse"})
    return ops


def gen_case(rng):
    structured = rng.random() < 0.3
    pyprob = rng.choice([0.0, 0.0, 0.5])
    explicit = rng.random() < 0.35
    entry = rng.choice(["formula", "formula", "spec", "matspec"])
    # repeated / empty terms only where no matrix of the ORIGINAL formula is compared term by term with rank
    # reduction on (a repeated term then has no column of its own)
    efr = rng.random() < 0.5
    allow_dups = explicit and rng.random() < 0.4
    if explicit:
        spec, used = _gen_tree_spec(rng, structured, pyprob, allow_dups)
    else:
        spec, used = _gen_string_spec(rng, structured, pyprob)
    c = dict(
        k="diff",
        spec=spec,
        ordering=rng.choice(["degree", "none", "sort", "sort", "none", None]),
        wrt=_gen_wrt(rng, used),
        sympy=(not HAVE_SYMPY) and rng.random() < 0.08,
        entry=entry,
        efr=efr,
        dups=allow_dups,
        data={v: [rng.randint(-4, 6) for _ in range(NROWS)] for v in VARS},
    )
    if not structured and rng.random() < 0.55:
        c["ops"] = _gen_ops(rng, rng.choice([1, 2, 3, 6]))
    if not structured and rng.random() < 0.3:
        c["dops"] = _gen_ops(rng, rng.choice([1, 2, 4]))
    if not structured and rng.random() < 0.25:
        c["slice"] = [rng.choice([-9, -3, -2, -1, 0, 0, 1, 2, 3]), rng.choice([-2, -1, 0, 1, 2, 3, 4, 9])]
    return c


def cases(rng, tier):
    n = {"quick": 500, "thorough": 7000, "search": 300}[tier]
    for _ in range(n):
        yield gen_case(rng)


def describe(c):
    if c.get("k") != "diff":
        return "legacy"
    shape = "tree" if "tree" in c["spec"] else "str"
    return f"{c['entry']},{c['ordering']},{shape},wrt={len(c['wrt'])}" + (",ops" if c.get("ops") else "") + (
        ",sympy" if c.get("sympy") else "")


def nontrivial(c):
    if c.get("k") != "diff":
        return ":" in c["formula"] and len(c["wrt"]) > 0
    return len(c["wrt"]) > 0 and (":" in c["spec"].get("s", "") or "tree" in c["spec"])


# ----------------------------------------------------------------------------- running the real code


def _term(t):
    from formulaic.parser.types import Factor, Term

    if t is None:
        return "not-a-term"
    return Term([Factor(f["x"], eval_method=f["m"]) for f in t])


def _terms(f):
    return [[dict(x=fa.expr, m=fa.eval_method.value) for fa in t.factors] for t in f]


def _py_spec(v):
    if "l" in v:
        return [_term(t) for t in v["l"]]
    if "t" in v:
        return tuple(_py_spec(x) for x in v["t"])
    return {k: _py_spec(x) for k, x in v["n"]}


def _build(c, ordering):
    from formulaic import Formula

    kw = {} if ordering is None else {"_ordering": ordering}
    sp = c["spec"]
    if "s" in sp:
        return Formula(sp["s"], **kw)
    t = sp["tree"]
    if "l" in t:
        return Formula(_py_spec(t), **kw)
    return Formula(**_py_spec(t), **kw)


def _walk(v, leaf):
    """the tree of a Formula / Structured / ModelSpec(s) / ModelMatrix(-ces) in `_structure` order"""
    from formulaic.utils.structured import Structured
    from formulaic import SimpleFormula

    if isinstance(v, Structured) and not isinstance(v, SimpleFormula):
        return {"n": [[k, _walk(x, leaf)] for k, x in v._structure.items()]}
    if isinstance(v, tuple):
        return {"t": [_walk(x, leaf) for x in v]}
    return {"l": leaf(v)}


def _formula_leaf(f):
    return {"o": f.ordering.value, "terms": _terms(f), "st": False}


def _spec_leaf(s):
    return {"o": s.formula.ordering.value, "terms": _terms(s.formula), "st": s.structure is not None}


def _frac(v):
    fr = Fraction(float(v))
    return str(fr.numerator) if fr.denominator == 1 else f"{fr.numerator}/{fr.denominator}"


def _matrix_leaf(mm):
    """per term: its columns (name, exact values), through the structure recorded in the matrix' spec"""
    arr = numpy.asarray(mm)
    out, pos = [], 0
    for s in mm.model_spec.structure:
        cols = []
        for name in s.columns:
            cols.append({"name": name, "values": [_frac(v) for v in arr[:, pos]]})
            pos += 1
        out.append(cols)
    if pos != (arr.shape[1] if arr.ndim == 2 else 0):
        raise RuntimeError(f"structure describes {pos} columns, matrix has {arr.shape}")
    return out


def _apply_ops(f, ops):
    for op in ops:
        try:
            o = op["o"]
            if o == "insert":
                f.insert(op["i"], _term(op["t"]))
            elif o == "set":
                f[op["i"]] = _term(op["t"])
            elif o == "del":
                del f[op["i"]]
            elif o == "delslice":
                del f[op["a"] : op["b"]]
            elif o == "append":
                f.append(_term(op["t"]))
            elif o == "extend":
                f.extend([_term(t) for t in op["ts"]])
            elif o == "pop":
                f.pop(op["i"])
            else:
                f.reverse()
        except Exception:
            pass  # IndexError / FormulaInvalidError: the state reached is the observable


def _map_tree(v, fn):
    if "l" in v:
        return {"l": fn(v["l"])}
    if "t" in v:
        return {"t": [_map_tree(x, fn) for x in v["t"]]}
    return {"n": [[k, _map_tree(x, fn)] for k, x in v["n"]]}


def impl(c):
    if c.get("k") != "diff":
        return _legacy_impl(c)
    from formulaic import ModelSpec, SimpleFormula

    kw = dict(use_sympy=True) if c["sympy"] else {}
    mkw = dict(output="numpy", ensure_full_rank=c["efr"])
    df = pandas.DataFrame(c["data"])
    f = _build(c, c["ordering"])
    pre = _build(c, "none")  # the term lists the constructors are handed (the parser's / the caller's order)
    out = dict(pre=_walk(pre, _formula_leaf))
    simple = isinstance(f, SimpleFormula)
    mat0 = None
    # ---- the entry point
    try:
        if c["entry"] == "formula":
            out["init"] = _walk(f, _formula_leaf)
            d = f.differentiate(*c["wrt"], **kw)
            out["d"] = _walk(d, _formula_leaf)
        else:
            if c["entry"] == "spec":
                sp = ModelSpec.from_spec(f, **mkw)
            else:
                mat0 = f.get_model_matrix(df, **mkw)
                sp = mat0.model_spec
            out["init"] = _walk(sp, _spec_leaf)
            d = sp.differentiate(*c["wrt"], **kw)
            out["d"] = _walk(d, _spec_leaf)
    except Exception as e:
        if "init" not in out:
            raise
        out["d"] = {"error": type(e).__name__}
        d = None
    # ---- histories on the one mutable object (SimpleFormula only; a spec's `.formula` is that very object)
    if simple:
        target = f if c["entry"] == "formula" else sp
        fobj = f if c["entry"] == "formula" else sp.formula
        _apply_ops(fobj, c.get("ops", []))
        out["terms2"] = _terms(fobj)
        try:
            d2 = target.differentiate(*c["wrt"], **kw)
            d2 = d2 if c["entry"] == "formula" else d2.formula
            out["d2"] = {"o": d2.ordering.value, "terms": _terms(d2)}
        except Exception as e:
            out["d2"] = {"error": type(e).__name__}
        if "slice" in c:
            g = fobj[c["slice"][0] : c["slice"][1]]
            out["terms3"] = _terms(g)
            try:
                d3 = g.differentiate(*c["wrt"], **kw)
                out["d3"] = {"o": d3.ordering.value, "terms": _terms(d3)}
            except Exception as e:
                out["d3"] = {"error": type(e).__name__}
        if d is not None:
            dd = _build(c, c["ordering"]).differentiate(*c["wrt"], **kw)
            _apply_ops(dd, c.get("dops", []))
            out["dd"] = {"o": dd.ordering.value, "terms": _terms(dd)}
        else:
            out["dd"] = dict(out["d"])
    # ---- materialisation, term by term (numpy output: equal labels cannot collide)
    try:
        if mat0 is None:
            mat0 = _build(c, c["ordering"]).get_model_matrix(df, **mkw)
        out["mat0"] = _walk(mat0, _matrix_leaf)
        if d is not None:
            if c["entry"] == "formula":
                out["mat"] = _walk(d, lambda leaf: _matrix_leaf(leaf.get_model_matrix(df, **mkw)))
            else:
                out["mat"] = _walk(d.get_model_matrix(df), _matrix_leaf)
    except Exception as e:
        out["mat_error"] = type(e).__name__ + ": " + str(e)[:120]
    return out


def _env(c, o):
    """the evaluated numeric factors handed to the materializer model: literals as numbers, data columns, and the
    exact values of the Python factors (computed here, not by formulaic)"""
    data = {k: numpy.array(v, dtype=object) for k, v in c["data"].items()}
    exprs = {"0": "literal", "1": "literal"}

    def collect(leaf):
        for t in leaf["terms"]:
            for f in t:
                exprs.setdefault(f["x"], f["m"])
        return None

    for key in ("pre", "d"):
        if key in o and "error" not in o[key]:
            _map_tree(o[key], collect)
    env = []
    for x, m in sorted(exprs.items()):
        if m == "literal":
            fr = Fraction(x)
            env.append([x, str(fr.numerator) if fr.denominator == 1 else f"{fr.numerator}/{fr.denominator}"])
        elif x in PYF:
            env.append([x, [str(int(v)) for v in PYF[x](data)]])
        elif x in data:
            env.append([x, [str(int(v)) for v in data[x]]])
    return env


def request(c, o):
    if c.get("k") != "diff":
        return _legacy_request(c, o)
    if "pre" not in o:
        return dict(op="diff", tree={"n": []}, wrt=c["wrt"], sympy=c["sympy"])
    # leaves: the `_ordering` the caller asked for (null = the constructor's default), the terms as handed to the
    # constructor, and whether the spec has been through a materialisation; the model predicts everything else
    st = c["entry"] == "matspec"

    def leafs(p):
        return _map_tree(p, lambda l: {"o": c["ordering"], "terms": l["terms"], "st": st})

    r = dict(op="diff", tree=leafs(o["pre"]), wrt=c["wrt"], sympy=c["sympy"],
             ops=c.get("ops", []), dops=c.get("dops", []))
    if "slice" in c:
        r["slice"] = c["slice"]
    r["mat"] = dict(env=_env(c, o), efr=c["efr"], nrows=NROWS)
    return r


def agree(c, o, m):
    if "driver_error" in m:
        return "driver: " + m["driver_error"][:300]
    if c.get("k") != "diff":
        return _legacy_agree(c, o, m)
    for key, what in (
        ("init", "term lists after the constructor's re-ordering"),
        ("d", "differentiated formula/spec tree"),
        ("terms2", "term list after the edit history"),
        ("d2", "derivative after the edit history"),
        ("dd", "derivative object after further edits"),
        ("terms3", "slice of the edited formula"),
        ("d3", "derivative of the slice"),
    ):
        if key in o and o[key] != m.get(key):
            return f"{what}: implementation and model differ ({key})"
    if "mat_error" in o:
        # the model has no failing branch for numeric data
        return "materialisation failed in the implementation: " + o["mat_error"]
    for key, what in (("mat0", "columns of the original"), ("mat", "columns of the derivative")):
        if key in o and o[key] != m.get(key):
            return f"{what}, term by term: implementation and model differ ({key})"
    return None


# ----------------------------------------------------------------------------- oracle (no model)


def _spec_derivative(term, wrt):
    """product rule on a list of (expr, method) — independent re-statement used only by the oracle"""
    fs = list(term)
    for v in wrt:
        if not any(f["x"] == v for f in fs):
            return None
        fs = [f for f in fs if f["x"] != v]
    return fs


def _shown(want):
    return [dict(x="0", m="literal")] if want is None else (want or [dict(x="1", m="literal")])


def _check_terms(orig, der, wrt, where):
    if len(der) != len(orig):
        return f"{where}: {len(orig)} terms, derivative has {len(der)}"
    for i, (t, d) in enumerate(zip(orig, der)):
        shown = _shown(_spec_derivative(t, wrt))
        if d != shown:
            return f"{where}: term {i} {t} differentiated to {d}, product rule gives {shown}"
    return None


def _pairs(a, b, where="formula"):
    """leaf pairs of two trees of the same shape (keys matched by name); raises ValueError on a shape mismatch"""
    if "l" in a:
        if "l" not in b:
            raise ValueError(f"{where}: a formula became a container")
        return [(where, a["l"], b["l"])]
    if "t" in a:
        if "t" not in b or len(a["t"]) != len(b["t"]):
            raise ValueError(f"{where}: tuple of {len(a['t'])} parts changed shape")
        return [p for i, (x, y) in enumerate(zip(a["t"], b["t"])) for p in _pairs(x, y, f"{where}[{i}]")]
    if "n" not in b or sorted(k for k, _ in a["n"]) != sorted(k for k, _ in b["n"]):
        raise ValueError(f"{where}: keys changed")
    bm = dict((k, v) for k, v in b["n"])
    return [p for k, x in a["n"] for p in _pairs(x, bm[k], f"{where}.{k}")]


def _value(term, env):
    out = numpy.ones(NROWS)
    for f in term:
        out = out * env[f["x"]]
    return out


def _fd(term, env, wrt):
    if not wrt:
        return _value(term, env)
    v, rest = wrt[0], wrt[1:]
    if v not in env:
        return _fd(term, env, rest) * 0
    env2 = dict(env)
    env2[v] = env[v] + 1
    return _fd(term, env2, rest) - _fd(term, env, rest)


def oracle(c, o):
    if "harness_exception" in o:
        return "harness could not run the implementation: " + o["harness_exception"]
    if c.get("k") != "diff":
        return _legacy_oracle(c, o)
    wrt = c["wrt"]
    if "error" in o["d"]:
        if c["sympy"]:
            return None  # use_sympy=True where sympy is not installed: the property says nothing about this call
        return f"differentiate raised {o['d']['error']}"
    try:
        pairs = _pairs(o["init"], o["d"])
    except ValueError as e:
        return "structure of the result differs: " + str(e)
    for where, a, b in pairs:
        why = _check_terms(a["terms"], b["terms"], wrt, where)
        if why:
            return why
    if "terms2" in o:
        if "error" in o["d2"]:
            if not c["sympy"]:
                return f"differentiating the edited formula raised {o['d2']['error']}"
        else:
            why = _check_terms(o["terms2"], o["d2"]["terms"], wrt, "after in-place edits")
            if why:
                return why
    if "terms3" in o:
        if "error" in o["d3"]:
            if not c["sympy"]:
                return f"differentiating a slice of the formula raised {o['d3']['error']}"
        else:
            why = _check_terms(o["terms3"], o["d3"]["terms"], wrt, "slice of the formula")
            if why:
                return why
    if "mat_error" in o:
        return "materialisation of the derivative failed: " + o["mat_error"]
    if "mat" not in o:
        return None
    # finite differences (h = 1 in each wrt variable successively) of the product of the original term's factors
    data = {k: numpy.array(v, dtype=float) for k, v in c["data"].items()}
    env = dict(data)
    for x, fn in PYF.items():
        env[x] = fn(data)
    for x in ["0", "1"] + LITS:
        env[x] = float(Fraction(x))
    try:
        mpairs = _pairs(o["init"], o["mat"])
    except ValueError as e:
        return "structure of the derivative's matrices differs: " + str(e)
    for where, a, cols in mpairs:
        if len(cols) != len(a["terms"]):
            return f"{where}: {len(a['terms'])} terms but the derivative's matrix records {len(cols)} terms"
        seen = []
        for i, (t, tc) in enumerate(zip(a["terms"], cols)):
            want = _spec_derivative(t, wrt)
            if want is None:
                continue  # zero derivative: the property speaks about non-zero derivative terms only
            key = frozenset(f["x"] for f in want if f["m"] != "literal")
            repeated = key in seen
            seen.append(key)
            if repeated and c["efr"]:
                continue  # an equal term earlier in the derivative already spans this column (rank reduction)
            if any(f["x"] not in env for f in t):
                continue
            if any(f["m"] == "python" and PYF_VARS.get(f["x"], set()) & set(wrt) for f in t):
                continue  # not multilinear in that data variable: outside the second clause
            expect = _fd(t, env, wrt)
            if len(tc) != 1:
                return f"{where}: non-zero derivative term {_shown(want)} of {t} materialised to {len(tc)} columns (expected 1)"
            got = numpy.array([float(Fraction(v)) for v in tc[0]["values"]])
            if not numpy.array_equal(got, expect):
                return f"{where}: derivative term {_shown(want)} of {t}: column {got.tolist()} != finite difference {expect.tolist()}"
    return None


def classify(c, o, why):
    return None


# ----------------------------------------------------------------------------- legacy case format (old replays)


def _legacy_impl(c):
    from formulaic import Formula, ModelSpec

    f = Formula(c["formula"])
    entry = c.get("entry", "formula")
    df = pandas.DataFrame(c["data"])
    dspec = None
    try:
        if entry == "formula":
            d = f.differentiate(*c["wrt"])
        else:
            if entry == "spec":
                sp = ModelSpec.from_spec(Formula(c["formula"]), output="numpy", ensure_full_rank=c["efr"])
            else:
                sp = Formula(c["formula"]).get_model_matrix(df, output="numpy", ensure_full_rank=c["efr"]).model_spec
            dspec = sp.differentiate(*c["wrt"])
            d = dspec.formula
    except Exception as e:
        return dict(terms=_terms(f), error=type(e).__name__)
    out = dict(terms=_terms(f), dterms=_terms(d))
    if c.get("edits"):
        from formulaic.parser.types import Factor, Term

        mk = lambda s: Term([Factor(x) for x in s.split(":")])
        for e in c["edits"]:
            try:
                if e[0] == "del":
                    del f[e[1]]
                elif e[0] == "pop":
                    f.pop()
                elif e[0] == "insert":
                    f.insert(e[1], mk(e[2]))
                elif e[0] == "append":
                    f.append(mk(e[1]))
                elif e[0] == "set":
                    f[e[1]] = mk(e[2])
            except IndexError:
                pass
        out["terms2"] = _terms(f)
        try:
            out["dterms2"] = _terms(f.differentiate(*c["wrt"]))
        except Exception as e:
            out["dterms2"] = {"error": type(e).__name__}
    try:
        if dspec is not None:
            dm = dspec.get_model_matrix(df)
        else:
            dm = d.get_model_matrix(df, output="numpy", ensure_full_rank=c["efr"])
        st = dm.model_spec.structure
        cols, pos = [], 0
        arr = numpy.asarray(dm)
        for s in st:
            k = len(s.columns)
            cols.append([[float(v) for v in arr[:, pos + j]] for j in range(k)])
            pos += k
        out["dcols"] = cols
    except Exception as e:
        out["mat_error"] = type(e).__name__ + ": " + str(e)[:100]
    return out


def _legacy_request(c, o):
    r = dict(terms=o.get("terms", []), wrt=c["wrt"])
    if "terms2" in o:
        r["terms2"] = o["terms2"]
    return r


def _legacy_agree(c, o, m):
    if "error" in o or "error" in m:
        return None if o.get("error") == m.get("error") else f"impl {o.get('error')} vs model {m.get('error')}"
    if o.get("dterms") != m.get("terms"):
        return "differentiated term lists differ"
    if "terms2" in o and o.get("dterms2") != m.get("terms2"):
        return "after in-place edits of the formula, differentiating again differs from the model"
    return None


def _legacy_oracle(c, o):
    if "error" in o:
        return f"differentiate raised {o['error']}"
    why = _check_terms(o["terms"], o["dterms"], c["wrt"], "formula")
    if why:
        return why
    if "terms2" in o:
        d2 = o["dterms2"]
        if isinstance(d2, dict):
            return f"differentiating the edited formula raised {d2['error']}"
        why = _check_terms(o["terms2"], d2, c["wrt"], "after in-place edits")
        if why:
            return why
    if "mat_error" in o:
        return "materialisation of the derivative failed: " + o["mat_error"]
    data = {k: numpy.array(v, dtype=float) for k, v in c["data"].items()}
    env = dict(data)
    for x in ["0", "1"] + LITS:
        env[x] = float(Fraction(x))
    for t, d, cols in zip(o["terms"], o["dterms"], o["dcols"]):
        want = _spec_derivative(t, c["wrt"])
        if want is None or any(f["x"] not in env for f in t):
            continue
        expect = _fd(t, env, c["wrt"])
        if len(cols) != 1:
            return f"non-zero derivative term {d} of {t} materialised to {len(cols)} columns (expected 1)"
        if not numpy.array_equal(numpy.array(cols[0]), expect):
            return f"derivative term {d} of {t}: column {cols[0]} != finite difference {expect.tolist()}"
    return None


LEVEL_TEXT = (
    "Proof: Lean theorems (Props/C20.lean, 23) about the executable models the c20 engine runs. For ALL term lists and "
    "ALL tuples of variables the model of differentiate_term returns the product-rule derivative (0 / factors removed "
    "/ 1); a variable that only occurs inside a Python factor's code is not found (derivative 0) and the whole factor "
    "string is; use_sympy without sympy raises exactly when there is something to ask. For EVERY state of a "
    "SimpleFormula — every _ordering option, every history of sequence operations, every slice — the derivative has "
    "ordering NONE and its i-th term is the derivative of the i-th term; StructuredFormula.differentiate and "
    "ModelSpec(s).differentiate are the part-wise map (same keys/shape, structure reset), one failing part fails "
    "the call. Partial derivatives commute for any number of variables; the iterated exact finite difference of a "
    "product of distinct factors is the product of the steps times the iterated derivative's value in every "
    "commutative ring. The C02 materializer model on a numeric cache is proved to produce, term by term, exactly one "
    "column per (non-repeated, non-empty) term holding the product of its factors, with and without rank reduction; "
    "hence every non-zero derivative term of a formula with pairwise different terms materialises to exactly one "
    "column, equal row by row to the exact finite difference of the original term's value. The models are tied to "
    "the code by a differential correspondence on every run (term lists, orderings, histories, structures, and the "
    "columns of derivative and original matrices, compared exactly)."
)
LEVEL_NOTE = (
    "Trusted: Lean kernel + propext/Classical.choice/Quot.sound; the hand models of calculus.py (non-sympy path and "
    "the sympy-missing branch), SimpleFormula/Structured (shared with C19) and the materializer (shared with C02), "
    "validated by correspondence on generated formulas; Gen/Calculus.lean is regenerated from the live package; the "
    "sympy path proper is not modelled (sympy not installed); categorical factors and missing values are outside the "
    "second clause; that the hand model of the materializer matches the code beyond the generated numeric formulas "
    "is C02's claim."
)
