"""C20 — Formula differentiation is the term-wise partial derivative.

Correspondence stream `c20`: the real `Formula(...).differentiate(*wrt)` against
`Model.differentiateFormula` on the term list the real parser produced.
Oracle (impl only): (1) result has the same number/order of terms and each is the product-rule
derivative; (2) every non-zero derivative term materialises to the exact finite difference
(step h=1) of the original term's column on integer data.
"""
from __future__ import annotations

import itertools

import numpy
import pandas

PROPERTY = "C20"
ENGINE = "c20"
REQUIRED_THEOREMS = ["diff_term_is_partial", "diff_termwise", "diff_length", "diff_is_finite_difference", "diff_commutes"]
TRUSTED = [
    "modelled, not verified: the sympy path of differentiate_term (sympy is not installed here)",
    "the finite-difference clause is a theorem about products in a commutative ring (Props.C20.diff_is_finite_difference); "
    "that the materialised column of a term IS that product is property C02",
]
ASSUMPTIONS = ["terms are products of distinct factors (Term.__init__ de-duplicates by expression)"]
RULE = (
    "random formulas over numeric columns a..e (products of distinct factors, optional numeric literal scalings, "
    "intercept on/off) x random tuples of differentiation variables incl. repeats and absent names x entry point (Formula.differentiate, ModelSpec.differentiate on a fresh spec and on the spec of an already built matrix; the derivative is then materialised through that spec); 30% of the cases continue with in-place edits of the formula (del/pop/insert/append/setitem) and a second differentiation; "
    "non-trivial = formula has an interaction term and wrt is non-empty; distinct by canonical JSON"
)

VARS = ["a", "b", "c", "d", "e"]


def cases(rng, tier):
    n = {"quick": 400, "thorough": 6000, "search": 300}[tier]
    for _ in range(n):
        nterms = rng.randint(1, 6)
        terms, seen = [], set()
        for _ in range(nterms):
            k = rng.choice([1, 1, 2, 2, 3, 4])
            fs = rng.sample(VARS, k)
            if frozenset(fs) in seen:  # one term per factor set (the parser rejects re-scaled repeats)
                continue
            seen.add(frozenset(fs))
            if rng.random() < 0.2:
                fs.insert(rng.randrange(len(fs) + 1), rng.choice(["2", "3", "0.5"]))
            terms.append(":".join(fs))
        icpt = rng.choice(["", "", "0 + ", "1 + "])
        formula = icpt + " + ".join(terms)
        nw = rng.choice([1, 1, 1, 2, 2, 3])
        wrt = [rng.choice(VARS + ["zz"]) for _ in range(nw)]
        c = dict(
            formula=formula,
            wrt=wrt,
            efr=rng.random() < 0.5,
            # entry point: Formula.differentiate, ModelSpec.differentiate on a fresh spec, or on the spec of a
            # matrix that has already been built (the spec then carries the structure of the ORIGINAL terms)
            entry=rng.choice(["formula", "formula", "spec", "matspec"]),
            data={v: [rng.randint(-4, 6) for _ in range(4)] for v in VARS},
        )
        if rng.random() < 0.3:
            # history: differentiate, edit the formula object in place, differentiate again
            c["edits"] = [
                rng.choice([["del", rng.randint(0, 5)], ["pop"], ["insert", rng.randint(0, 5), rng.choice(VARS)],
                            ["append", ":".join(rng.sample(VARS, 2))], ["set", rng.randint(0, 5), rng.choice(VARS)]])
                for _ in range(rng.randint(1, 3))
            ]
        yield c


def describe(c):
    return f"terms={c['formula'].count('+') + 1},wrt={len(c['wrt'])},entry={c.get('entry', 'formula')}"


def nontrivial(c):
    return ":" in c["formula"] and len(c["wrt"]) > 0


def _terms(f):
    return [[dict(x=fa.expr, m=fa.eval_method.value) for fa in t.factors] for t in f]


def impl(c):
    from formulaic import Formula

    from formulaic import ModelSpec

    f = Formula(c["formula"])
    entry = c.get("entry", "formula")
    df = pandas.DataFrame(c["data"])
    dspec = None
    try:
        if entry == "formula":
            d = f.differentiate(*c["wrt"])
        else:
            if entry == "spec":
                sp = ModelSpec.from_spec(Formula(c["formula"]), output="numpy", ensure_full_rank=c["efr"])
            else:
                sp = Formula(c["formula"]).get_model_matrix(df, output="numpy", ensure_full_rank=c["efr"]).model_spec
            dspec = sp.differentiate(*c["wrt"])
            d = dspec.formula
    except Exception as e:
        return dict(terms=_terms(f), error=type(e).__name__)
    out = dict(terms=_terms(f), dterms=_terms(d))
    if c.get("edits"):
        from formulaic.parser.types import Factor, Term

        mk = lambda s: Term([Factor(x) for x in s.split(":")])
        for e in c["edits"]:
            try:
                if e[0] == "del":
                    del f[e[1]]
                elif e[0] == "pop":
                    f.pop()
                elif e[0] == "insert":
                    f.insert(e[1], mk(e[2]))
                elif e[0] == "append":
                    f.append(mk(e[1]))
                elif e[0] == "set":
                    f[e[1]] = mk(e[2])
            except IndexError:
                pass
        out["terms2"] = _terms(f)
        try:
            out["dterms2"] = _terms(f.differentiate(*c["wrt"]))
        except Exception as e:
            out["dterms2"] = {"error": type(e).__name__}
    # materialise original and derivative (numpy output: equal labels cannot collide)
    try:
        if dspec is not None:
            dm = dspec.get_model_matrix(df)
        else:
            dm = d.get_model_matrix(df, output="numpy", ensure_full_rank=c["efr"])
        # per-term columns through the recorded structure (term order = formula order)
        st = dm.model_spec.structure
        cols, pos = [], 0
        arr = numpy.asarray(dm)
        for s in st:
            k = len(s.columns)
            cols.append([[float(v) for v in arr[:, pos + j]] for j in range(k)])
            pos += k
        out["dcols"] = cols
    except Exception as e:
        out["mat_error"] = type(e).__name__ + ": " + str(e)[:100]
    return out


def request(c, o):
    r = dict(terms=o.get("terms", []), wrt=c["wrt"])
    if "terms2" in o:
        r["terms2"] = o["terms2"]
    return r


def agree(c, o, m):
    if "driver_error" in m:
        return "driver: " + m["driver_error"][:300]
    if "error" in o or "error" in m:
        return None if o.get("error") == m.get("error") else f"impl {o.get('error')} vs model {m.get('error')}"
    if o.get("dterms") != m.get("terms"):
        return "differentiated term lists differ"
    if "terms2" in o and o.get("dterms2") != m.get("terms2"):
        return "after in-place edits of the formula, differentiating again differs from the model"
    return None


def _spec_derivative(term, wrt):
    """product rule on a list of (expr, method) — independent re-statement used only by the oracle"""
    fs = list(term)
    for v in wrt:
        if not any(f["x"] == v for f in fs):
            return None
        fs = [f for f in fs if f["x"] != v]
    return fs


def oracle(c, o):
    if "harness_exception" in o:
        return "harness could not run the implementation: " + o["harness_exception"]
    if "error" in o:
        return f"differentiate raised {o['error']}"
    if len(o["dterms"]) != len(o["terms"]):
        return "number of terms changed"
    for t, d in zip(o["terms"], o["dterms"]):
        want = _spec_derivative(t, c["wrt"])
        shown = [dict(x="0", m="literal")] if want is None else (want or [dict(x="1", m="literal")])
        if d != shown:
            return f"term {t} differentiated to {d}, product rule gives {shown}"
    if "terms2" in o:
        d2 = o["dterms2"]
        if isinstance(d2, dict):
            return f"differentiating the edited formula raised {d2['error']}"
        if len(d2) != len(o["terms2"]):
            return f"after in-place edits the formula has {len(o['terms2'])} terms but its derivative has {len(d2)}"
        for t, d in zip(o["terms2"], d2):
            want = _spec_derivative(t, c["wrt"])
            shown = [dict(x="0", m="literal")] if want is None else (want or [dict(x="1", m="literal")])
            if d != shown:
                return f"after in-place edits: term {t} differentiated to {d}, product rule gives {shown}"
    if "mat_error" in o:
        return "materialisation of the derivative failed: " + o["mat_error"]
    # finite differences (h = 1 in each wrt variable successively) of each original term's column
    data = {k: numpy.array(v, dtype=float) for k, v in c["data"].items()}

    def value(term, env):
        out = numpy.ones(4)
        for f in term:
            out = out * (float(f["x"]) if f["m"] == "literal" else env[f["x"]])
        return out

    def fd(term, env, wrt):
        if not wrt:
            return value(term, env)
        v, rest = wrt[0], wrt[1:]
        if v not in env:
            return fd(term, env, rest) * 0
        env2 = dict(env)
        env2[v] = env[v] + 1
        return fd(term, env2, rest) - fd(term, env, rest)

    for t, d, cols in zip(o["terms"], o["dterms"], o["dcols"]):
        want = _spec_derivative(t, c["wrt"])
        if want is None:
            continue  # zero derivative: the property speaks about non-zero derivative terms only
        expect = fd(t, data, c["wrt"])
        if len(cols) != 1:
            return f"non-zero derivative term {d} of {t} materialised to {len(cols)} columns (expected 1)"
        if not numpy.array_equal(numpy.array(cols[0]), expect):
            return f"derivative term {d} of {t}: column {cols[0]} != finite difference {expect.tolist()}"
    return None


def classify(c, o, why):
    return None

LEVEL_TEXT = (
    "Proof: Lean theorems (Props/C20.lean) show for ALL term lists and ALL tuples of variables that the model of "
    "differentiate_term/SimpleFormula.differentiate returns, term by term and in order, the product-rule derivative "
    "(0 / factor removed / 1), that partial derivatives commute, and that for distinct factors the exact finite "
    "difference equals h times the derivative's value in every commutative ring. The model is tied to the code by a "
    "differential correspondence on every run; the materialisation clause is checked on the real code by the oracle."
)
LEVEL_NOTE = (
    "Trusted: Lean kernel + propext/Classical.choice/Quot.sound; the hand model of calculus.py (non-sympy path) validated "
    "by correspondence on generated formulas; that a materialised column equals the product of its factors is C02's claim; sympy path not modelled."
)
