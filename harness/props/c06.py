"""C06 — Missing-data policy removes exactly the right rows, by position, and reports it.

Correspondence stream `c06` (engine `Engines/C06.lean`, model `Model/Nulls.lean`): one real call through
an entry point (`model_matrix`, `Formula.get_model_matrix`, `ModelSpec(s).get_model_matrix` with/without
overrides, fitted or not, joint or per-spec generation with a shared drop set, materializer method) on a generated frame, against
`Model.Nulls.callNA`. The model is told, per evaluated factor, the SHAPE of the value (constant, list, pandas /
narwhals Series, 0/1/2/n-d array, data frame, nested dict with hidden members, unknown object) and which of its CELLS are
null by an independent per-cell definition (None / NaN / pandas.NA / NaT) — not what `find_nulls` returned — plus the
encoder it carries; `find_nulls`, `as_columns`, the `map_dict` traversal and the `drop_rows` overloads are computed by the
model. It answers with the surviving row positions per column, the output index, the final content of the caller's set,
or the error kind (null-check errors and `drop_rows` errors included). The implementation's kept positions are read off a
row-id column (`rid`) that every part carries. `na_action` is passed as a string, as an `NAAction` member, or as an invalid
string (error branch of `NAAction(...)`).

Infinite cells: a sub-stream puts +inf / -inf into about a tenth of the numeric cells (not null by the independent
definition), with factors that hold BOTH signs in one row of a multi-column value (`np.column_stack([x, -x])`,
`poly(x, 2, raw=True)`, frames, dicts): such rows must be kept, must not be reported, and raise must not raise.

The caller's set object: every call answer (model and implementation) carries the content of the set AFTER the call,
also when the call raised (`Model.Nulls.setAfterCall`). Shared-set histories (`kind = "sethist"`): ONE set object is
handed as `drop_rows` to 2-3 calls through different entry points, the first with `na_action='raise'` on data with nulls
(it raises and must leave the set as it was); the later calls (ignore / drop / raise, on the same data or on the data with
the nulls filled in) are observed on the shared object AND with a fresh copy of what the object held before them
(`Model.Nulls.runSetHistory`).

Unit stream (`kind = "unit"`): `null_handling.find_nulls(value)` / `null_handling.drop_rows(value, indices)` called
directly on a generated value of EVERY type they dispatch on (None, str, int, float, bool, numpy scalars, list, dict,
narwhals Series, pandas Series / DataFrame, 0/1/2/3-d ndarray (float, object and string dtype), pandas Categorical / masked
extension array / Index, csc / csr sparse matrix, tuple / object; bare or wrapped in
`FactorValues`), `indices` sorted / unsorted / with repeats / as tuple / out of range / empty, against
`Model.Nulls.findNulls` / `dropRowsV`.

Histories (`kind = "history"`): ONE materializer object receives 2-3 `get_model_matrix` calls (formulas that share
factors, or the spec an earlier call returned; per call its own na_action, output type and caller drop set). Every call
is observed like a single call, and next to it the same call on a materializer object made for it. The model side is
`Model.NullsHist.runHistory` (the object's `factor_cache` / `encoded_cache` are state; theorem `materializer_reuse`).

Oracle (implementation only, plain Python): the three statements of the property, with "null" decided by an
independent per-cell definition (None / NaN / pandas.NA / NaT in the evaluated factor values), plus
(stateless formulas) equality of every part with the matrix built from the sub-frame of the expected rows. For a history the three
statements are demanded of EVERY call on the reused object (with that call's factors and that call's drop set), and the
rows, labels, cell values, drop set and null error of each call are compared with those of the same call on a new object
(whose equality with the sub-frame matrix is what the single-call stream checks).
"""
from __future__ import annotations

import math
import os

import numpy
import pandas

PROPERTY = "C06"
ENGINE = "c06"
REQUIRED_THEOREMS = [
    "find_nulls_rows",
    "find_nulls_answers_iff",
    "drop_rows_positional",
    "drop_rows_positions_outside",
    "drop_rows_order_and_repeats_irrelevant",
    "drop_rows_without_rows",
    "sorted_drop_rows",
    "dispatch_tables_match_package",
    "na_action_text",
    "na_action_call",
    "null_rows_exact",
    "kept_rows_by_cells",
    "drop_exact",
    "dropset_reported",
    "raise_iff",
    "ignore_keeps",
    "uncheckable_factor_raises",
    "null_check_error_iff",
    "raise_and_ignore_leave_caller_set",
    "caller_set_after_success",
    "drop_failure_adds_only_null_rows",
    "shared_set_survives_non_drop_call",
    "encoders_consistent",
    "per_part_calls",
    "entry_points_forward",
    "materializer_reuse",
    "reuse_drop_exact",
    "reuse_raise_ignore",
]
TRUSTED = [
    "parameter: which CELLS of an evaluated factor are null (per cell, decided in the harness by an independent definition: "
    "None, NaN, pandas.NA, NaT) and the TYPE of the evaluated value (which find_nulls / as_columns / drop_rows overload it "
    "reaches) — read from materializer.factor_cache of a probe run with na_action='ignore'; what find_nulls does with them "
    "(row-wise any, union over dict members, errors) is computed by the model and compared",
    "generated: the members of NAAction and the singledispatch registries of find_nulls / drop_rows (Gen/NullTables.lean, "
    "from the live package; theorem dispatch_tables_match_package ties the model's 'no implementation' cases to them)",
    "modelled, not verified: pandas/numpy/narwhals/scipy row selection primitives themselves (boolean mask indexing, "
    "numpy.delete, Index.delete, narwhals filter, CSR mask indexing), modelled as positional filters; scipy.sparse.find as "
    "'the stored non-zero entries' (a sparse matrix is described by its dense cells); factor evaluation; the encoders' values "
    "(only their row handling is modelled)",
    "modelled: a value declared to be of kind 'constant' is folded into its term as `scale * _encode_constant(1, …)` = "
    "`x * ones(nrows - len(drop_rows))` without any drop_rows call (Encoder.constant); a factor that evaluates to None is "
    "left out of its terms (`_get_scoped_terms`)",
    "not modelled: whether the container of a given materializer / output type accepts a CONSTANT column (pandas output of "
    "PandasMaterializer does; numpy / sparse output does not: those calls fail identically without any null, and are excused); "
    "what becomes of values that cannot be columns (0-d / >2-d arrays, sparse or unknown objects, 2-d members of dicts) after "
    "the null check — the model answers NotColumns and only the null check is compared; interaction terms are compared "
    "through their factors (the model has no term level); the order in which the pooled factors are null-checked is the "
    "iteration order of a Python set: when several factors fail the check, which error is reported is not compared",
    "histories: the model keeps the materializer object's factor_cache / encoded_cache as state (keys = factor expressions; "
    "the (expr, reduced_rank) refinement of the encoded_cache key is not modelled — unobservable when the caches are emptied "
    "per call, theorem materializer_reuse); transform/encoder state carried by a replayed spec is not modelled (C04/C18); a call "
    "that raises for reasons other than nulls (a contrast whose reference level does not exist, a 3-d array) is made, and the "
    "calls after it on the same object are compared with calls on new objects — the failing call itself is not predicted",
    "the caller's set after a DROP call whose null check raised holds what the factors checked before the failing one "
    "added: that order is the iteration order of a Python set, so this content is bounded by the oracle (caller's rows plus "
    "null rows) and, in shared-set histories, the model continues from the observed content; after every other outcome the "
    "set is predicted exactly",
    "not modelled: drop positions that are negative, frames whose transforms return a Series with an index different from "
    "the data's, lists / arrays whose length differs from the number of rows (pandas broadcasts some of them)",
]
ASSUMPTIONS = [
    "the caller's drop set contains row positions of the data (0 <= i < nrows); positions outside the frame are exercised "
    "as a malformed stream through the correspondence only",
    "under na_action='ignore' with a caller-supplied drop set the oracle only demands that no row outside the caller's "
    "list is removed (the property text says 'every row is kept' and does not speak about the caller's list there)",
    "ModelSpecs whose parts name different materializers are generated one by one (entry 'nonjoint'); the oracle demands of "
    "them what it demands of every entry point: all parts hold the rows that are null in NO part and not listed by the "
    "caller, and the caller's set is the set of rows removed from every part",
    "a constant factor that is null (`{float('nan')}`) counts as 'has a null' for the raise policy (the error is find_nulls' "
    "'Constant value is null'); under the drop policy the property text asks for a matrix without rows while the code raises: "
    "known finding C06-F1 (pinned by tests/utils/test_null_handling.py)",
    "values no encoder can turn into columns whatever the policy (3-d arrays, unknown objects, 0-d arrays) fail under every "
    "policy; the oracle treats a failure that also occurs on the null-free sub-frame as outside the property",
    "a DROP call that RAISES after factor evaluation began (a contrast that cannot be built, an unknown name, a null check that "
    "fails on a later factor) returns nothing, yet leaves in the caller's set the null rows of the factors checked before the "
    "failure (no rollback; which factors those are is the iteration order of a Python set): the oracle only bounds that content "
    "(caller's rows plus null rows, theorem drop_failure_adds_only_null_rows); 'the set equals the rows removed' is demanded of "
    "calls that return (reviewers' item d5, left as is)",
    "negative drop positions (numpy-style: -1 = last row) are outside the generated class: the code neither rejects nor "
    "normalises them, so the row is removed while the set keeps the negative number, and `nrows - len(drop_rows)` is wrong when a "
    "row is listed under both spellings (reviewers' item d7, left as is)",
    "'pandas output' = output='pandas' AND the pandas frame that output='narwhals' hands back for pandas-backed data (bare or "
    "narwhals-wrapped): both must carry the labels of the kept rows; frames without row labels (pyarrow) are not checked for labels",
    "pandas' own 1-d arrays (Categorical, masked / string / Arrow-backed ExtensionArrays) and Index objects are, to the model, 1-d "
    "arrays without row labels (Value.array1): null cells by the per-cell definition on `.tolist()`, removal by position",
]
RULE = (
    "frames of 1-12 rows: float columns a,b,c (NaN), nullable Int64 k (pandas.NA), object text A (None), Categorical B (NaN), "
    "row-id column rid; index in {default, unique strings, non-unique ints/strings, unsorted ints}; data given as pandas "
    "frame, pyarrow table, plain dict of columns (of scalars: one row), numpy recarray or narwhals-wrapped frame; "
    "formulas of 1-3 parts (simple, `l ~ r`, `l ~ r1 | r2`, `r1 | r2`, empty part `~ 0`), each part rid + 0-3 "
    "terms over names, I(), {}, C(), C(, contr.sum), hashed(), center, scale, poly, bs, interactions, AND value-shaped Python "
    "factors: constants ({1.5}, {2}, {True}, {NAN}, numpy float32/int64/bool scalars, {v.max()}, {k.max()}), lists, 1-d / 2-d / "
    "0-d / 3-d arrays, data frames, dicts (mixed Series / list / array / constant members, hidden `__` members, nested), "
    "categorical dicts (FactorValues(dict, kind='categorical')), values of kind 'constant', a factor that evaluates to None, "
    "unknown objects, C()/hashed() of lists and arrays; numpy arrays of strings / Python objects (np.where / np.select of text, "
    "np.array(list, dtype=object), 1-d / 2-d / 0-d, bare and inside C() / hashed() / dicts), pandas' own arrays (pd.Categorical, pd.cut, "
    "pd.array Float64 / Int64 / string) and pd.Index values, bare and inside C() / hashed() / dicts; "
    "x na_action (string | NAAction member | invalid string) x caller drop set (none / empty / random subset) x entry point "
    "(sugar, formula, modelspec +-overrides +-fitted, modelspecs +-overrides +-fitted, materializer, per-spec generation (parts naming different materializers)) x output "
    "x materializer. "
    "PLUS histories on one materializer object (PandasMaterializer / NarwhalsMaterializer over pandas or pyarrow data): 2-4 "
    "get_model_matrix calls, each with its own formula (terms drawn from a pool shared by the history, so factors recur; or "
    "the ModelSpec(s) an earlier call returned), na_action, output type and caller drop set (none / empty / random subset); "
    "about a quarter of the calls RAISE after their factors were evaluated (unknown contrast reference level, 3-d array, "
    "unknown object, nulls under raise) and the later calls reuse their factors; every call observed on the reused object and "
    "on a new one. "
    "PLUS an infinite-cells sub-stream (a tenth of the numeric cells +-inf — not null; column_stack([x, -x]), raw poly, frames "
    "and dicts holding both signs in one row; also in the unit stream and in a fifth of the histories). "
    "PLUS shared-set histories: ONE caller set object handed to 2-3 calls through different entry points, first a raising "
    "raise-policy call, then ignore / drop / raise calls on the same or the null-free data; every call observed on the shared "
    "object and with a fresh copy of its content; the set is read after EVERY call, also after a raising one. "
    "PLUS a native-output sub-stream: NarwhalsMaterializer with output 'narwhals' over labelled pandas frames (bare / "
    "narwhals-wrapped), a third of them with a part without columns (`~ 0`): the pandas frame that comes back must carry the labels "
    "of the kept rows. "
    "PLUS unit cases: find_nulls / drop_rows called directly on every value type (bare / FactorValues-wrapped; object / string "
    "ndarrays, Categorical, Float64 extension array and Index included), indices "
    "sorted / unsorted / repeated / tuple / out of range / empty. "
    "non-trivial = drop policy, at least one row removed and one kept (unit: a value with rows and a non-empty index list "
    "or a null cell); distinct by canonical JSON"
)

VARIANT = os.environ.get("VERIF_C06_VARIANT", "current")

# ----------------------------------------------------------------------------- generators

NUM = ["a", "b", "c"]
# (terms whose values depend on which rows are present: the sub-frame comparison does not apply to them)
# (a Categorical made inside the formula takes its levels from the rows that are present, and keeps them when rows go)
STATEFUL = ("center(", "scale(", "poly(", "bs(", ".max()", "len(", "pd.Categorical(", "pd.cut(")
NULLCHECK = ("NullsPresent", "ConstantNull", "TooManyDims", "NoFindNulls")


def FR(*cols):
    """(formula context) a data frame made of columns of the data (keeps the row labels of a pandas frame)"""
    return pandas.DataFrame({f"c{i}": (c if isinstance(c, pandas.Series) else c.to_pandas()) for i, c in enumerate(cols)})


class Opaque:
    """(formula context) an object of a type neither find_nulls nor drop_rows knows"""


def CAT(**cols):
    """(formula context) a dict of columns declared categorical: every member is dummy-coded after its rows were dropped"""
    from formulaic.materializers.types import FactorValues

    return FactorValues(dict(cols), kind="categorical", spans_intercept=False)


def KONST(x):
    """(formula context) a value of kind 'constant': encoded by `_encode_constant` as x * ones(nrows - len(drop_rows))"""
    from formulaic.materializers.types import FactorValues

    return FactorValues(x, kind="constant")


# names that value-shaped Python factors may use (passed as `context=` to every entry point)
CTX = {"np": numpy, "pd": pandas, "FR": FR, "NAN": float("nan"), "Opaque": Opaque, "CAT": CAT, "KONST": KONST, "NONE": lambda: None}


INF_STREAM = [False]  # (set while a case of the infinite-cells sub-stream is being generated)


def gen_value_term(rng):
    """a Python factor whose VALUE is not a plain column: constant, list, array of any rank, data frame, dict, object"""
    v, w = rng.sample(NUM, 2)
    pool = [
        # constants
        "{1.5}", "{2}", "{True}", "{NAN}", "{NONE()}", "{np.float32(2.5)}", "{np.int64(3)}", "{np.bool_(True)}", "{np.float64(NAN)}",
        f"{{{v}.max()}}", "{k.max()}",
        # one column, other storage
        f"{{{v}.to_list()}}", f"{{{v}.to_list()}}", f"{{{v}.to_numpy()}}", f"{{{v}.to_numpy()}}",
        # tables
        f"{{np.stack([{v}.to_numpy(), {w}.to_numpy()], axis=1)}}", f"{{{v}.to_numpy().reshape(-1, 1)}}",
        f"{{np.stack([{v}.to_numpy(), {w}.to_numpy()], axis=1)}}", f"{{FR({v}, {w})}}", f"{{FR({v})}}", f"{{FR({v}, {w}, rid)}}",
        # dicts
        f"{{dict(u={v}, w={w}.to_list())}}", f"{{dict(u={v}.to_numpy(), w={w})}}", f"{{dict(__h={v}, u={w})}}",
        f"{{dict(u=dict(p={v}, q={w}.to_numpy()), s=1.5)}}", f"{{dict(u=1.5, w={w})}}", f"{{dict(u={v}, __h=NAN)}}",
        f"{{dict(p={v}.to_list(), q=dict(__z={w}.to_list(), r=rid))}}", "{CAT(u=A, w=B)}", "{CAT(u=B)}",
        "{KONST(2.5)}", "{KONST(NAN)}",
        # what cannot be a column
        "{np.array(1.5)}", "{np.array(NAN)}", f"{{np.zeros((len({v}), 1, 1))}}", "{Opaque()}",
        # the explicit encoders on other storage
        "C(A.to_list())", f"C({v}.to_numpy())", "hashed(A.to_list(), levels=3)", f"hashed({v}.to_list(), levels=2)",
    ]
    # numpy arrays of strings / Python objects (no float dtype: numpy.isnan is undefined on them)
    pool += [
        f"C(np.where({v}.to_numpy() > 4, 'hi', 'lo'))", f"C(np.select([{v}.to_numpy() > 6, {w}.to_numpy() > 3], ['h', 'm'], 'l'))",
        "C(np.array(A.to_list(), dtype=object))", "{np.array(A.to_list(), dtype=object)}", f"{{np.array({v}.to_list(), dtype=object)}}",
        f"C(np.array({v}.to_list(), dtype=object))", f"{{np.array([{v}.to_list(), {w}.to_list()], dtype=object).T}}",
        "{np.array(A.to_list(), dtype=object)}", f"hashed(np.array(A.to_list(), dtype=object), levels=3)",
        f"{{dict(u=np.array({v}.to_list(), dtype=object), w={w})}}", "{np.array(None, dtype=object)}", "{np.array('s')}",
    ]
    # pandas' own 1-d arrays (Categorical, masked / string extension arrays) and Index objects
    pool += [
        "{pd.Categorical(A.to_list())}", "{pd.Categorical(B.to_list())}", "C(pd.Categorical(A.to_list()))",
        f"{{pd.cut({v}.to_numpy(), 2)}}", f"{{pd.array({v}.to_list(), dtype='Float64')}}", "{pd.array(k.to_list(), dtype='Int64')}",
        f"{{pd.Index({v}.to_list(), dtype=float)}}", "{pd.Index(A.to_list())}", "C(pd.Index(A.to_list()))", f"C(pd.array({v}.to_list(), dtype='Float64'))",
        "{pd.array(A.to_list(), dtype='string')}", f"hashed(pd.Index({v}.to_list(), dtype=float), levels=2)",
        f"{{dict(u=pd.array({v}.to_list(), dtype='Float64'), w=pd.Index({w}.to_list(), dtype=float))}}",
    ]
    return rng.choice(pool)


def gen_inf_term(rng):
    """multi-column (and single-column) values in which an infinite cell of the data shows up with BOTH signs in one row:
    the row holds no null (a row sum would be NaN)"""
    v, w = rng.sample(NUM, 2)
    return rng.choice([
        f"{{np.column_stack([{v}.to_numpy(), -{v}.to_numpy()])}}", f"{{np.column_stack([{v}.to_numpy(), -{v}.to_numpy(), {w}.to_numpy()])}}",
        f"poly({v}, 2, raw=True)", f"poly({v}, 3, raw=True)", f"{{FR({v}, -{v})}}", f"{{FR({v}, {w}, -{v})}}",
        f"{{dict(u={v}, w=-{v})}}", f"{{dict(u={v}.to_numpy(), w=dict(p=(-{v}).to_list()))}}",
        f"{{-{v}}}", f"{{{v}.to_numpy()}}", f"{{(-{v}).to_list()}}", v, f"I(-{v})",
    ])


FAULTS = ["C(A, contr.treatment(base='w'))", "C(B, contr.treatment(base='w'))", "{np.zeros((len(a), 1, 1))}", "{Opaque()}"]


def gen_index(rng, n):
    kind = rng.choice(["default", "default", "string", "nonunique", "nonunique", "unsorted"])
    if kind == "default":
        labels = list(range(n))
    elif kind == "string":
        labels = [f"r{j}" for j in rng.sample(range(3 * n + 2), n)]
    elif kind == "unsorted":
        labels = rng.sample(range(-2, 2 * n + 3), n)
    else:
        pool = rng.randint(1, max(1, n - 1))
        labels = [rng.randrange(pool) for _ in range(n)]
        if rng.random() < 0.3:
            labels = [f"g{j}" for j in labels]
    return {"kind": kind, "labels": labels}


def num(x):
    """a numeric cell of the generated data: None -> NaN, "inf" / "-inf" -> the infinities, else the number"""
    if x is None:
        return numpy.nan
    if isinstance(x, str):
        return float(x)
    return float(x)


def gen_data(rng, n, infs=False):
    """`infs`: about a tenth of the numeric cells are +inf / -inf — not null, whatever is in the same row"""
    pnull = rng.choice([0.0, 0.1, 0.25, 0.5])
    data = {}
    for v in NUM:
        data[v] = [None if rng.random() < pnull else rng.randint(1, 9) for _ in range(n)]
        if infs:
            data[v] = [rng.choice(["inf", "-inf"]) if x is not None and rng.random() < 0.12 else x for x in data[v]]
    data["k"] = [None if rng.random() < pnull / 2 else rng.randint(0, 5) for _ in range(n)]
    data["A"] = [None if rng.random() < pnull else rng.choice(["x", "y", "z"]) for _ in range(n)]
    data["B"] = [None if rng.random() < pnull else rng.choice(["u", "v"]) for _ in range(n)]
    return data


def gen_term(rng, allow_stateful=True):
    v, w = rng.sample(NUM, 2)
    cat = rng.choice(["A", "B"])
    pool = [
        v, v, "k", f"I({v} + 1)", f"{{{v} * 2}}", cat, cat, f"C({cat})", f"C({cat}, contr.sum)", f"C({v})",
        f"hashed({cat}, levels=3)", f"hashed({v}, levels=2)", f"{v}:{w}", f"{v}:{cat}", "A:B", f"C({cat}):{w}",
        f"hashed({cat}, levels=2):{v}",
    ]
    if allow_stateful:
        pool += [f"center({v})", f"scale({v})", f"poly({v}, 2)", f"bs({v}, df=3)"]
    if INF_STREAM[0] and rng.random() < 0.6:
        return gen_inf_term(rng)
    if rng.random() < 0.3:
        return gen_value_term(rng)
    return rng.choice(pool)


def gen_part(rng, pool=None):
    terms = ["rid"]
    for _ in range(rng.choice([0, 1, 1, 2, 2, 3])):
        if pool and rng.random() < 0.75:
            t = rng.choice(pool)  # (histories) a term other calls on the same object use as well
        else:
            t = gen_term(rng, allow_stateful=rng.random() < 0.3)
        if t not in terms:
            terms.append(t)
    pre = rng.choice(["", "", "", "0 + ", "-1 + "])
    return pre + " + ".join(terms)


def gen_formula(rng, pool=None):
    r = rng.random()
    if r < 0.5:
        return gen_part(rng, pool), 1
    if r < 0.75:
        return gen_part(rng, pool) + " ~ " + gen_part(rng, pool), 2
    if r < 0.83:
        return gen_part(rng, pool) + " ~ 0", 2
    if r < 0.93:
        return gen_part(rng, pool) + " ~ " + gen_part(rng, pool) + " | " + gen_part(rng, pool), 3
    return gen_part(rng, pool) + " | " + gen_part(rng, pool), 2


def gen_caller(rng, n):
    r = rng.random()
    if r < 0.3:
        return None
    if r < 0.4:
        return []
    return sorted(set(rng.randrange(n) for _ in range(rng.randint(1, max(1, n // 2)))))


def gen_history(rng, tier):
    """2-3 get_model_matrix calls on ONE materializer object: formulas over a shared pool of terms (or the spec an
    earlier call returned), each call with its own null policy, output type and caller drop set"""
    n = rng.randint(2, 12) if rng.random() < 0.85 else rng.randint(1, 4)
    frame = "arrow" if rng.random() < 0.15 else "pandas"
    index = gen_index(rng, n) if frame == "pandas" else {"kind": "default", "labels": list(range(n))}
    mat = "narwhals" if frame == "arrow" else rng.choice(["pandas", "pandas", "narwhals"])
    outs = ["pandas", "pandas", "numpy", "sparse"] + (["narwhals"] if mat == "narwhals" else [])
    pool = []
    for _ in range(rng.randint(2, 5)):
        t = gen_term(rng, allow_stateful=rng.random() < 0.2)
        if t not in pool:
            pool.append(t)
    calls = []
    for i in range(rng.choice([2, 2, 3, 3, 4])):
        replay = None
        fault = None
        if i > 0 and rng.random() < 0.2:
            replay = rng.randrange(i)  # pass the ModelSpec(s) that call `replay` returned (its formula when it raised)
            formula = calls[replay]["formula"]
        else:
            formula, _ = gen_formula(rng, pool)
            if rng.random() < 0.25:
                # a call that RAISES after (most of) its factors were evaluated: the later calls find them in the caches
                fault = rng.choice(FAULTS)
                formula = formula + " + " + fault
        calls.append(dict(
            formula=formula,
            replay=replay,
            fault=fault,
            policy=rng.choice(["drop", "drop", "drop", "raise", "raise", "ignore"]),
            caller=gen_caller(rng, n),
            output=rng.choice(outs),
        ))
    # how THE object is obtained: the materializer class called on the data, or `ModelSpec.get_materializer(data)`
    return dict(kind="history", nrows=n, data=gen_data(rng, n, infs=rng.random() < 0.2), index=index, frame=frame, mat=mat, calls=calls,
                obj=rng.choice(["class", "class", "spec"]))


def gen_case(rng, tier, malformed=False, infs=False):
    INF_STREAM[0] = infs
    try:
        return _gen_case(rng, tier, malformed, infs)
    finally:
        INF_STREAM[0] = False


def _gen_case(rng, tier, malformed=False, infs=False):
    n = rng.randint(1, 12) if rng.random() < 0.85 else rng.randint(1, 4)
    formula, nparts = gen_formula(rng)
    while malformed and formula.endswith("~ 0"):  # (an empty part with more drop positions than rows: not modelled)
        formula, nparts = gen_formula(rng)
    r = rng.random()
    frame = ("arrow" if r < 0.12 else "dict" if r < 0.17 else "recarray" if r < 0.2 else "nwframe" if r < 0.25 else "pandas")
    data = gen_data(rng, n, infs)
    if frame == "dict" and n == 1 and not any(data[v][0] is None for v in ("k", "A", "B")):
        frame = "scalars"
    index = gen_index(rng, n) if frame in ("pandas", "nwframe") else {"kind": "default", "labels": list(range(n))}
    structured = nparts > 1
    if structured:
        entry = rng.choice(["sugar", "formula", "modelspecs", "modelspecs", "materializer", "nonjoint"])
        if entry == "nonjoint" and (frame != "pandas" or nparts < 2):
            entry = "modelspecs"
    else:
        entry = rng.choice(["sugar", "formula", "modelspec", "modelspec", "materializer"])
    mat = ("narwhals" if frame in ("arrow", "nwframe") else "pandas" if frame in ("dict", "scalars", "recarray")
           else rng.choice(["pandas", "pandas", "pandas", "narwhals"]))
    outs = ["pandas", "pandas", "numpy", "sparse"] + (["narwhals"] if mat == "narwhals" and entry != "nonjoint" else [])
    r = rng.random()
    if malformed:
        caller = sorted(set([n + rng.randint(0, 2)] + [rng.randrange(n) for _ in range(rng.randint(0, 2))]))
    elif r < 0.3:
        caller = None
    elif r < 0.4:
        caller = []
    else:
        caller = sorted(set(rng.randrange(n) for _ in range(rng.randint(1, max(1, n // 2)))))
    return dict(
        kind="oor" if malformed else "call",
        nrows=n,
        data=data,
        index=index,
        frame=frame,
        formula=formula,
        policy=rng.choice(["drop", "drop", "drop", "raise", "ignore"]),
        # how the caller writes the policy: its string, the NAAction member, or a string that is no policy
        na=rng.choice(["text", "text", "member", "member", "bad"]) if rng.random() < 0.5 else "text",
        bad_na=rng.choice(["Drop", "omit", "", "DROP", "none", "drop ", "raise!"]),
        caller=caller,
        entry=entry,
        overrides=rng.random() < 0.5,
        # (a fitted structured spec keeps each factor's encoder state in ONE part only, so re-using it one part per call
        #  is a spec-replay matter, C04 — not exercised here)
        fitted=rng.random() < 0.3 and entry != "nonjoint",
        output=rng.choice(outs),
        mat=mat,
    )


def gen_native(rng, tier):
    """NarwhalsMaterializer with its default output ("narwhals": the native frame) over a labelled pandas frame (bare or
    narwhals-wrapped): what comes back is a pandas frame and must carry the labels of the kept rows — also a part without
    columns (`~ 0`)"""
    c = gen_case(rng, tier)
    if rng.random() < 0.35:
        part = gen_part(rng)
        c["formula"] = rng.choice([part + " ~ 0", part + " ~ 0", "0 ~ " + part, part + " ~ 0 | " + gen_part(rng)])
        c["entry"] = rng.choice(["sugar", "formula", "modelspecs", "materializer"])
    if c["frame"] not in ("pandas", "nwframe"):
        c["frame"] = rng.choice(["pandas", "pandas", "nwframe"])
        c["index"] = gen_index(rng, c["nrows"])
    if c["entry"] == "nonjoint":
        c["entry"] = "modelspecs"
    c["mat"], c["output"] = "narwhals", "narwhals"
    return c


def gen_sethist(rng, tier):
    """ONE caller set object handed, as drop_rows, to 2-3 calls through different entry points; the first call has the
    raise policy on data with nulls (it raises: the set must stay as it was); the later calls — ignore, drop, raise, on
    the same data or on the data with the nulls filled in — must treat the set as the caller wrote it"""
    n = rng.randint(2, 10)
    data = gen_data(rng, n, infs=rng.random() < 0.2)
    while not any(x is None for v in NUM for x in data[v]):
        data = gen_data(rng, n)
    index = gen_index(rng, n)
    original = sorted(set(rng.randrange(n) for _ in range(rng.randint(0, max(1, n // 3)))))
    withnull = [v for v in NUM if any(x is None for x in data[v])]
    calls = []
    for i in range(rng.choice([2, 3, 3])):
        formula, nparts = gen_formula(rng)
        while formula.endswith("~ 0"):
            formula, nparts = gen_formula(rng)
        if i == 0:
            formula = formula + " + " + rng.choice(withnull)  # a factor that has nulls: the raise policy raises
        structured = nparts > 1
        entry = rng.choice(["sugar", "formula", "modelspecs", "materializer", "nonjoint"] if structured
                           else ["sugar", "formula", "modelspec", "modelspec", "materializer"])
        mat = rng.choice(["pandas", "pandas", "narwhals"])
        outs = ["pandas", "numpy", "sparse"] + (["narwhals"] if mat == "narwhals" and entry != "nonjoint" else [])
        calls.append(dict(
            formula=formula, entry=entry, mat=mat, output=rng.choice(outs), overrides=rng.random() < 0.5,
            policy="raise" if i == 0 else rng.choice(["drop", "drop", "ignore", "raise"]),
            na=rng.choice(["text", "member"]),
            data="same" if i == 0 else rng.choice(["same", "same", "nullfree"]),
        ))
    return dict(kind="sethist", nrows=n, data=data, index=index, original=original, calls=calls)


def sethist_call(c, k, caller):
    """call `k` of a shared-set history as a single-call case whose caller set holds `caller`"""
    data = c["data"]
    if k["data"] == "nullfree":
        data = {name: [({"A": "x", "B": "u"}.get(name, 1) if x is None else x) for x in col] for name, col in data.items()}
    return dict(kind="call", nrows=c["nrows"], data=data, index=c["index"], frame="pandas", mat=k["mat"],
                formula=k["formula"], policy=k["policy"], na=k["na"], bad_na="", caller=caller, output=k["output"],
                entry=k["entry"], overrides=k["overrides"], fitted=False)


UNIT_TYPES = ["none", "str", "int", "float", "nan", "bool", "np_float64", "np_nan", "np_float32", "np_int64", "np_bool",
              "list", "list", "dict", "dict", "nw", "nw_arrow", "series", "series", "series_idx", "frame", "array0",
              "array0_nan", "array1", "array1", "array2", "array2", "array3", "csc", "csr", "tuple", "object",
              # arrays of Python objects / strings; pandas' own 1-d arrays (Categorical, masked) and Index
              "array1_obj", "array1_obj", "array1_str", "array2_obj", "array0_obj", "array0_none",
              "categorical", "categorical", "ext_float", "ext_float", "index", "index"]

CELL_TYPES = ("list", "nw", "nw_arrow", "series", "series_idx", "array1", "array1_obj", "array1_str", "categorical",
              "ext_float", "index")


def gen_cells(rng, n, pnull, pinf=0.0):
    """cell `i` holds the number `i` (so that what survives a removal is visible), None, or (pinf) an infinity"""
    return [None if rng.random() < pnull else rng.choice(["inf", "-inf"]) if rng.random() < pinf else i for i in range(n)]


def gen_unit_value(rng, depth=0, nulls=True):
    t = rng.choice(UNIT_TYPES)
    n = rng.randint(0, 7)
    pnull = rng.choice([0.0, 0.2, 0.5]) if nulls else 0.0
    pinf = rng.choice([0.0, 0.1, 0.25]) if nulls else 0.0  # (find_nulls cases only: infinite cells are not null)
    if t == "array1_str":  # (a string cannot be null)
        return dict(t=t, cells=gen_cells(rng, n, 0.0, 0.0))
    if t == "categorical":  # (levels are finite numbers)
        return dict(t=t, cells=gen_cells(rng, n, pnull, 0.0))
    if t in CELL_TYPES:
        return dict(t=t, cells=gen_cells(rng, n, pnull, pinf))
    if t in ("frame", "array2", "array2_obj", "csc", "csr"):
        k = rng.randint(0, 3)
        cols = [gen_cells(rng, n, pnull, pinf) for _ in range(k)]
        if pinf and k >= 2:
            for i in range(n):  # +inf and -inf in ONE row (the row sum is NaN, the row holds no null)
                if rng.random() < 0.3:
                    cols[0][i], cols[1][i] = rng.choice([("inf", "-inf"), ("-inf", "inf")])
        return dict(t=t, n=n, cols=cols)
    if t == "array3":
        return dict(t=t, n=n)
    if t == "dict":
        items = []
        for j in range(rng.randint(0, 3)):
            key = rng.choice(["u", "v", "__h", "w"]) + str(j)
            sub = gen_unit_value(rng, depth + 1, nulls) if depth < 2 else dict(t="list", cells=gen_cells(rng, n, pnull, pinf))
            items.append([key, sub])
        return dict(t=t, items=items)
    return dict(t=t)


def gen_unit(rng, tier):
    op = rng.choice(["find_nulls", "drop_rows", "drop_rows"])
    # (drop_rows: every cell holds its row number, so that what is left can be read off; nulls play no role there)
    value = gen_unit_value(rng, nulls=op == "find_nulls")
    c = dict(kind="unit", op=op, value=value, wrap=rng.random() < 0.3)
    if op == "drop_rows":
        n = value.get("n", len(value.get("cells", []))) or 0
        r = rng.random()
        if r < 0.15:
            idx = []
        elif r < 0.85:
            idx = [rng.randrange(max(1, n)) for _ in range(rng.randint(1, max(1, n)))]  # unsorted, may repeat
            if rng.random() < 0.5:
                idx = sorted(set(idx))
        else:
            idx = [rng.randrange(max(1, n)) for _ in range(rng.randint(0, 2))] + [n + rng.randint(0, 2)]  # outside
        c["indices"] = idx
        c["as_tuple"] = rng.random() < 0.25
        # pandas row labels of a Series with an index of its own (non-unique on purpose)
        c["labels"] = [rng.randrange(max(1, n // 2 + 1)) for _ in range(n)]
    return c


def cases(rng, tier):
    n = {"quick": 1400, "thorough": 9000, "search": 250}[tier]
    for _ in range(n):
        yield gen_case(rng, tier)
    for _ in range(max(6, n // 40)):
        yield gen_case(rng, tier, malformed=True)
    for _ in range({"quick": 220, "thorough": 1500, "search": 60}[tier]):
        yield gen_case(rng, tier, infs=True)  # infinite cells (not null), both signs in one row of multi-column values
    for _ in range({"quick": 120, "thorough": 900, "search": 60}[tier]):
        yield gen_native(rng, tier)  # NarwhalsMaterializer, output "narwhals" on pandas-backed data: a pandas frame comes back
    for _ in range({"quick": 110, "thorough": 1200, "search": 60}[tier]):
        yield gen_history(rng, tier)
    for _ in range({"quick": 140, "thorough": 1200, "search": 60}[tier]):
        yield gen_sethist(rng, tier)
    for _ in range({"quick": 500, "thorough": 4000, "search": 120}[tier]):
        yield gen_unit(rng, tier)


def describe(c):
    if c["kind"] == "sethist":
        return "sharedset[" + "/".join(f"{k['entry']}:{k['policy']}" for k in c["calls"]) + "]"
    if c["kind"] == "unit":
        return f"unit:{c['op']}:{c['value']['t']}{'(wrapped)' if c['wrap'] else ''}"
    if c["kind"] == "history":
        pols = "/".join(k["policy"] + ("*" if k.get("replay") is not None else "") + ("!" if k.get("fault") else "")
                        for k in c["calls"])
        return f"history[{pols}],{c['mat']}/{c['frame']},idx={c['index']['kind']}"
    return (f"{c['entry']},{c['policy']}{'' if c.get('na', 'text') == 'text' else ':' + c['na']},{c['mat']}/{c['frame']},"
            f"{c['output']},idx={c['index']['kind']},caller={'none' if c['caller'] is None else 'set'}")


def _has_null(c):
    return any(v is None for col in c["data"].values() for v in col)


def _unit_has_rows(v):
    if v["t"] == "dict":
        return any(_unit_has_rows(x) for _, x in v["items"])
    return bool(v.get("n") or v.get("cells"))


def _unit_has_null(v):
    if v["t"] == "dict":
        return any(_unit_has_null(x) for _, x in v["items"])
    return any(x is None for col in ([v["cells"]] if "cells" in v else v.get("cols", [])) for x in col)


def nontrivial(c):
    if c["kind"] == "sethist":
        return True
    if c["kind"] == "unit":
        if c["op"] == "drop_rows":
            return _unit_has_rows(c["value"]) and bool(c["indices"])
        return _unit_has_null(c["value"])
    if c["kind"] == "history":
        return c["nrows"] >= 2 and any(k["policy"] == "drop" and (_has_null(c) or bool(k["caller"])) for k in c["calls"])
    return c["kind"] == "call" and c["policy"] == "drop" and (_has_null(c) or bool(c["caller"])) and c["nrows"] >= 2


# ----------------------------------------------------------------------------- frames


def lab(x):
    if isinstance(x, str):
        return "s:" + x
    return "i:" + str(int(x))


def make_frame(c):
    n, d = c["nrows"], c["data"]
    if c["frame"] == "arrow":
        import pyarrow as pa

        cols = {"rid": pa.array([float(i) for i in range(n)], type=pa.float64())}
        for v in NUM:
            cols[v] = pa.array([None if x is None else num(x) for x in d[v]], type=pa.float64())
        cols["k"] = pa.array(d["k"], type=pa.int64())
        cols["A"] = pa.array(d["A"], type=pa.string())
        cols["B"] = pa.array(d["B"], type=pa.string())
        return pa.table(cols)
    cols = {"rid": numpy.arange(n, dtype=float)}
    for v in NUM:
        cols[v] = numpy.array([num(x) for x in d[v]], dtype=float)
    cols["k"] = pandas.array(d["k"], dtype="Int64")
    cols["A"] = pandas.Series(d["A"], dtype=object)  # object dtype on purpose (pandas 3 `str` dtype is D8's business)
    cols["B"] = pandas.Categorical(d["B"], categories=["u", "v"])
    df = pandas.DataFrame(cols)
    assert df["A"].dtype == object
    df.index = pandas.Index(c["index"]["labels"])
    return wrap_input(c["frame"], df)


def wrap_input(kind, df):
    """the data object handed to formulaic: the pandas frame itself, or one of the other accepted containers"""
    if kind == "dict":  # PandasMaterializer._init: pandas.DataFrame(dict of columns)
        return {name: df[name].values for name in df.columns}
    if kind == "scalars":  # PandasMaterializer._init: all values scalar -> a frame of one row
        return {name: df[name].iloc[0] for name in df.columns}
    if kind == "recarray":  # PandasMaterializer._init: pandas.DataFrame.from_records
        return df.to_records(index=False)
    if kind == "nwframe":  # a narwhals-wrapped pandas frame (NarwhalsMaterializer; narwhals output stays narwhals)
        import narwhals.stable.v1 as nw

        return nw.from_native(df, eager_only=True)
    return df


def subframe(data, pos):
    pos = list(pos)
    if isinstance(data, pandas.DataFrame):
        return data.iloc[pos]
    if isinstance(data, dict):
        if all(numpy.isscalar(v) for v in data.values()):
            data = {k: numpy.array([v]) for k, v in data.items()}
        return {k: v[pos] for k, v in data.items()}
    if isinstance(data, numpy.recarray):
        return data[pos]
    if hasattr(data, "to_native"):
        import narwhals.stable.v1 as nw

        return nw.from_native(nw.to_native(data).iloc[pos], eager_only=True)
    return data.take(pos)


# ----------------------------------------------------------------------------- observation helpers


def cell_is_null(x):
    """independent per-cell definition of "null" (never calls pandas.isnull / find_nulls)"""
    if x is None or x is pandas.NA or x is pandas.NaT:
        return True
    if isinstance(x, (float, numpy.floating)):
        return bool(x != x)
    if isinstance(x, (numpy.datetime64, numpy.timedelta64)):
        return bool(x != x)
    return False


def _null_pos(xs):
    return [i for i, x in enumerate(xs) if cell_is_null(x)]


def value_desc(values):
    """The SHAPE of an evaluated factor value, by the type find_nulls / as_columns / drop_rows dispatch on, with the
    positions of the null cells of every column (independent per-cell definition). This is what the model is told."""
    import scipy.sparse as spsparse

    w = getattr(values, "__wrapped__", values)
    if w is None:
        return {"t": "none"}
    if isinstance(w, dict):
        return {"t": "dict", "items": [{"hidden": isinstance(k, str) and k.startswith("__"), "v": value_desc(v)}
                                       for k, v in w.items()]}
    if isinstance(w, str):
        return {"t": "scalar", "k": "str", "null": False}
    if isinstance(w, (bool, int, float)):  # (numpy.float64 derives from float)
        return {"t": "scalar", "k": "num", "null": cell_is_null(w)}
    if isinstance(w, (numpy.number, numpy.bool_)) or w is pandas.NA or w is pandas.NaT:
        # (scalars that derive from neither int nor float: numpy numbers, pandas' null scalars)
        return {"t": "scalar", "k": "np", "null": cell_is_null(w)}
    if isinstance(w, list):
        return {"t": "list", "len": len(w), "nulls": _null_pos(w)}
    if isinstance(w, pandas.DataFrame):
        return {"t": "frame", "n": int(w.shape[0]), "cols": [_null_pos(w.iloc[:, j].tolist()) for j in range(w.shape[1])]}
    if isinstance(w, pandas.Series):
        return {"t": "series", "len": len(w), "nulls": _null_pos(w.tolist())}
    if isinstance(w, numpy.ndarray):
        if w.ndim == 0:
            return {"t": "array0", "null": cell_is_null(w.item())}
        if w.ndim == 1:
            return {"t": "array1", "len": int(w.shape[0]), "nulls": _null_pos(w.tolist())}
        if w.ndim == 2:
            return {"t": "array2", "n": int(w.shape[0]), "cols": [_null_pos(w[:, j].tolist()) for j in range(w.shape[1])]}
        return {"t": "arrayN", "n": int(w.shape[0])}
    if isinstance(w, spsparse.spmatrix):
        d = w.toarray()
        return {"t": "sparse", "csc": isinstance(w, spsparse.csc_matrix), "n": int(d.shape[0]),
                "cols": [_null_pos(d[:, j].tolist()) for j in range(d.shape[1])]}
    if isinstance(w, (pandas.api.extensions.ExtensionArray, pandas.Index)) and not isinstance(w, pandas.MultiIndex):
        # pandas' own 1-d arrays (Categorical, masked / string / Arrow-backed) and Index objects: 1-d arrays without row
        # labels (`Value.array1` in the model); "store" says which class it is (the oracle wants drop_rows to keep it)
        xs = w.tolist()
        return {"t": "array1", "len": len(xs), "nulls": _null_pos(xs), "store": _store(w)}
    if hasattr(w, "to_list") and hasattr(w, "is_null"):  # narwhals series
        xs = w.to_list()
        return {"t": "nw", "len": len(xs), "nulls": _null_pos(xs)}
    return {"t": "other", "type": type(w).__name__}


def _store(w):
    if isinstance(w, pandas.Categorical):
        return "categorical"
    if isinstance(w, pandas.Index):
        return "index"
    if isinstance(w, pandas.api.extensions.ExtensionArray):
        return "extension"
    return "ndarray"


def desc_null_rows(d):
    """rows of the described value in which some cell (of some column, of some member, hidden or not) is null"""
    t = d["t"]
    if t in ("list", "nw", "series", "array1"):
        return set(d["nulls"])
    if t in ("array2", "frame", "sparse"):
        return set(i for col in d["cols"] for i in col)
    if t == "dict":
        out = set()
        for it in d["items"]:
            out |= desc_null_rows(it["v"])
        return out
    return set()


def desc_const_null(d):
    """does the described value contain a constant (scalar / 0-d array) that is null?"""
    t = d["t"]
    if t == "scalar" and d["k"] != "str":
        return bool(d["null"])
    if t == "array0":
        return bool(d["null"])
    if t == "dict":
        return any(desc_const_null(it["v"]) for it in d["items"])
    return False


def enc_of(ef):
    enc = ef.metadata.encoder
    if enc is None:
        # (a value declared to be of kind 'constant' goes through `_encode_constant`, not through `drop_rows`)
        return "constant" if ef.metadata.kind.value == "constant" else "default"
    q = getattr(enc, "__qualname__", "")
    if q.startswith("C."):
        return "C"
    if q.startswith("hashed."):
        return "hashed"
    return "other:" + q


def _mat_class(name):
    from formulaic.materializers import NarwhalsMaterializer, PandasMaterializer

    return PandasMaterializer if name == "pandas" else NarwhalsMaterializer


def leaves(x):
    from formulaic.utils.structured import Structured

    if isinstance(x, Structured):
        return list(x._flatten())
    return [x]


def probe(c, df, matname):
    """evaluate every factor with na_action='ignore' through the materializer API and describe it"""
    from formulaic import Formula
    from formulaic.utils.null_handling import find_nulls

    m = _mat_class(matname)(df, context=CTX)
    # (the probe only wants the evaluated values: it must not depend on what the null check does under any policy)
    m._check_for_nulls = lambda *a, **k: None
    try:  # step 1 (factor evaluation) fills the cache even when building the matrix fails later
        m.get_model_matrix(c["formula"], na_action="ignore", output="numpy")
    except Exception:
        pass
    parts = []
    for sub in Formula(c["formula"])._flatten():
        exprs = []
        for t in sub:
            for f in t.factors:
                if f.eval_method.value != "literal" and f.expr not in exprs:
                    exprs.append(f.expr)
        for x in exprs:
            if x not in m.factor_cache:
                raise KeyError(f"factor {x} was not evaluated")
        parts.append({"exprs": exprs, "intercept": any(str(t) == "1" for t in sub)})
    factors = {}
    for expr, ef in m.factor_cache.items():
        if ef.factor.eval_method.value == "literal":  # (a numeric literal that scales a term: not an evaluated factor of a part)
            continue
        d = value_desc(ef.values)
        try:
            flagged = sorted(int(i) for i in find_nulls(ef.values))
        except Exception as e:  # find_nulls raises for some values; which ones is the model's business
            flagged = {"error": err_kind(e)}
        factors[expr] = {
            "value": d,
            "nulls": flagged,  # what the implementation's find_nulls says (oracle only; the model is not told)
            "ind": sorted(desc_null_rows(d)),
            "const_null": desc_const_null(d),
            "enc": enc_of(ef),
        }
    return {"parts": parts, "factors": factors}


def err_kind(e):
    name, msg = type(e).__name__, str(e)
    if isinstance(e, ValueError) and "contains null values after evaluation" in msg:
        return "NullsPresent"
    if isinstance(e, ValueError) and "Constant value is null" in msg:
        return "ConstantNull"
    if isinstance(e, ValueError) and "Cannot check for null indices for arrays of more than 2 dimensions" in msg:
        return "TooManyDims"
    if isinstance(e, ValueError) and "No implementation of `find_nulls()`" in msg:
        return "NoFindNulls"
    if isinstance(e, ValueError) and "No implementation of `drop_rows()`" in msg:
        return "NoDropRows"
    if isinstance(e, ValueError) and "is not a valid NAAction" in msg:
        return "InvalidNAAction"
    if isinstance(e, IndexError):
        return "IndexError"
    if name in ("ValueError", "ArrowInvalid") and any(
        s in msg for s in ("Length of values", "must match", "expected length", "incompatible dimensions", "same length",
                           "could not be broadcast", "same shape", "All arrays must be of the same length", "dimension")
    ):
        return "LengthMismatch"
    return "Other:" + name


def observe_part(mm, output):
    spec = mm.model_spec
    names = [str(x) for x in spec.column_names]
    if output == "pandas":
        arr = numpy.asarray(mm.values if hasattr(mm, "values") else mm)
        idx = [lab(x) for x in mm.index]
        names = [str(x) for x in mm.columns]
    elif output == "sparse":
        arr, idx = mm.toarray(), None
    elif output == "narwhals":
        # the native frame (or a narwhals frame around it): when that is a pandas frame it has row labels
        idx = None
        native = mm.to_native() if hasattr(mm, "to_native") else getattr(mm, "__wrapped__", mm)
        if isinstance(native, pandas.DataFrame):
            idx = [lab(x) for x in native.index]
        if hasattr(mm, "to_numpy"):
            arr = numpy.asarray(mm.to_numpy())
            if hasattr(mm, "columns"):
                names = [str(x) for x in mm.columns]
        elif hasattr(mm, "to_pandas"):
            arr = mm.to_pandas().values
            names = [str(x) for x in mm.column_names]
        else:
            arr = numpy.asarray(mm)
    else:
        arr, idx = numpy.asarray(mm), None
    arr = numpy.asarray(arr)
    if arr.ndim != 2:
        arr = arr.reshape((arr.shape[0], -1)) if arr.ndim > 0 else arr.reshape((0, 0))
    out = {"nrows": int(arr.shape[0]), "ncols": int(arr.shape[1]), "index": idx, "kept": None}
    if "rid" in names and names.index("rid") < arr.shape[1]:
        col = arr[:, names.index("rid")]
        out["kept"] = [int(x) if x == x else -1 for x in col.astype(float)]
    return out, names, arr


def na_value(c):
    """the `na_action` argument as the caller of this case writes it"""
    kind = c.get("na", "text")
    if kind == "member":
        from formulaic.materializers.types import NAAction

        return NAAction(c["policy"])
    if kind == "bad":
        return c["bad_na"]
    return c["policy"]


def run_entry(c, df, d):
    """the real call through the entry point named by the case; returns (result, per-part materializer names)"""
    import formulaic
    from formulaic import Formula, ModelSpec

    opts = {"na_action": na_value(c), "output": c["output"]}
    if c["mat"] == "narwhals" and c["frame"] == "pandas":
        opts["materializer"] = "narwhals"
    if c["frame"] in ("dict", "scalars"):
        # (the registry knows the input type 'dict' but looks plain dicts up as 'builtins.dict': name the materializer)
        opts["materializer"] = "pandas"
    kw = {"context": CTX} if d is None else {"context": CTX, "drop_rows": d}
    e = c["entry"]
    if e == "sugar":
        return formulaic.model_matrix(c["formula"], df, **kw, **opts), None
    if e == "formula":
        return Formula(c["formula"]).get_model_matrix(df, **kw, **opts), None
    if e == "materializer":
        o2 = {k: v for k, v in opts.items() if k != "materializer"}
        kw2 = {k: v for k, v in kw.items() if k != "context"}
        return _mat_class(c["mat"])(df, context=CTX).get_model_matrix(c["formula"], **kw2, **o2), None
    if e in ("modelspec", "modelspecs", "nonjoint"):
        fit_opts = {k: v for k, v in opts.items() if k != "na_action"}
        spec = None
        if c["fitted"]:
            # a spec that has already been used once on the same data (default policy), then re-used
            try:
                spec = Formula(c["formula"]).get_model_matrix(df, context=CTX, **fit_opts).model_spec
            except Exception:
                spec = None  # (the default policy cannot build this matrix: the spec is used unfitted)
        if spec is not None:
            if c["overrides"]:
                call_opts = {"na_action": na_value(c)}
            else:
                spec = ModelSpec.from_spec(spec, na_action=na_value(c))
                call_opts = {}
        elif c["overrides"]:
            spec, call_opts = ModelSpec.from_spec(Formula(c["formula"])), dict(opts)
        else:
            spec, call_opts = ModelSpec.from_spec(Formula(c["formula"]), **opts), {}
        mats = None
        if e == "nonjoint":
            names = []

            def setmat(s):
                nm = ["pandas", "narwhals"][len(names) % 2]
                names.append(nm)
                return s.update(materializer=nm)

            spec = spec._map(setmat, as_type=type(spec))
            mats = [s.materializer for s in spec._flatten()]
            call_opts.pop("materializer", None)
        return spec.get_model_matrix(df, **kw, **call_opts), mats
    raise ValueError(e)


def expected_rows(c, pr):
    """positions that must survive according to the independent null definition (one-call entries)"""
    bad = set(c["caller"] or [])
    if c["policy"] == "drop":
        for f in pr["factors"].values():
            bad |= set(f["ind"])
    return [i for i in range(c["nrows"]) if i not in bad]


def clean_error(c, df, probes, rerun=None):
    """Does the same formula/output/materializer fail even on the frame that consists of just the rows that must
    survive, with no drop set and no null check (policy ignore)? Then the failure
    has nothing to do with removing rows (e.g. output='narwhals' cannot encode a one-level factor).
    `rerun(frame, policy)`: how to repeat the call (default: through the entry point named by the case)."""
    if c["kind"] not in ("call", "oor"):
        return None
    mat = c["mat"]
    K = expected_rows(c, probes[mat] if mat in probes else next(iter(probes.values())))
    # (policy ignore: no null check runs, so a null check that cannot digest a null-free value — a string ndarray, a
    #  Categorical — is NOT excused as a failure that has nothing to do with missing data)
    c2 = dict(c, policy="ignore", caller=None, na="text")
    try:
        if rerun is not None:
            rerun(subframe(df, K), c2["policy"])
        else:
            run_entry(c2, subframe(df, K), None)  # same entry point, same options, nothing to drop
    except Exception as e:
        return type(e).__name__
    # ... or on the whole frame when nothing is looked at and nothing is removed (na_action='ignore', no drop set): whether a
    # container accepts e.g. a constant column can depend on how many rows there are
    try:
        if rerun is not None:
            rerun(df, "ignore")
        else:
            run_entry(dict(c2, policy="ignore"), df, None)
    except Exception as e:
        return type(e).__name__
    return None


def is_stateless(c):
    return not any(s in c["formula"] for s in STATEFUL)


def observe_call(c, df, probes, runner, sub=True, rerun=None, keep=None, shared=None):
    """ONE real call — `runner(d)` makes it with `d` as the caller's set object (None: no drop_rows argument) — and what
    it shows: the error kind, or per part the rows / index / rid column, the caller's set afterwards, and (sub) whether
    every part equals the matrix built from the sub-frame of the rows that must survive. `keep`: dict that receives the
    raw result and arrays (not part of the observation)."""
    out = {}
    # `shared`: the caller's set OBJECT of a shared-set history (it already holds c["caller"]); else a fresh set
    d = shared if shared is not None else (None if c["caller"] is None else set(c["caller"]))
    try:
        res, mats = runner(d)
    except Exception as e:
        # what the call left in the caller's set although it raised
        out["set_after"] = None if d is None else sorted(int(x) for x in d)
        out["error"] = err_kind(e)
        out["msg"] = type(e).__name__ + ": " + str(e)[:160]
        # (a null that is found — in a row or in a constant — and an invalid policy are never "clean" failures)
        out["clean_error"] = (None if out["error"] in ("NullsPresent", "ConstantNull", "InvalidNAAction")
                              else clean_error(c, df, probes, rerun))
        return out
    parts, raw = [], []
    try:
        for mm in leaves(res):
            o, names, arr = observe_part(mm, c["output"])
            parts.append(o)
            raw.append((names, arr))
    except Exception as e:  # e.g. columns of another output type inside the matrix: no rows can be read off
        out["error"] = "Other:UnreadableResult"
        out["msg"] = f"UnreadableResult: what the call returned is not a {c['output']} matrix of numbers ({type(e).__name__}: {str(e)[:100]})"
        out["clean_error"] = None
        return out
    if keep is not None:
        keep["res"], keep["raw"] = res, raw
    out["parts"] = parts
    out["mats"] = mats
    out["final"] = None if d is None else sorted(int(x) for x in d)
    out["set_after"] = out["final"]
    # --- metamorphic check: the matrix of the sub-frame of the rows that must survive
    out["sub"] = None
    if (sub and c["policy"] == "drop" and c.get("na", "text") != "bad" and c["entry"] != "nonjoint"
            and c["kind"] == "call" and is_stateless(c)):
        K = expected_rows(c, probes[c["mat"]])
        try:
            sub = leaves(_mat_class(c["mat"])(subframe(df, K), context=CTX).get_model_matrix(
                c["formula"], na_action="raise", output=c["output"]))
            ok = len(sub) == len(raw)
            why = None if ok else "number of parts differs"
            for j, (mm, (names, arr)) in enumerate(zip(sub, raw)):
                _, n2, a2 = observe_part(mm, c["output"])
                if n2 != names:
                    ok, why = False, f"part {j}: columns {names} vs sub-frame {n2}"
                    break
                # (equal_nan: a dummy column times an infinite cell is 0 * inf = NaN in both matrices)
                if a2.shape != arr.shape or not numpy.array_equal(a2.astype(float), arr.astype(float), equal_nan=True):
                    ok, why = False, f"part {j}: values differ from the matrix of the sub-frame of rows {K}"
                    break
            out["sub"] = {"ok": bool(ok), "why": why}
        except Exception as e:
            out["sub"] = {"ok": None, "why": "sub-frame run raised " + type(e).__name__ + ": " + str(e)[:100]}
    return out


def impl_sethist(c):
    shared = set(c["original"])  # THE object: handed to every call of the history as drop_rows
    out = {"before": [], "calls": [], "fresh": []}
    for k in c["calls"]:
        before = sorted(int(x) for x in shared)
        ci = sethist_call(c, k, before)
        df = make_frame(ci)
        try:
            if ci["entry"] == "nonjoint":
                pr = {"pandas": probe(ci, df, "pandas"), "narwhals": probe(ci, df, "narwhals")}
            else:
                pr = {ci["mat"]: probe(ci, df, ci["mat"])}
        except Exception as e:
            return {"probe_error": type(e).__name__ + ": " + str(e)[:160]}
        runner = lambda d, ci=ci, df=df: run_entry(ci, df, d)
        obs = dict(observe_call(ci, df, pr, runner, sub=False, shared=shared), probe=pr)
        # the same call given a fresh copy of what the object held before it
        fresh = dict(observe_call(ci, df, pr, runner, sub=False), probe=pr)
        out["before"].append(before)
        out["calls"].append(obs)
        out["fresh"].append(fresh)
    return out


def sethist_calls(c, o):
    return [(i, sethist_call(c, k, o["before"][i]), o["calls"][i]) for i, k in enumerate(c["calls"])]


def impl(c):
    if c["kind"] == "sethist":
        return impl_sethist(c)
    if c["kind"] == "unit":
        return impl_unit(c)
    if c["kind"] == "history":
        return impl_history(c)
    df = make_frame(c)
    out = {}
    # --- probe: evaluated factors (storage, encoder, what find_nulls flags, independent nulls)
    try:
        if c["entry"] == "nonjoint":
            out["probe"] = {"pandas": probe(c, df, "pandas"), "narwhals": probe(c, df, "narwhals")}
        else:
            out["probe"] = {c["mat"]: probe(c, df, c["mat"])}
    except Exception as e:
        return {"probe_error": type(e).__name__ + ": " + str(e)[:160]}
    # --- the call
    fitted = c["fitted"] and c["entry"] in ("modelspec", "modelspecs")  # levels then come from the recorded state
    out.update(observe_call(c, df, out["probe"], lambda d: run_entry(c, df, d), sub=not fitted))
    return out


def call_case(c, k):
    """call `k` of a history as a single-call case (entry point: the materializer's method)"""
    return dict(kind="call", nrows=c["nrows"], data=c["data"], index=c["index"], frame=c["frame"], mat=c["mat"],
                formula=k["formula"], policy=k["policy"], caller=k["caller"], output=k["output"],
                entry="materializer", overrides=False, fitted=False, na="text")


def _same_values(raw_a, raw_b):
    """do two observed results have the same columns and cell values, part by part?"""
    if len(raw_a) != len(raw_b):
        return False
    for (na, a), (nb, b) in zip(raw_a, raw_b):
        if na != nb or a.shape != b.shape:
            return False
        try:
            if not numpy.array_equal(a.astype(float), b.astype(float), equal_nan=True):
                return False
        except (TypeError, ValueError):
            # object cells (text copied into the matrix by a factor that is not a data column): a missing cell is NaN in
            # both results and NaN != NaN, so compare cell by cell with "both null" counting as equal
            la, lb = a.ravel().tolist(), b.ravel().tolist()
            for x, y in zip(la, lb):
                both_null = (x is None or x != x) and (y is None or y != y)
                if not both_null and x != y:
                    return False
    return True


def impl_history(c):
    df = make_frame(c)
    M0 = _mat_class(c["mat"])
    M = lambda data: M0(data, context=CTX)
    if c.get("obj") == "spec":
        from formulaic import ModelSpec

        m = ModelSpec(formula="rid", materializer=c["mat"]).get_materializer(df, context=CTX)
        assert type(m) is M0
    else:
        m = M(df)
    # m is THE object: every call of the history is made on it
    out = {"probes": [], "calls": [], "fresh": [], "replayed": [], "same_values": []}
    specs = []  # per call: the ModelSpec(s) the object returned (None: the call raised)
    for k in c["calls"]:
        ci = call_case(c, k)
        try:
            pr = {c["mat"]: probe(ci, df, c["mat"])}
        except Exception as e:
            return {"probe_error": type(e).__name__ + ": " + str(e)[:160]}
        j = k.get("replay")
        spec = specs[j] if j is not None and specs[j] is not None else k["formula"]
        replayed = spec is not k["formula"]
        opts = {"na_action": k["policy"], "output": k["output"]}

        def runner_on(obj, spec=spec, opts=opts):
            return lambda d: (obj.get_model_matrix(spec, **({} if d is None else {"drop_rows": d}), **opts), None)

        def rerun(df2, policy, spec=spec, k=k):
            return M(df2).get_model_matrix(spec, na_action=policy, output=k["output"])

        kf, kr = {}, {}
        fresh = observe_call(ci, df, pr, runner_on(M(df)), sub=False, rerun=rerun, keep=kf)
        # (no sub-frame comparison here: the values are compared with those of the new object, whose agreement with the
        #  sub-frame matrix is what the single-call stream checks)
        reused = observe_call(ci, df, pr, runner_on(m), sub=False, rerun=rerun, keep=kr)
        specs.append(kr["res"].model_spec if "res" in kr else None)
        out["probes"].append(pr)
        out["calls"].append(reused)
        out["fresh"].append(fresh)
        out["replayed"].append(bool(replayed))
        out["same_values"].append(_same_values(kf["raw"], kr["raw"]) if "raw" in kf and "raw" in kr else None)
    return out


def history_calls(c, o):
    """[(index, single-call case, single-call observation)] of a history"""
    return [(i, call_case(c, k), dict(o["calls"][i], probe=o["probes"][i])) for i, k in enumerate(c["calls"])]



# ----------------------------------------------------------------------------- unit stream: find_nulls / drop_rows directly

ROWS_TYPES = ("list", "nw", "series", "array1", "array2", "arrayN", "sparse")


def _fl(cells):
    """cell `i` holds the number i + 1 (never 0: a sparse matrix does not store zeros), None cells are NaN"""
    return [numpy.nan if x is None else float(x) if isinstance(x, str) else float(x + 1) for x in cells]


def build_unit_value(v, labels=None):
    import narwhals.stable.v1 as nw
    import scipy.sparse as spsparse

    t = v["t"]
    consts = {"none": None, "str": "abc", "int": 3, "float": 1.5, "nan": float("nan"), "bool": True,
              "np_float64": numpy.float64(1.5), "np_nan": numpy.float64("nan"), "np_float32": numpy.float32(2.5),
              "np_int64": numpy.int64(3), "np_bool": numpy.bool_(True), "tuple": (1.0, 2.0),
              "array0": numpy.array(1.5), "array0_nan": numpy.array(numpy.nan),
              "array0_obj": numpy.array("abc", dtype=object), "array0_none": numpy.array(None, dtype=object)}
    if t in consts:
        return consts[t]
    if t == "object":
        return Opaque()
    if t == "list":
        return [None if x is None else float(x) if isinstance(x, str) else float(x + 1) for x in v["cells"]]
    if t == "nw":
        return nw.from_native(pandas.Series(_fl(v["cells"]), dtype=float, name="x"), series_only=True)
    if t == "nw_arrow":
        import pyarrow as pa

        arr = pa.chunked_array([pa.array([None if x is None else float(x) if isinstance(x, str) else float(x + 1)
                                          for x in v["cells"]], type=pa.float64())])
        return nw.from_native(arr, series_only=True).alias("x")
    if t == "series":
        return pandas.Series(_fl(v["cells"]), dtype=float)
    if t == "series_idx":
        return pandas.Series(_fl(v["cells"]), dtype=float, index=(labels or list(range(len(v["cells"]))))[:len(v["cells"])])
    if t == "array1":
        return numpy.array(_fl(v["cells"]), dtype=float)
    objs = [None if x is None else float(x) if isinstance(x, str) else float(x + 1) for x in v.get("cells", [])]
    if t == "array1_obj":
        out = numpy.empty(len(objs), dtype=object)
        out[:] = objs
        return out
    if t == "array1_str":
        return numpy.array([str(x) for x in objs], dtype=str)
    if t == "categorical":
        return pandas.Categorical(objs)
    if t == "ext_float":
        return pandas.array(objs, dtype="Float64")
    if t == "index":
        return pandas.Index(_fl(v["cells"]), dtype=float)
    if t == "array2_obj":
        n, k = v["n"], len(v["cols"])
        out = numpy.empty((n, k), dtype=object)
        for j, col in enumerate(v["cols"]):
            out[:, j] = [None if x is None else float(x) if isinstance(x, str) else float(x + 1) for x in col]
        return out
    if t in ("frame", "array2", "csc", "csr"):
        n, k = v["n"], len(v["cols"])
        dense = numpy.empty((n, k), dtype=float)
        for j, col in enumerate(v["cols"]):
            dense[:, j] = _fl(col)
        if t == "array2":
            return dense
        if t == "frame":
            return pandas.DataFrame({f"c{j}": dense[:, j] for j in range(k)}, index=range(n))
        return (spsparse.csc_matrix if t == "csc" else spsparse.csr_matrix)(dense)
    if t == "array3":
        return numpy.zeros((v["n"], 1, 1))
    if t == "dict":
        return {key: build_unit_value(sub, labels) for key, sub in v["items"]}
    raise ValueError(t)


def _ids(xs):
    return [None if cell_is_null(x) else int(round(float(x))) - 1 for x in xs]


def observe_value(r):
    """what `drop_rows` returned: its type, shape[0] where it has one, the cells that survived (per column)"""
    import scipy.sparse as spsparse

    if isinstance(r, list):
        return {"t": "list", "n": None, "cols": [_ids(r)]}
    if isinstance(r, pandas.Series):
        return {"t": "series", "n": None, "cols": [_ids(r.tolist())], "index": [lab(x) for x in r.index]}
    if isinstance(r, (pandas.api.extensions.ExtensionArray, pandas.Index)):
        return {"t": "array1", "n": None, "cols": [_ids(r.tolist())], "store": _store(r)}
    if isinstance(r, numpy.ndarray):
        if r.ndim == 1:
            return {"t": "array1", "n": None, "cols": [_ids(r.tolist())], "store": "ndarray"}
        if r.ndim == 2:
            return {"t": "array2", "n": int(r.shape[0]), "cols": [_ids(r[:, j].tolist()) for j in range(r.shape[1])]}
        return {"t": "arrayN" if r.ndim > 2 else "array0", "n": int(r.shape[0]) if r.ndim else None, "cols": []}
    if isinstance(r, spsparse.spmatrix):
        d = r.toarray()
        t = "csc" if isinstance(r, spsparse.csc_matrix) else "csr" if isinstance(r, spsparse.csr_matrix) else "sparse:" + type(r).__name__
        return {"t": t, "n": int(d.shape[0]), "cols": [_ids(d[:, j].tolist()) for j in range(d.shape[1])]}
    if hasattr(r, "to_list") and hasattr(r, "is_null"):
        return {"t": "nw", "n": None, "cols": [_ids(r.to_list())]}
    if r is None or isinstance(r, (str, bool, int, float, numpy.generic)):
        return {"t": "none" if r is None else "scalar"}
    return {"t": "other:" + type(r).__name__}


def impl_unit(c):
    from formulaic.materializers.types import FactorValues
    from formulaic.utils.null_handling import drop_rows, find_nulls

    try:
        raw = build_unit_value(c["value"], c.get("labels"))
        value = FactorValues(raw) if c["wrap"] else raw
        desc = value_desc(raw)
    except Exception as e:  # (the generator asked for something the libraries cannot build)
        return {"build_error": type(e).__name__ + ": " + str(e)[:160]}
    out = {"value": desc}
    try:
        if c["op"] == "find_nulls":
            out["nulls"] = sorted(int(i) for i in find_nulls(value))
        else:
            idx = tuple(c["indices"]) if c.get("as_tuple") else list(c["indices"])
            out["result"] = observe_value(drop_rows(value, idx))
    except Exception as e:
        out["error"] = err_kind(e)
        out["msg"] = type(e).__name__ + ": " + str(e)[:160]
    return out


def _agree_unit(c, o, m):
    oe, me = o.get("error"), m.get("error")
    if oe or me:
        return None if oe == me else f"{c['op']}: impl {oe or 'no error'} ({o.get('msg', '')}) vs model {me or 'no error'}"
    if c["op"] == "find_nulls":
        return None if o["nulls"] == m.get("nulls") else f"find_nulls: impl flags rows {o['nulls']}, model {m.get('nulls')}"
    r = o["result"]
    lay = lambda t: "sparse" if t in ("csc", "csr") else t  # (which compressed layout comes back is not compared)
    if lay(r.get("t")) != lay(m.get("t")):
        return f"drop_rows: impl returns a {r.get('t')}, model a {m.get('t')}"
    for what in ("n", "cols"):
        if r.get(what) != m.get(what):
            return f"drop_rows: impl returns {what}={r.get(what)}, model {m.get(what)}"
    return None


def _desc_uncheckable(d):
    t = d["t"]
    if t in ("arrayN", "other"):
        return True
    if t == "dict":
        return any(_desc_uncheckable(it["v"]) for it in d["items"])
    return False


def _oracle_unit(c, o):
    """find_nulls: exactly the rows with a null cell; drop_rows: exactly the rows not listed, by position, same type"""
    d = o["value"]
    if c["op"] == "find_nulls":
        if "error" in o:
            if desc_const_null(d) or _desc_uncheckable(d):
                return None  # a null constant, an array of more than two dimensions, an unknown type
            return f"find_nulls raised {o['msg']} on a {d['t']} value made of columns and non-null constants"
        if desc_const_null(d):
            return f"find_nulls reports rows {o['nulls']} for a {d['t']} value that contains a constant which is null (every row is null)"
        want = sorted(desc_null_rows(d))
        if o["nulls"] != want:
            return f"find_nulls flags rows {o['nulls']} of a {d['t']} value whose null cells are in rows {want}"
        return None
    if d["t"] not in ROWS_TYPES:
        return None
    n = d.get("n", d.get("len"))
    idx = set(c["indices"])
    if "error" in o:
        if all(i < n for i in idx):
            return f"drop_rows raised {o['msg']} on a {d['t']} value with {n} rows and positions {sorted(idx)} inside it"
        return None
    keep = [i for i in range(n) if i not in idx]
    r = o["result"]
    want_t = d["t"]
    got_t = "sparse" if r["t"] in ("csc", "csr") else r["t"]
    if got_t != want_t:
        return f"drop_rows turned a {want_t} into a {r['t']}"
    if want_t == "array1" and r.get("store") != d.get("store", "ndarray"):
        return f"drop_rows turned a 1-d array of class {d.get('store', 'ndarray')} into one of class {r.get('store')}"
    # (cell i holds the number i: what is left must be the cells at the positions not listed, in order)
    src = c["value"]
    cols = [src["cells"]] if "cells" in src else src.get("cols", [])
    for j, col in enumerate(r["cols"]):
        want = [None if cols[j][i] is None else i for i in keep]
        if col != want:
            return f"drop_rows(indices={c['indices']}) left cells {col} in column {j} of a {d['t']}; the rows not listed are {want}"
    if r.get("n") is not None and r["n"] != len(keep):
        return f"drop_rows(indices={c['indices']}) left {r['n']} rows of {n}; {len(keep)} are not listed"
    if src["t"] == "series_idx" and r.get("index") is not None:
        wl = [lab(c["labels"][i]) for i in keep]
        if r["index"] != wl:
            return f"drop_rows left the labels {r['index']}; the labels of the rows not listed are {wl}"
    return None


# ----------------------------------------------------------------------------- request / agree


def _part_mats(c, o):
    k = len(next(iter(o["probe"].values()))["parts"])
    if c["entry"] == "nonjoint":
        return (o.get("mats") or [["pandas", "narwhals"][i % 2] for i in range(k)])
    return [c["mat"]] * k


def _model_mat(c, m):
    if m == "narwhals" and c["frame"] == "arrow":
        return "arrow"
    return m


def request(c, o):
    if c["kind"] == "unit":
        if "harness_exception" in o or "build_error" in o:
            return dict(op="find_nulls", variant=VARIANT, value={"t": "none"})
        if c["op"] == "find_nulls":
            return dict(op="find_nulls", variant=VARIANT, value=o["value"])
        return dict(op="drop_rows", variant=VARIANT, value=o["value"], indices=c["indices"],
                    labels=[lab(x) for x in c["labels"]])
    if c["kind"] == "sethist":
        if "harness_exception" in o or "probe_error" in o:
            return dict(op="sethistory", variant=VARIANT, set=None, calls=[])
        calls = []
        for i, ci, oi in sethist_calls(c, o):
            r = _request_call(ci, oi)
            prev = o["calls"][i - 1] if i else None
            if prev is not None and c["calls"][i - 1]["policy"] == "drop" and prev.get("error"):
                # what a drop call whose null check raised left in the set depends on the order of the checks (not modelled);
                # a drop call that fails for a reason the model does not follow (a container that takes no constant column:
                # `clean_error`) may fail before or after the null checks: the model continues from the observed content
                # (which the oracle bounds: caller's rows plus null rows)
                r["set_override"] = o["before"][i]
            calls.append(r)
        return dict(op="sethistory", variant=VARIANT, set=c["original"], calls=calls)
    if c["kind"] == "history" and not ("harness_exception" in o or "probe_error" in o):
        calls = []
        for i, ci, oi in history_calls(c, o):
            r = _request_call(ci, oi, keys=True)
            calls.append(dict(policy=r["policy"], output=r["output"], caller=r["caller"], parts=r["parts"]))
        reset = os.environ.get("VERIF_C06_RESET", "1") != "0"  # 0: the model of the tree that kept its caches between calls
        return dict(op="history", variant=VARIANT, reset=reset, n=c["nrows"],
                    labels=[lab(x) for x in c["index"]["labels"]], calls=calls)
    return _request_call(c, o)


def _request_call(c, o, keys=False):
    if "harness_exception" in o or "probe_error" in o:
        return dict(op="noop", n=0, labels=[], policy="drop", output="numpy", entry="materializer", structured=False,
                    overrides=False, joint=True, caller=None, parts=[])
    mats = _part_mats(c, o)
    parts = []
    for j, m in enumerate(mats):
        pr = o["probe"][m]
        p = pr["parts"][j]
        parts.append(dict(
            mat=_model_mat(c, m),
            intercept=p["intercept"],
            factors=[dict(value=pr["factors"][x]["value"], enc=pr["factors"][x]["enc"], **({"key": x} if keys else {}))
                     for x in p["exprs"]],
        ))
    e = c["entry"]
    return dict(
        variant=VARIANT,
        n=c["nrows"],
        labels=[lab(x) for x in c["index"]["labels"]],
        policy=c["policy"],
        **({"na_text": c["bad_na"]} if c.get("na", "text") == "bad" else
           {"na_text": c["policy"]} if c.get("na", "text") == "text" else {}),
        output=c["output"],
        entry={"nonjoint": "modelspecs"}.get(e, e),
        structured=len(parts) > 1,
        overrides=bool(c["overrides"]) and e in ("modelspec", "modelspecs", "nonjoint"),
        joint=e != "nonjoint",
        caller=c["caller"],
        parts=parts,
    )


def _desc_has(d, t):
    if d["t"] == t:
        return True
    return d["t"] == "dict" and any(_desc_has(it["v"], t) for it in d["items"])


def _possible_nullcheck(c, o):
    """the null-check errors that SOME evaluated factor of the call would raise under this policy"""
    out = set()
    for pr in o["probe"].values():
        for f in pr["factors"].values():
            if c["policy"] == "raise" and f["ind"]:
                out.add("NullsPresent")
            if f["const_null"]:
                out.add("ConstantNull")
            if _desc_has(f["value"], "arrayN"):
                out.add("TooManyDims")
            if _desc_has(f["value"], "other"):
                out.add("NoFindNulls")
            if VARIANT == "beforeValues" and (_desc_has(f["value"], "frame") or _desc_has_np(f["value"])):
                out.add("NoFindNulls")
    return out


def _desc_has_np(d):
    if d["t"] == "scalar":
        return d["k"] == "np"
    return d["t"] == "dict" and any(_desc_has_np(it["v"]) for it in d["items"])


def _rid_pos(c, o, j):
    m = _part_mats(c, o)[j]
    exprs = o["probe"][m]["parts"][j]["exprs"]
    return exprs.index("rid") if "rid" in exprs else None


def agree(c, o, m):
    if "driver_error" in m:
        return "driver: " + m["driver_error"][:300]
    if "harness_exception" in o or "probe_error" in o or "build_error" in o:
        return None
    if c["kind"] == "unit":
        return _agree_unit(c, o, m)
    if c["kind"] == "sethist":
        if len(m.get("calls", [])) != len(c["calls"]):
            return f"model answered {len(m.get('calls', []))} calls of {len(c['calls'])}"
        for (i, ci, oi), mi in zip(sethist_calls(c, o), m["calls"]):
            why = _agree_call(ci, oi, mi)
            if why:
                return (f"call {i + 1} of {len(c['calls'])} sharing ONE caller set object (`{ci['formula']}`, {ci['entry']}, "
                        f"{ci['policy']}, set before the call {ci['caller']}): {why}")
        return None
    if c["kind"] == "history":
        if len(m.get("calls", [])) != len(c["calls"]):
            return f"model answered {len(m.get('calls', []))} calls of {len(c['calls'])}"
        for (i, ci, oi), mi in zip(history_calls(c, o), m["calls"]):
            why = _agree_call(ci, oi, mi)
            if why:
                return f"call {i + 1} of {len(c['calls'])} on one materializer object (`{ci['formula']}`, {ci['policy']}): {why}"
        return None
    return _agree_call(c, o, m)


def _agree_set_after(c, o, m):
    """the caller's set object after the call, also when the call raised. Under the drop policy a failing null check leaves
    in the set what the factors checked BEFORE it added — their order is the iteration order of a Python set, so that
    case is left to the oracle (bounds); everything else is compared exactly."""
    if "set_after" not in m or "set_after" not in o or c["kind"] == "oor":
        return None
    oe, me = o.get("error"), m.get("error")
    if c["policy"] == "drop" and c.get("na", "text") != "bad" and (oe or me):
        if oe in NULLCHECK or me in NULLCHECK or oe is None or me is None:
            return None
    if o["set_after"] != m["set_after"]:
        return (f"caller's set after the call{' (which raised ' + str(oe) + ')' if oe else ''}: impl {o['set_after']}, "
                f"model {m['set_after']} (before the call: {c['caller']})")
    return None


def _agree_call(c, o, m):
    why = _agree_set_after(c, o, m)
    if why:
        return why
    if c["kind"] == "oor" and "error" in o and "error" in m:
        return None  # positions outside the frame: which of IndexError / length mismatch comes first is not modelled
    if c["kind"] == "oor" and o.get("error") == "IndexError" and "error" not in m:
        # positions outside the frame are outside the property; since repair c414a4c a list-valued numerical factor is
        # made an array BEFORE rows are dropped, so the array overload (IndexError) meets the position the list overload
        # used to ignore — the model keeps the list overload's answer
        return None
    if m.get("error") == "NotColumns":
        # the model does not follow a value that cannot become columns beyond the null check: only that is compared
        oe = o.get("error")
        return (f"impl {oe} ({o.get('msg', '')}) vs model: null check passes, then the value cannot be made into columns"
                if oe in NULLCHECK or oe == "InvalidNAAction" else None)
    if "error" in o and o["error"] not in NULLCHECK + ("NoDropRows", "InvalidNAAction") and o.get("clean_error"):
        return None  # the formula cannot be materialised for this output even without nulls (encoders are not modelled)
    if "error" in o or "error" in m:
        oe, me = o.get("error"), m.get("error")
        if oe == me:
            return None
        if oe in NULLCHECK and me in NULLCHECK and oe in _possible_nullcheck(c, o):
            # several factors fail the null check: which one is met first is the iteration order of a Python set
            return None
        return f"impl {oe or 'no error'} ({o.get('msg', '')}) vs model {me or 'no error'}"
    if len(o["parts"]) != len(m["parts"]):
        return f"impl returned {len(o['parts'])} parts, model {len(m['parts'])}"
    for j, (a, b) in enumerate(zip(o["parts"], m["parts"])):
        if a["nrows"] != b["nrows"]:
            return f"part {j}: impl has {a['nrows']} rows, model {b['nrows']}"
        rp = _rid_pos(c, o, j)
        if rp is not None and a["kept"] is not None and a["kept"] != b["cols"][rp][0]:
            return f"part {j}: impl kept rows {a['kept']}, model {b['cols'][rp][0]}"
        for fi, fcols in enumerate(b["cols"]):
            for col in fcols:
                if len(col) != b["nrows"]:
                    return f"part {j}: model column of factor {fi} has {len(col)} cells in a matrix of {b['nrows']} rows"
        bi = b["index"]
        if isinstance(bi, dict):
            bi = [f"i:{i}" for i in range(bi["range"])]
        if c["output"] in ("pandas", "narwhals") and a["index"] != bi:
            return f"part {j}: impl index {a['index']}, model {bi}"
    if o["final"] != m["final"]:
        return f"caller's drop set afterwards: impl {o['final']}, model {m['final']}"
    return None


# ----------------------------------------------------------------------------- oracle


def _inc(xs):
    return all(x < y for x, y in zip(xs, xs[1:]))


def oracle(c, o):
    if "harness_exception" in o:
        return "harness could not run the implementation: " + o["harness_exception"]
    if "probe_error" in o or "build_error" in o:
        return None
    if c["kind"] == "unit":
        return _oracle_unit(c, o)
    if c["kind"] == "sethist":
        return oracle_sethist(c, o)
    if c["kind"] == "history":
        return oracle_history(c, o)
    return _oracle_call(c, o)


def oracle_history(c, o):
    """every call made on the one materializer object must satisfy the property by itself (its own factors, its own
    caller set), and must show the rows / labels / values / drop set / null error of the call on a new object"""
    for i, ci, oi in history_calls(c, o):
        head = (f"call {i + 1} of {len(c['calls'])} on ONE {c['mat']} materializer object "
                f"(`{ci['formula']}`{' as the spec an earlier call returned' if o['replayed'][i] else ''}, "
                f"na_action={ci['policy']}, drop_rows={ci['caller']}, output={ci['output']}; earlier calls: "
                + "; ".join(f"`{k['formula']}` {k['policy']}" for k in c["calls"][:i]) + "): ")
        why = _oracle_call(ci, oi)
        if why:
            return head + why
        f = o["fresh"][i]
        fe, re_ = f.get("error"), oi.get("error")
        if fe is not None and fe != "NullsPresent":
            continue  # a new object cannot build this matrix either, for reasons other than nulls: nothing to compare
        if fe != re_:
            return head + (f"a new materializer object {'raises ' + f.get('msg', '') if fe else 'succeeds'}, "
                           f"the reused one {'raises ' + oi.get('msg', '') if re_ else 'succeeds'}")
        if fe:
            continue
        if ci["policy"] == "ignore" and ci["caller"]:
            continue  # (the property text does not say what happens to the caller's rows under `ignore`)
        for j, (a, b) in enumerate(zip(oi["parts"], f["parts"])):
            for what in ("nrows", "kept", "index"):
                if a[what] != b[what]:
                    return head + f"part {j}: {what} is {a[what]}, a new materializer object gives {b[what]}"
        if oi["final"] != f["final"]:
            return head + f"caller's drop set afterwards is {oi['final']}, with a new materializer object {f['final']}"
        if o["same_values"][i] is False:
            return head + "the rows are those a new materializer object returns, but columns or cell values differ from them"
    return None


def oracle_sethist(c, o):
    """every call must obey the property with the set as it stood before it; a call that raised under the raise policy must
    leave the object exactly as it was; and every call must do what the same call does when given a fresh copy of that
    content (rows, labels, set afterwards, null error)"""
    for i, ci, oi in sethist_calls(c, o):
        head = (f"call {i + 1} of {len(c['calls'])} sharing ONE caller set object (`{ci['formula']}`, entry {ci['entry']}, "
                f"na_action={ci['policy']}, the set held {ci['caller']} before the call; original {c['original']}; earlier calls: "
                + "; ".join(f"`{k['formula']}` {k['policy']}" for k in c["calls"][:i]) + "): ")
        why = _oracle_call(ci, oi)
        if why:
            return head + why
        f = o["fresh"][i]
        fe, se = f.get("error"), oi.get("error")
        if (fe in NULLCHECK or se in NULLCHECK) and (fe in NULLCHECK) != (se in NULLCHECK):
            return head + (f"with a fresh copy of the set the call {'raises ' + f.get('msg', '') if fe else 'succeeds'}, "
                           f"with the shared object it {'raises ' + oi.get('msg', '') if se else 'succeeds'}")
        if fe or se:
            continue
        for j, (a, b) in enumerate(zip(oi["parts"], f["parts"])):
            for what in ("nrows", "kept", "index"):
                if a[what] != b[what]:
                    return head + f"part {j}: {what} is {a[what]}; the same call with a fresh copy of the set gives {b[what]}"
        if oi["final"] != f["final"]:
            return head + f"the shared set holds {oi['final']} after the call; a fresh copy ends as {f['final']}"
    return None


def _oracle_set_after(c, o):
    """what a call may leave in the caller's set: nothing new under raise / ignore / an invalid policy (whether it raises or
    not); under drop, when it raises, the caller's rows plus at most null rows"""
    if c["caller"] is None or o.get("set_after") is None:
        return None
    before, after = sorted(c["caller"]), o["set_after"]
    n = c["nrows"]
    if c["policy"] in ("raise", "ignore") or c.get("na", "text") == "bad":
        if after != before:
            what = f"raised {o.get('msg')}" if o.get("error") else "returned"
            return (f"{c['policy'] if c.get('na', 'text') != 'bad' else 'invalid'} policy: the call {what} and left {after} in the "
                    f"caller's drop set, which held {before}: no row is removed on account of nulls, nothing may be added")
    elif o.get("error"):
        nulls = set()
        for pr in o["probe"].values():
            for f in pr["factors"].values():
                nulls |= set(f["ind"])
        if not set(before) <= set(after) or not set(after) <= set(before) | nulls:
            return (f"drop policy: the call raised {o.get('msg')} and left {after} in the caller's drop set, which held {before}; "
                    f"the rows with nulls are {sorted(nulls)}")
    return None


def _oracle_call(c, o):
    if c["kind"] != "call":
        return None
    why = _oracle_set_after(c, o)
    if why:
        return why
    n, pol = c["nrows"], c["policy"]
    caller = set(c["caller"] or [])
    labels = [lab(x) for x in c["index"]["labels"]]
    # (0) find_nulls against the independent definition (where it answers; when it may raise is the model's business)
    for mname, pr in o["probe"].items():
        for expr, f in pr["factors"].items():
            if isinstance(f["nulls"], list) and f["nulls"] != f["ind"]:
                return f"find_nulls flags rows {f['nulls']} of `{expr}` ({mname}), but the cells that are None/NaN/NA are in rows {f['ind']}"
    if c.get("na", "text") == "bad":
        if o.get("error") != "InvalidNAAction":
            return (f"na_action={c['bad_na']!r} is not a null policy, yet "
                    + (f"the call raised {o.get('msg')}" if o.get("error") else "the call succeeded"))
        return None
    mats = _part_mats(c, o)
    per_part = []
    for j, mname in enumerate(mats):
        pr = o["probe"][mname]
        s = set()
        for x in pr["parts"][j]["exprs"]:
            s |= set(pr["factors"][x]["ind"])
        per_part.append(s)
    nulls = set().union(*per_part) if per_part else set()
    # a constant (scalar / 0-d array) that is null: the factor is null in every row
    const_null = any(o["probe"][mname]["factors"][x]["const_null"]
                     for j, mname in enumerate(mats) for x in o["probe"][mname]["parts"][j]["exprs"])
    err = o.get("error")
    if err and err not in ("NullsPresent", "ConstantNull") and o.get("clean_error"):
        return None  # fails identically on the clean sub-frame without any drop: not a missing-data matter
    if pol == "raise":
        if (nulls or const_null) and err not in ("NullsPresent", "ConstantNull"):
            return (f"raise policy: evaluated factors have nulls in rows {sorted(nulls)}"
                    + (" and a constant that is null" if const_null else "") + " but "
                    + (f"the error was {o.get('msg')}" if err else "no error was raised"))
        if not nulls and not const_null and err:
            return f"raise policy: no evaluated factor has a null, yet {o.get('msg')}"
        if err:
            return None
    elif err:
        return f"{pol} policy: the call raised {o.get('msg')}"
    if pol == "drop" and const_null:
        # (every row is null in a constant factor that is null: no row may remain)
        for j, p in enumerate(o["parts"]):
            if p["nrows"] != 0:
                return f"drop policy: a constant factor is null (all rows are null), yet part {j} has {p['nrows']} rows"
        return None
    # Every entry point — also ModelSpecs whose parts name different materializers and are generated one by one
    # (`entry = nonjoint`) — must give ALL parts the same rows: those that are null in no part and not listed by the caller.
    how = " (parts generated one by one with a shared drop set)" if c["entry"] == "nonjoint" else ""
    # (pandas output: `output="pandas"`, and the pandas frame `output="narwhals"` hands back for pandas-backed data)
    check_index = c["output"] in ("pandas", "narwhals") and c["frame"] != "arrow"
    if pol == "ignore" and caller:
        for j, p in enumerate(o["parts"]):
            if p["kept"] is not None and (not _inc(p["kept"]) or not (set(range(n)) - caller) <= set(p["kept"])):
                return f"ignore policy: part {j} kept rows {p['kept']}; rows outside the caller's list {sorted(caller)} must all be kept, in order"
        return None
    bad = caller | (nulls if pol == "drop" else set())
    want = [i for i in range(n) if i not in bad]
    for j, p in enumerate(o["parts"]):
        if p["kept"] is not None and p["kept"] != want:
            return f"{pol} policy{how}: part {j} contains rows {p['kept']}; the rows with no null factor in any part (nulls in {sorted(nulls)}) not listed by the caller ({sorted(caller)}) are {want}"
        if p["nrows"] != len(want):
            return f"{pol} policy{how}: part {j} has {p['nrows']} rows; {len(want)} rows must remain ({want})"
        if check_index and p["index"] is not None:
            # (a part without the row-id column — `~ 0` — holds the rows `want` too: nothing else may remain)
            rows = p["kept"] if p["kept"] is not None else want
            wl = [labels[i] for i in rows if 0 <= i < n]
            if p["index"] != wl:
                return (f"part {j}: {c['output']} output ({c['mat']} materializer) is labelled {p['index']}; the labels of the kept rows "
                        f"{rows} are {wl}")
    if c["caller"] is not None:
        want_final = sorted(bad)
        if o["final"] != want_final:
            return f"caller's drop set is {o['final']} after the call{how}; caller's rows {sorted(caller)} plus null rows {sorted(nulls) if pol == 'drop' else []} = {want_final}"
        for j, p in enumerate(o["parts"]):
            if p["kept"] is not None and sorted(set(range(n)) - set(p["kept"])) != o["final"]:
                return f"caller's drop set {o['final']} is not the set of rows removed from part {j} ({sorted(set(range(n)) - set(p['kept']))}){how}"
    sub = o.get("sub")
    if sub and sub["ok"] is False:
        return "drop policy: " + str(sub["why"])
    return None


def classify(c, o, why):
    """C06-F1: a constant factor that is null + the drop policy: find_nulls raises 'Constant value is null, invalidating
    all rows' where the property text asks for a matrix without rows."""
    calls = []
    if c["kind"] == "call":
        calls = [(c, o)]
    elif c["kind"] == "history" and "calls" in o:
        calls = [(ci, oi) for _, ci, oi in history_calls(c, o)]
    elif c["kind"] == "sethist" and "calls" in o:
        calls = [(ci, oi) for _, ci, oi in sethist_calls(c, o)]
    for ci, oi in calls:
        if (ci["policy"] == "drop" and ci.get("na", "text") != "bad" and oi.get("error") == "ConstantNull"
                and "drop policy: the call raised" in str(why) and "Constant value is null" in str(why)
                and any(f["const_null"] for pr in oi.get("probe", {}).values() for f in pr["factors"].values())):
            return "C06-F1"
    return None


LEVEL_TEXT = (
    "Proof: Lean theorems (Props/C06.lean) about the executable model of the missing-data path show, for ALL frames, "
    "ALL index labellings (no uniqueness assumed), ALL shapes of evaluated factor (constants, lists, pandas / narwhals Series, "
    "0/1/2/n-d arrays, data frames, sparse matrices, nested dicts with hidden members, unknown objects) with any null "
    "pattern per cell, caller drop sets, encoders, output types and entry points: find_nulls flags exactly the rows in which "
    "some cell is null and answers exactly for values without null constants / >2-d arrays / unknown types "
    "(find_nulls_rows, find_nulls_answers_iff); every drop_rows overload is positional and looks only at which positions are "
    "listed, not at their order or repetitions (drop_rows_positional, drop_rows_order_and_repeats_irrelevant, "
    "drop_rows_positions_outside, drop_rows_without_rows); under the drop policy every part consists of exactly the rows in "
    "which no cell of any evaluated factor is null and which the caller did not list, in order, with the labels of those rows "
    "as index (drop_exact, null_rows_exact, kept_rows_by_cells); the caller's set ends up as caller ∪ nulls = the rows removed; "
    "raise errors iff a null exists; ignore removes only the caller's rows; a call fails with a null-check error iff, in "
    "evaluation order, a factor fails its check while those before it pass, never under ignore (null_check_error_iff, for all "
    "inputs); raise and ignore never put anything into the caller's set, whether the call returns or raises, for all inputs "
    "and entry points (raise_and_ignore_leave_caller_set); a returning call leaves in the set what it reports "
    "(caller_set_after_success); a failing drop call adds only null rows (drop_failure_adds_only_null_rows); a set object "
    "handed to several calls is untouched by every non-drop call among them (shared_set_survives_non_drop_call); a string na_action is accepted exactly when it is a member's value (na_action_text); all encoders remove the "
    "same positions; generating the parts of a structured spec one by one (parts naming different materializers: two passes over "
    "one shared drop set) gives, for every policy, exactly what one materializer call over all parts gives, so every theorem "
    "above holds on EVERY entry point (per_part_calls); and for EVERY history of calls on one materializer object, from any cache content, each call gives what "
    "the same call on a new object gives (materializer_reuse), hence obeys the same row rule. The model's dispatch tables are "
    "decided equal to the live package's singledispatch registries (dispatch_tables_match_package). The model is tied to the "
    "code by a differential correspondence on every run (single calls, histories with failing calls, and direct find_nulls / "
    "drop_rows calls on every value type); an independent oracle re-checks the property on the real output."
)
LEVEL_NOTE = (
    "Trusted: Lean kernel + propext/Classical.choice/Quot.sound; the hand model of base.py/null_handling.py/contrasts.py/"
    "hashed.py/model_spec.py/sugar.py row handling validated by correspondence; per cell, whether it is null, and the type of "
    "each evaluated value enter as per-case parameters (find_nulls itself is computed by the model and compared); "
    "pandas/numpy/scipy/narwhals selection primitives are modelled; the order in which the pooled factors of a call are "
    "evaluated is the iteration order of a Python set and is not modelled (when several factors would fail the null check, "
    "which of their errors is reported is not compared). Known finding C06-F1: a constant factor that is null makes the drop "
    "policy raise."
)
