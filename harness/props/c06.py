"""C06 — Missing-data policy removes exactly the right rows, by position, and reports it.

Correspondence stream `c06` (engine `Engines/C06.lean`, model `Model/Nulls.lean`): one real call through
an entry point (`model_matrix`, `Formula.get_model_matrix`, `ModelSpec(s).get_model_matrix` with/without
overrides, fitted or not, joint or one call per part, materializer method) on a generated frame, against
`Model.Nulls.call`. The model is told, per evaluated factor, what the implementation's `find_nulls`
flagged and how the values are stored (which `drop_rows` overload / encoder they reach); it answers with
the surviving row positions per part, the output index, the final content of the caller's set, or the
error kind. The implementation's kept positions are read off a row-id column (`rid`) that every part carries.

Histories (`kind = "history"`): ONE materializer object receives 2-3 `get_model_matrix` calls (formulas that share
factors, or the spec an earlier call returned; per call its own na_action, output type and caller drop set). Every call
is observed like a single call, and next to it the same call on a materializer object made for it. The model side is
`Model.NullsHist.runHistory` (the object's `factor_cache` / `encoded_cache` are state; theorem `materializer_reuse`).

Oracle (implementation only, plain Python): the three statements of the property, with "null" decided by an
independent per-cell definition (None / NaN / pandas.NA / NaT in the evaluated factor values), plus
(stateless formulas) equality of every part with the matrix built from the sub-frame of the expected rows. For a history the three
statements are demanded of EVERY call on the reused object (with that call's factors and that call's drop set), and the
rows, labels, cell values, drop set and null error of each call are compared with those of the same call on a new object
(whose equality with the sub-frame matrix is what the single-call stream checks).
"""
from __future__ import annotations

import math
import os

import numpy
import pandas

PROPERTY = "C06"
ENGINE = "c06"
REQUIRED_THEOREMS = [
    "drop_exact",
    "dropset_reported",
    "raise_iff",
    "ignore_keeps",
    "encoders_consistent",
    "per_part_calls",
    "entry_points_forward",
    "materializer_reuse",
    "reuse_drop_exact",
    "reuse_raise_ignore",
]
TRUSTED = [
    "parameter: which cells `find_nulls` flags for an evaluated factor (forwarded from the implementation per case; "
    "checked in the oracle against an independent per-cell definition of null: None, NaN, pandas.NA, NaT)",
    "parameter: the storage type of each evaluated factor (pandas Series / ndarray / narwhals Series / list) and which "
    "encoder it carries (default, C(), hashed()) — read from materializer.factor_cache of a probe run with na_action='ignore'",
    "modelled, not verified: pandas/numpy/narwhals/scipy row selection primitives themselves (boolean mask indexing, "
    "numpy.delete, Index.delete, narwhals filter), modelled as positional filters; factor evaluation; the encoders' values "
    "(only their row handling is modelled)",
    "histories: the model keeps the materializer object's factor_cache / encoded_cache as state (keys = factor expressions; "
    "the (expr, reduced_rank) refinement of the encoded_cache key is not modelled — unobservable when the caches are emptied "
    "per call, theorem materializer_reuse); transform/encoder state carried by a replayed spec is not modelled (C04/C18)",
    "not modelled: scalar (constant) factor values that are NaN (`find_nulls` raises for them), drop positions that are "
    "negative, frames whose transforms return a Series with an index different from the data's",
]
ASSUMPTIONS = [
    "the caller's drop set contains row positions of the data (0 <= i < nrows); positions outside the frame are exercised "
    "as a malformed stream through the correspondence only",
    "under na_action='ignore' with a caller-supplied drop set the oracle only demands that no row outside the caller's "
    "list is removed (the property text says 'every row is kept' and does not speak about the caller's list there)",
    "for one-call-per-part evaluation (ModelSpecs whose parts name different materializers) the oracle demands per part "
    "that no kept row is null/listed and that the final set is the union of everything removed",
]
RULE = (
    "frames of 1-12 rows: float columns a,b,c (NaN), nullable Int64 k (pandas.NA), object text A (None), Categorical B (NaN), "
    "row-id column rid; index in {default, unique strings, non-unique ints/strings, unsorted ints}; pandas frames and "
    "pyarrow tables; formulas of 1-3 parts (simple, `l ~ r`, `l ~ r1 | r2`, `r1 | r2`, empty part `~ 0`), each part rid + 0-3 "
    "terms over names, I(), {}, C(), C(, contr.sum), hashed(), center, scale, poly, bs, interactions; "
    "x na_action x caller drop set (none / empty / random subset) x entry point (sugar, formula, modelspec +-overrides "
    "+-fitted, modelspecs +-overrides +-fitted, materializer, one-call-per-part) x output x materializer. "
    "PLUS histories on one materializer object (PandasMaterializer / NarwhalsMaterializer over pandas or pyarrow data): 2-3 "
    "get_model_matrix calls, each with its own formula (terms drawn from a pool shared by the history, so factors recur; or "
    "the ModelSpec(s) an earlier call returned), na_action, output type and caller drop set (none / empty / random subset); "
    "every call observed on the reused object and on a new one. "
    "non-trivial = drop policy, at least one row removed and one kept; distinct by canonical JSON"
)

VARIANT = os.environ.get("VERIF_C06_VARIANT", "current")

# ----------------------------------------------------------------------------- generators

NUM = ["a", "b", "c"]
STATEFUL = ("center(", "scale(", "poly(", "bs(")


def gen_index(rng, n):
    kind = rng.choice(["default", "default", "string", "nonunique", "nonunique", "unsorted"])
    if kind == "default":
        labels = list(range(n))
    elif kind == "string":
        labels = [f"r{j}" for j in rng.sample(range(3 * n + 2), n)]
    elif kind == "unsorted":
        labels = rng.sample(range(-2, 2 * n + 3), n)
    else:
        pool = rng.randint(1, max(1, n - 1))
        labels = [rng.randrange(pool) for _ in range(n)]
        if rng.random() < 0.3:
            labels = [f"g{j}" for j in labels]
    return {"kind": kind, "labels": labels}


def gen_data(rng, n):
    pnull = rng.choice([0.0, 0.1, 0.25, 0.5])
    data = {}
    for v in NUM:
        data[v] = [None if rng.random() < pnull else rng.randint(1, 9) for _ in range(n)]
    data["k"] = [None if rng.random() < pnull / 2 else rng.randint(0, 5) for _ in range(n)]
    data["A"] = [None if rng.random() < pnull else rng.choice(["x", "y", "z"]) for _ in range(n)]
    data["B"] = [None if rng.random() < pnull else rng.choice(["u", "v"]) for _ in range(n)]
    return data


def gen_term(rng, allow_stateful=True):
    v, w = rng.sample(NUM, 2)
    cat = rng.choice(["A", "B"])
    pool = [
        v, v, "k", f"I({v} + 1)", f"{{{v} * 2}}", cat, cat, f"C({cat})", f"C({cat}, contr.sum)", f"C({v})",
        f"hashed({cat}, levels=3)", f"hashed({v}, levels=2)", f"{v}:{w}", f"{v}:{cat}", "A:B", f"C({cat}):{w}",
        f"hashed({cat}, levels=2):{v}",
    ]
    if allow_stateful:
        pool += [f"center({v})", f"scale({v})", f"poly({v}, 2)", f"bs({v}, df=3)"]
    return rng.choice(pool)


def gen_part(rng, pool=None):
    terms = ["rid"]
    for _ in range(rng.choice([0, 1, 1, 2, 2, 3])):
        if pool and rng.random() < 0.75:
            t = rng.choice(pool)  # (histories) a term other calls on the same object use as well
        else:
            t = gen_term(rng, allow_stateful=rng.random() < 0.3)
        if t not in terms:
            terms.append(t)
    pre = rng.choice(["", "", "", "0 + ", "-1 + "])
    return pre + " + ".join(terms)


def gen_formula(rng, pool=None):
    r = rng.random()
    if r < 0.5:
        return gen_part(rng, pool), 1
    if r < 0.75:
        return gen_part(rng, pool) + " ~ " + gen_part(rng, pool), 2
    if r < 0.83:
        return gen_part(rng, pool) + " ~ 0", 2
    if r < 0.93:
        return gen_part(rng, pool) + " ~ " + gen_part(rng, pool) + " | " + gen_part(rng, pool), 3
    return gen_part(rng, pool) + " | " + gen_part(rng, pool), 2


def gen_caller(rng, n):
    r = rng.random()
    if r < 0.3:
        return None
    if r < 0.4:
        return []
    return sorted(set(rng.randrange(n) for _ in range(rng.randint(1, max(1, n // 2)))))


def gen_history(rng, tier):
    """2-3 get_model_matrix calls on ONE materializer object: formulas over a shared pool of terms (or the spec an
    earlier call returned), each call with its own null policy, output type and caller drop set"""
    n = rng.randint(2, 12) if rng.random() < 0.85 else rng.randint(1, 4)
    frame = "arrow" if rng.random() < 0.15 else "pandas"
    index = gen_index(rng, n) if frame == "pandas" else {"kind": "default", "labels": list(range(n))}
    mat = "narwhals" if frame == "arrow" else rng.choice(["pandas", "pandas", "narwhals"])
    outs = ["pandas", "pandas", "numpy", "sparse"] + (["narwhals"] if mat == "narwhals" else [])
    pool = []
    for _ in range(rng.randint(2, 5)):
        t = gen_term(rng, allow_stateful=rng.random() < 0.2)
        if t not in pool:
            pool.append(t)
    calls = []
    for i in range(rng.choice([2, 2, 3])):
        replay = None
        if i > 0 and rng.random() < 0.25:
            replay = rng.randrange(i)  # pass the ModelSpec(s) that call `replay` returned (its formula when it raised)
            formula = calls[replay]["formula"]
        else:
            formula, _ = gen_formula(rng, pool)
        calls.append(dict(
            formula=formula,
            replay=replay,
            policy=rng.choice(["drop", "drop", "drop", "raise", "ignore"]),
            caller=gen_caller(rng, n),
            output=rng.choice(outs),
        ))
    return dict(kind="history", nrows=n, data=gen_data(rng, n), index=index, frame=frame, mat=mat, calls=calls)


def gen_case(rng, tier, malformed=False):
    n = rng.randint(1, 12) if rng.random() < 0.85 else rng.randint(1, 4)
    formula, nparts = gen_formula(rng)
    while malformed and formula.endswith("~ 0"):  # (an empty part with more drop positions than rows: not modelled)
        formula, nparts = gen_formula(rng)
    frame = "arrow" if rng.random() < 0.12 else "pandas"
    index = gen_index(rng, n) if frame == "pandas" else {"kind": "default", "labels": list(range(n))}
    structured = nparts > 1
    if structured:
        entry = rng.choice(["sugar", "formula", "modelspecs", "modelspecs", "materializer", "nonjoint"])
        if entry == "nonjoint" and (frame != "pandas" or nparts < 2):
            entry = "modelspecs"
    else:
        entry = rng.choice(["sugar", "formula", "modelspec", "modelspec", "materializer"])
    mat = "narwhals" if frame == "arrow" else rng.choice(["pandas", "pandas", "pandas", "narwhals"])
    outs = ["pandas", "pandas", "numpy", "sparse"] + (["narwhals"] if mat == "narwhals" and entry != "nonjoint" else [])
    r = rng.random()
    if malformed:
        caller = sorted(set([n + rng.randint(0, 2)] + [rng.randrange(n) for _ in range(rng.randint(0, 2))]))
    elif r < 0.3:
        caller = None
    elif r < 0.4:
        caller = []
    else:
        caller = sorted(set(rng.randrange(n) for _ in range(rng.randint(1, max(1, n // 2)))))
    return dict(
        kind="oor" if malformed else "call",
        nrows=n,
        data=gen_data(rng, n),
        index=index,
        frame=frame,
        formula=formula,
        policy=rng.choice(["drop", "drop", "drop", "raise", "ignore"]),
        caller=caller,
        entry=entry,
        overrides=rng.random() < 0.5,
        # (a fitted structured spec keeps each factor's encoder state in ONE part only, so re-using it one part per call
        #  is a spec-replay matter, C04 — not exercised here)
        fitted=rng.random() < 0.3 and entry != "nonjoint",
        output=rng.choice(outs),
        mat=mat,
    )


def cases(rng, tier):
    n = {"quick": 1400, "thorough": 9000, "search": 250}[tier]
    for _ in range(n):
        yield gen_case(rng, tier)
    for _ in range(max(6, n // 40)):
        yield gen_case(rng, tier, malformed=True)
    for _ in range({"quick": 90, "thorough": 1200, "search": 60}[tier]):
        yield gen_history(rng, tier)


def describe(c):
    if c["kind"] == "history":
        pols = "/".join(k["policy"] + ("*" if k.get("replay") is not None else "") for k in c["calls"])
        return f"history[{pols}],{c['mat']}/{c['frame']},idx={c['index']['kind']}"
    return f"{c['entry']},{c['policy']},{c['mat']}/{c['frame']},{c['output']},idx={c['index']['kind']},caller={'none' if c['caller'] is None else 'set'}"


def _has_null(c):
    return any(v is None for col in c["data"].values() for v in col)


def nontrivial(c):
    if c["kind"] == "history":
        return c["nrows"] >= 2 and any(k["policy"] == "drop" and (_has_null(c) or bool(k["caller"])) for k in c["calls"])
    return c["kind"] == "call" and c["policy"] == "drop" and (_has_null(c) or bool(c["caller"])) and c["nrows"] >= 2


# ----------------------------------------------------------------------------- frames


def lab(x):
    if isinstance(x, str):
        return "s:" + x
    return "i:" + str(int(x))


def make_frame(c):
    n, d = c["nrows"], c["data"]
    if c["frame"] == "arrow":
        import pyarrow as pa

        cols = {"rid": pa.array([float(i) for i in range(n)], type=pa.float64())}
        for v in NUM:
            cols[v] = pa.array([None if x is None else float(x) for x in d[v]], type=pa.float64())
        cols["k"] = pa.array(d["k"], type=pa.int64())
        cols["A"] = pa.array(d["A"], type=pa.string())
        cols["B"] = pa.array(d["B"], type=pa.string())
        return pa.table(cols)
    cols = {"rid": numpy.arange(n, dtype=float)}
    for v in NUM:
        cols[v] = numpy.array([numpy.nan if x is None else float(x) for x in d[v]], dtype=float)
    cols["k"] = pandas.array(d["k"], dtype="Int64")
    cols["A"] = pandas.Series(d["A"], dtype=object)  # object dtype on purpose (pandas 3 `str` dtype is D8's business)
    cols["B"] = pandas.Categorical(d["B"], categories=["u", "v"])
    df = pandas.DataFrame(cols)
    assert df["A"].dtype == object
    df.index = pandas.Index(c["index"]["labels"])
    return df


def subframe(df, pos):
    if isinstance(df, pandas.DataFrame):
        return df.iloc[list(pos)]
    return df.take(list(pos))


# ----------------------------------------------------------------------------- observation helpers


def cell_is_null(x):
    """independent per-cell definition of "null" (never calls pandas.isnull / find_nulls)"""
    if x is None or x is pandas.NA or x is pandas.NaT:
        return True
    if isinstance(x, (float, numpy.floating)):
        return bool(x != x)
    return False


def independent_nulls(values):
    w = getattr(values, "__wrapped__", values)
    if isinstance(w, dict):
        out = set()
        for v in w.values():
            out |= independent_nulls(v)
        return out
    if isinstance(w, pandas.DataFrame):
        rows = w.values.tolist()
    elif isinstance(w, (pandas.Series, pandas.Categorical)):
        rows = [x for x in w.tolist()]
    elif isinstance(w, numpy.ndarray):
        rows = w.tolist()
    elif hasattr(w, "to_list"):  # narwhals series
        rows = w.to_list()
    elif isinstance(w, list):
        rows = w
    else:
        return set()
    out = set()
    for i, r in enumerate(rows):
        cells = r if isinstance(r, list) else [r]
        if any(cell_is_null(x) for x in cells):
            out.add(i)
    return out


def store_of(values):
    w = getattr(values, "__wrapped__", values)
    if isinstance(w, dict):
        w = next(iter(w.values()), None)
        w = getattr(w, "__wrapped__", w)
    if isinstance(w, (pandas.Series, pandas.DataFrame)):
        return "series"
    if isinstance(w, numpy.ndarray):
        return "ndarray"
    if isinstance(w, list):
        return "list"
    if hasattr(w, "to_list") and hasattr(w, "is_null"):
        return "nw"
    return "other:" + type(w).__name__


def enc_of(ef):
    enc = ef.metadata.encoder
    if enc is None:
        return "default"
    q = getattr(enc, "__qualname__", "")
    if q.startswith("C."):
        return "C"
    if q.startswith("hashed."):
        return "hashed"
    return "other:" + q


def _mat_class(name):
    from formulaic.materializers import NarwhalsMaterializer, PandasMaterializer

    return PandasMaterializer if name == "pandas" else NarwhalsMaterializer


def leaves(x):
    from formulaic.utils.structured import Structured

    if isinstance(x, Structured):
        return list(x._flatten())
    return [x]


def probe(c, df, matname):
    """evaluate every factor with na_action='ignore' through the materializer API and describe it"""
    from formulaic import Formula
    from formulaic.utils.null_handling import find_nulls

    m = _mat_class(matname)(df)
    try:  # step 1 (factor evaluation) fills the cache even when building the matrix fails later
        m.get_model_matrix(c["formula"], na_action="ignore", output="numpy")
    except Exception:
        pass
    parts = []
    for sub in Formula(c["formula"])._flatten():
        exprs = []
        for t in sub:
            for f in t.factors:
                if f.eval_method.value != "literal" and f.expr not in exprs:
                    exprs.append(f.expr)
        for x in exprs:
            if x not in m.factor_cache:
                raise KeyError(f"factor {x} was not evaluated")
        parts.append({"exprs": exprs, "intercept": any(str(t) == "1" for t in sub)})
    factors = {}
    for expr, ef in m.factor_cache.items():
        if ef.metadata.kind.value == "constant":
            continue
        factors[expr] = {
            "nulls": sorted(int(i) for i in find_nulls(ef.values)),
            "ind": sorted(independent_nulls(ef.values)),
            "store": store_of(ef.values),
            "enc": enc_of(ef),
        }
    return {"parts": parts, "factors": factors}


def err_kind(e):
    name, msg = type(e).__name__, str(e)
    if isinstance(e, ValueError) and "contains null values after evaluation" in msg:
        return "NullsPresent"
    if isinstance(e, IndexError):
        return "IndexError"
    if name in ("ValueError", "ArrowInvalid") and any(
        s in msg for s in ("Length of values", "must match", "expected length", "incompatible dimensions", "same length",
                           "could not be broadcast", "same shape", "All arrays must be of the same length", "dimension")
    ):
        return "LengthMismatch"
    return "Other:" + name


def observe_part(mm, output):
    spec = mm.model_spec
    names = [str(x) for x in spec.column_names]
    if output == "pandas":
        arr = numpy.asarray(mm.values if hasattr(mm, "values") else mm)
        idx = [lab(x) for x in mm.index]
        names = [str(x) for x in mm.columns]
    elif output == "sparse":
        arr, idx = mm.toarray(), None
    elif output == "narwhals":
        idx = None
        if hasattr(mm, "to_numpy"):
            arr = numpy.asarray(mm.to_numpy())
            if hasattr(mm, "columns"):
                names = [str(x) for x in mm.columns]
        elif hasattr(mm, "to_pandas"):
            arr = mm.to_pandas().values
            names = [str(x) for x in mm.column_names]
        else:
            arr = numpy.asarray(mm)
    else:
        arr, idx = numpy.asarray(mm), None
    arr = numpy.asarray(arr)
    if arr.ndim != 2:
        arr = arr.reshape((arr.shape[0], -1)) if arr.ndim > 0 else arr.reshape((0, 0))
    out = {"nrows": int(arr.shape[0]), "ncols": int(arr.shape[1]), "index": idx, "kept": None}
    if "rid" in names and names.index("rid") < arr.shape[1]:
        col = arr[:, names.index("rid")]
        out["kept"] = [int(x) if x == x else -1 for x in col.astype(float)]
    return out, names, arr


def run_entry(c, df, d):
    """the real call through the entry point named by the case; returns (result, per-part materializer names)"""
    import formulaic
    from formulaic import Formula, ModelSpec

    opts = {"na_action": c["policy"], "output": c["output"]}
    if c["mat"] == "narwhals" and c["frame"] == "pandas":
        opts["materializer"] = "narwhals"
    kw = {} if d is None else {"drop_rows": d}
    e = c["entry"]
    if e == "sugar":
        return formulaic.model_matrix(c["formula"], df, **kw, **opts), None
    if e == "formula":
        return Formula(c["formula"]).get_model_matrix(df, **kw, **opts), None
    if e == "materializer":
        o2 = {k: v for k, v in opts.items() if k != "materializer"}
        return _mat_class(c["mat"])(df).get_model_matrix(c["formula"], **kw, **o2), None
    if e in ("modelspec", "modelspecs", "nonjoint"):
        fit_opts = {k: v for k, v in opts.items() if k != "na_action"}
        if c["fitted"]:
            # a spec that has already been used once on the same data (default policy), then re-used
            spec = Formula(c["formula"]).get_model_matrix(df, **fit_opts).model_spec
            if c["overrides"]:
                call_opts = {"na_action": c["policy"]}
            else:
                spec = ModelSpec.from_spec(spec, na_action=c["policy"])
                call_opts = {}
        elif c["overrides"]:
            spec, call_opts = ModelSpec.from_spec(Formula(c["formula"])), dict(opts)
        else:
            spec, call_opts = ModelSpec.from_spec(Formula(c["formula"]), **opts), {}
        mats = None
        if e == "nonjoint":
            names = []

            def setmat(s):
                nm = ["pandas", "narwhals"][len(names) % 2]
                names.append(nm)
                return s.update(materializer=nm)

            spec = spec._map(setmat, as_type=type(spec))
            mats = [s.materializer for s in spec._flatten()]
            call_opts.pop("materializer", None)
        return spec.get_model_matrix(df, **kw, **call_opts), mats
    raise ValueError(e)


def expected_rows(c, pr):
    """positions that must survive according to the independent null definition (one-call entries)"""
    bad = set(c["caller"] or [])
    if c["policy"] == "drop":
        for f in pr["factors"].values():
            bad |= set(f["ind"])
    return [i for i in range(c["nrows"]) if i not in bad]


def clean_error(c, df, probes, rerun=None):
    """Does the same formula/output/materializer fail even on the frame that consists of just the rows that must
    survive, with no drop set (policy raise; for `ignore` the null rows stay, so policy ignore)? Then the failure
    has nothing to do with removing rows (e.g. output='narwhals' cannot encode a one-level factor).
    `rerun(frame, policy)`: how to repeat the call (default: through the entry point named by the case)."""
    if c["kind"] != "call":
        return None
    mat = c["mat"]
    K = expected_rows(c, probes[mat] if mat in probes else next(iter(probes.values())))
    c2 = dict(c, policy="ignore" if c["policy"] == "ignore" else "raise", caller=None)
    try:
        if rerun is not None:
            rerun(subframe(df, K), c2["policy"])
        else:
            run_entry(c2, subframe(df, K), None)  # same entry point, same options, nothing to drop
    except Exception as e:
        return type(e).__name__
    return None


def is_stateless(c):
    return not any(s in c["formula"] for s in STATEFUL)


def observe_call(c, df, probes, runner, sub=True, rerun=None, keep=None):
    """ONE real call — `runner(d)` makes it with `d` as the caller's set object (None: no drop_rows argument) — and what
    it shows: the error kind, or per part the rows / index / rid column, the caller's set afterwards, and (sub) whether
    every part equals the matrix built from the sub-frame of the rows that must survive. `keep`: dict that receives the
    raw result and arrays (not part of the observation)."""
    out = {}
    d = None if c["caller"] is None else set(c["caller"])
    try:
        res, mats = runner(d)
    except Exception as e:
        out["error"] = err_kind(e)
        out["msg"] = type(e).__name__ + ": " + str(e)[:160]
        out["clean_error"] = None if out["error"] == "NullsPresent" else clean_error(c, df, probes, rerun)
        return out
    parts, raw = [], []
    try:
        for mm in leaves(res):
            o, names, arr = observe_part(mm, c["output"])
            parts.append(o)
            raw.append((names, arr))
    except Exception as e:  # e.g. columns of another output type inside the matrix: no rows can be read off
        out["error"] = "Other:UnreadableResult"
        out["msg"] = f"UnreadableResult: what the call returned is not a {c['output']} matrix of numbers ({type(e).__name__}: {str(e)[:100]})"
        out["clean_error"] = None
        return out
    if keep is not None:
        keep["res"], keep["raw"] = res, raw
    out["parts"] = parts
    out["mats"] = mats
    out["final"] = None if d is None else sorted(int(x) for x in d)
    # --- metamorphic check: the matrix of the sub-frame of the rows that must survive
    out["sub"] = None
    if sub and c["policy"] == "drop" and c["entry"] != "nonjoint" and c["kind"] == "call" and is_stateless(c):
        K = expected_rows(c, probes[c["mat"]])
        try:
            sub = leaves(_mat_class(c["mat"])(subframe(df, K)).get_model_matrix(c["formula"], na_action="raise", output=c["output"]))
            ok = len(sub) == len(raw)
            why = None if ok else "number of parts differs"
            for j, (mm, (names, arr)) in enumerate(zip(sub, raw)):
                _, n2, a2 = observe_part(mm, c["output"])
                if n2 != names:
                    ok, why = False, f"part {j}: columns {names} vs sub-frame {n2}"
                    break
                if a2.shape != arr.shape or not numpy.array_equal(a2.astype(float), arr.astype(float)):
                    ok, why = False, f"part {j}: values differ from the matrix of the sub-frame of rows {K}"
                    break
            out["sub"] = {"ok": bool(ok), "why": why}
        except Exception as e:
            out["sub"] = {"ok": None, "why": "sub-frame run raised " + type(e).__name__ + ": " + str(e)[:100]}
    return out


def impl(c):
    if c["kind"] == "history":
        return impl_history(c)
    df = make_frame(c)
    out = {}
    # --- probe: evaluated factors (storage, encoder, what find_nulls flags, independent nulls)
    try:
        if c["entry"] == "nonjoint":
            out["probe"] = {"pandas": probe(c, df, "pandas"), "narwhals": probe(c, df, "narwhals")}
        else:
            out["probe"] = {c["mat"]: probe(c, df, c["mat"])}
    except Exception as e:
        return {"probe_error": type(e).__name__ + ": " + str(e)[:160]}
    # --- the call
    fitted = c["fitted"] and c["entry"] in ("modelspec", "modelspecs")  # levels then come from the recorded state
    out.update(observe_call(c, df, out["probe"], lambda d: run_entry(c, df, d), sub=not fitted))
    return out


def call_case(c, k):
    """call `k` of a history as a single-call case (entry point: the materializer's method)"""
    return dict(kind="call", nrows=c["nrows"], data=c["data"], index=c["index"], frame=c["frame"], mat=c["mat"],
                formula=k["formula"], policy=k["policy"], caller=k["caller"], output=k["output"],
                entry="materializer", overrides=False, fitted=False)


def _same_values(raw_a, raw_b):
    """do two observed results have the same columns and cell values, part by part?"""
    if len(raw_a) != len(raw_b):
        return False
    for (na, a), (nb, b) in zip(raw_a, raw_b):
        if na != nb or a.shape != b.shape:
            return False
        try:
            if not numpy.array_equal(a.astype(float), b.astype(float), equal_nan=True):
                return False
        except (TypeError, ValueError):
            if a.tolist() != b.tolist():
                return False
    return True


def impl_history(c):
    df = make_frame(c)
    M = _mat_class(c["mat"])
    m = M(df)  # THE object: every call of the history is made on it
    out = {"probes": [], "calls": [], "fresh": [], "replayed": [], "same_values": []}
    specs = []  # per call: the ModelSpec(s) the object returned (None: the call raised)
    for k in c["calls"]:
        ci = call_case(c, k)
        try:
            pr = {c["mat"]: probe(ci, df, c["mat"])}
        except Exception as e:
            return {"probe_error": type(e).__name__ + ": " + str(e)[:160]}
        j = k.get("replay")
        spec = specs[j] if j is not None and specs[j] is not None else k["formula"]
        replayed = spec is not k["formula"]
        opts = {"na_action": k["policy"], "output": k["output"]}

        def runner_on(obj, spec=spec, opts=opts):
            return lambda d: (obj.get_model_matrix(spec, **({} if d is None else {"drop_rows": d}), **opts), None)

        def rerun(df2, policy, spec=spec, k=k):
            return M(df2).get_model_matrix(spec, na_action=policy, output=k["output"])

        kf, kr = {}, {}
        fresh = observe_call(ci, df, pr, runner_on(M(df)), sub=False, rerun=rerun, keep=kf)
        # (no sub-frame comparison here: the values are compared with those of the new object, whose agreement with the
        #  sub-frame matrix is what the single-call stream checks)
        reused = observe_call(ci, df, pr, runner_on(m), sub=False, rerun=rerun, keep=kr)
        specs.append(kr["res"].model_spec if "res" in kr else None)
        out["probes"].append(pr)
        out["calls"].append(reused)
        out["fresh"].append(fresh)
        out["replayed"].append(bool(replayed))
        out["same_values"].append(_same_values(kf["raw"], kr["raw"]) if "raw" in kf and "raw" in kr else None)
    return out


def history_calls(c, o):
    """[(index, single-call case, single-call observation)] of a history"""
    return [(i, call_case(c, k), dict(o["calls"][i], probe=o["probes"][i])) for i, k in enumerate(c["calls"])]


# ----------------------------------------------------------------------------- request / agree


def _part_mats(c, o):
    k = len(next(iter(o["probe"].values()))["parts"])
    if c["entry"] == "nonjoint":
        return (o.get("mats") or [["pandas", "narwhals"][i % 2] for i in range(k)])
    return [c["mat"]] * k


def _model_mat(c, m):
    if m == "narwhals" and c["frame"] == "arrow":
        return "arrow"
    return m


def request(c, o):
    if c["kind"] == "history" and not ("harness_exception" in o or "probe_error" in o):
        calls = []
        for i, ci, oi in history_calls(c, o):
            r = _request_call(ci, oi, keys=True)
            calls.append(dict(policy=r["policy"], output=r["output"], caller=r["caller"], parts=r["parts"]))
        reset = os.environ.get("VERIF_C06_RESET", "1") != "0"  # 0: the model of the tree that kept its caches between calls
        return dict(op="history", variant=VARIANT, reset=reset, n=c["nrows"],
                    labels=[lab(x) for x in c["index"]["labels"]], calls=calls)
    return _request_call(c, o)


def _request_call(c, o, keys=False):
    if "harness_exception" in o or "probe_error" in o:
        return dict(op="noop", n=0, labels=[], policy="drop", output="numpy", entry="materializer", structured=False,
                    overrides=False, joint=True, caller=None, parts=[])
    mats = _part_mats(c, o)
    parts = []
    for j, m in enumerate(mats):
        pr = o["probe"][m]
        p = pr["parts"][j]
        parts.append(dict(
            mat=_model_mat(c, m),
            intercept=p["intercept"],
            factors=[dict(nulls=pr["factors"][x]["nulls"], store=pr["factors"][x]["store"], enc=pr["factors"][x]["enc"],
                          **({"key": x} if keys else {}))
                     for x in p["exprs"]],
        ))
    e = c["entry"]
    return dict(
        variant=VARIANT,
        n=c["nrows"],
        labels=[lab(x) for x in c["index"]["labels"]],
        policy=c["policy"],
        output=c["output"],
        entry={"nonjoint": "modelspecs"}.get(e, e),
        structured=len(parts) > 1,
        overrides=bool(c["overrides"]) and e in ("modelspec", "modelspecs", "nonjoint"),
        joint=e != "nonjoint",
        caller=c["caller"],
        parts=parts,
    )


def _rid_pos(c, o, j):
    m = _part_mats(c, o)[j]
    exprs = o["probe"][m]["parts"][j]["exprs"]
    return exprs.index("rid") if "rid" in exprs else None


def agree(c, o, m):
    if "driver_error" in m:
        return "driver: " + m["driver_error"][:300]
    if "harness_exception" in o or "probe_error" in o:
        return None
    if c["kind"] == "history":
        if len(m.get("calls", [])) != len(c["calls"]):
            return f"model answered {len(m.get('calls', []))} calls of {len(c['calls'])}"
        for (i, ci, oi), mi in zip(history_calls(c, o), m["calls"]):
            why = _agree_call(ci, oi, mi)
            if why:
                return f"call {i + 1} of {len(c['calls'])} on one materializer object (`{ci['formula']}`, {ci['policy']}): {why}"
        return None
    return _agree_call(c, o, m)


def _agree_call(c, o, m):
    if c["kind"] == "oor" and "error" in o and "error" in m:
        return None  # positions outside the frame: which of IndexError / length mismatch comes first is not modelled
    if o.get("error", "").startswith("Other:") and o.get("clean_error"):
        return None  # the formula cannot be materialised for this output even without nulls (encoders are not modelled)
    if "error" in o or "error" in m:
        oe, me = o.get("error"), m.get("error")
        return None if oe == me else f"impl {oe or 'no error'} ({o.get('msg', '')}) vs model {me or 'no error'}"
    if len(o["parts"]) != len(m["parts"]):
        return f"impl returned {len(o['parts'])} parts, model {len(m['parts'])}"
    for j, (a, b) in enumerate(zip(o["parts"], m["parts"])):
        if a["nrows"] != b["nrows"]:
            return f"part {j}: impl has {a['nrows']} rows, model {b['nrows']}"
        rp = _rid_pos(c, o, j)
        if rp is not None and a["kept"] is not None and a["kept"] != b["cols"][rp]:
            return f"part {j}: impl kept rows {a['kept']}, model {b['cols'][rp]}"
        bi = b["index"]
        if isinstance(bi, dict):
            bi = [f"i:{i}" for i in range(bi["range"])]
        if c["output"] == "pandas" and a["index"] != bi:
            return f"part {j}: impl index {a['index']}, model {bi}"
    if o["final"] != m["final"]:
        return f"caller's drop set afterwards: impl {o['final']}, model {m['final']}"
    return None


# ----------------------------------------------------------------------------- oracle


def _inc(xs):
    return all(x < y for x, y in zip(xs, xs[1:]))


def oracle(c, o):
    if "harness_exception" in o:
        return "harness could not run the implementation: " + o["harness_exception"]
    if "probe_error" in o:
        return None
    if c["kind"] == "history":
        return oracle_history(c, o)
    return _oracle_call(c, o)


def oracle_history(c, o):
    """every call made on the one materializer object must satisfy the property by itself (its own factors, its own
    caller set), and must show the rows / labels / values / drop set / null error of the call on a new object"""
    for i, ci, oi in history_calls(c, o):
        head = (f"call {i + 1} of {len(c['calls'])} on ONE {c['mat']} materializer object "
                f"(`{ci['formula']}`{' as the spec an earlier call returned' if o['replayed'][i] else ''}, "
                f"na_action={ci['policy']}, drop_rows={ci['caller']}, output={ci['output']}; earlier calls: "
                + "; ".join(f"`{k['formula']}` {k['policy']}" for k in c["calls"][:i]) + "): ")
        why = _oracle_call(ci, oi)
        if why:
            return head + why
        f = o["fresh"][i]
        fe, re_ = f.get("error"), oi.get("error")
        if fe is not None and fe != "NullsPresent":
            continue  # a new object cannot build this matrix either, for reasons other than nulls: nothing to compare
        if fe != re_:
            return head + (f"a new materializer object {'raises ' + f.get('msg', '') if fe else 'succeeds'}, "
                           f"the reused one {'raises ' + oi.get('msg', '') if re_ else 'succeeds'}")
        if fe:
            continue
        if ci["policy"] == "ignore" and ci["caller"]:
            continue  # (the property text does not say what happens to the caller's rows under `ignore`)
        for j, (a, b) in enumerate(zip(oi["parts"], f["parts"])):
            for what in ("nrows", "kept", "index"):
                if a[what] != b[what]:
                    return head + f"part {j}: {what} is {a[what]}, a new materializer object gives {b[what]}"
        if oi["final"] != f["final"]:
            return head + f"caller's drop set afterwards is {oi['final']}, with a new materializer object {f['final']}"
        if o["same_values"][i] is False:
            return head + "the rows are those a new materializer object returns, but columns or cell values differ from them"
    return None


def _oracle_call(c, o):
    if c["kind"] != "call":
        return None
    n, pol = c["nrows"], c["policy"]
    caller = set(c["caller"] or [])
    labels = [lab(x) for x in c["index"]["labels"]]
    # (0) find_nulls against the independent definition
    for mname, pr in o["probe"].items():
        for expr, f in pr["factors"].items():
            if f["nulls"] != f["ind"]:
                return f"find_nulls flags rows {f['nulls']} of `{expr}` ({mname}), but the cells that are None/NaN/NA are in rows {f['ind']}"
    mats = _part_mats(c, o)
    per_part = []
    for j, mname in enumerate(mats):
        pr = o["probe"][mname]
        s = set()
        for x in pr["parts"][j]["exprs"]:
            s |= set(pr["factors"][x]["ind"])
        per_part.append(s)
    nulls = set().union(*per_part) if per_part else set()
    err = o.get("error")
    if err and err != "NullsPresent" and o.get("clean_error"):
        return None  # fails identically on the clean sub-frame without any drop: not a missing-data matter
    if pol == "raise":
        if nulls and err != "NullsPresent":
            return f"raise policy: evaluated factors have nulls in rows {sorted(nulls)} but " + (f"the error was {o.get('msg')}" if err else "no error was raised")
        if not nulls and err:
            return f"raise policy: no evaluated factor has a null, yet {o.get('msg')}"
        if err:
            return None
    elif err:
        return f"{pol} policy: the call raised {o.get('msg')}"
    joint = c["entry"] != "nonjoint"
    check_index = c["output"] == "pandas" and c["frame"] == "pandas"
    if pol == "ignore" and caller:
        for j, p in enumerate(o["parts"]):
            if p["kept"] is not None and (not _inc(p["kept"]) or not (set(range(n)) - caller) <= set(p["kept"])):
                return f"ignore policy: part {j} kept rows {p['kept']}; rows outside the caller's list {sorted(caller)} must all be kept, in order"
        return None
    removed_all = set()
    for j, p in enumerate(o["parts"]):
        if joint or c["caller"] is not None:
            bad = caller | (nulls if pol == "drop" else set())
        else:
            bad = per_part[j] if pol == "drop" else set()
        want = [i for i in range(n) if i not in bad]
        if joint:
            if p["kept"] is not None and p["kept"] != want:
                return f"{pol} policy: part {j} contains rows {p['kept']}; the rows with no null factor (nulls in {sorted(nulls)}) not listed by the caller ({sorted(caller)}) are {want}"
            if p["nrows"] != len(want):
                return f"{pol} policy: part {j} has {p['nrows']} rows; {len(want)} rows must remain ({want})"
        else:
            k = p["kept"]
            if k is not None:
                mine = caller | (per_part[j] if pol == "drop" else set())
                if not _inc(k) or set(k) & mine or not set(want) <= set(k):
                    return f"{pol} policy (one call per part): part {j} contains rows {k}; it must contain {want}, none of {sorted(mine)}, in order"
                removed_all |= set(range(n)) - set(k)
        if check_index and p["kept"] is not None and p["index"] is not None:
            wl = [labels[i] for i in p["kept"] if 0 <= i < n]
            if p["index"] != wl:
                return f"part {j}: output index is {p['index']}; the labels of the kept rows {p['kept']} are {wl}"
    if c["caller"] is not None:
        if joint:
            want_final = sorted(caller | (nulls if pol == "drop" else set()))
            if o["final"] != want_final:
                return f"caller's drop set is {o['final']} after the call; caller's rows {sorted(caller)} plus null rows {sorted(nulls) if pol == 'drop' else []} = {want_final}"
            for j, p in enumerate(o["parts"]):
                if p["kept"] is not None and sorted(set(range(n)) - set(p["kept"])) != o["final"]:
                    return f"caller's drop set {o['final']} is not the set of rows removed from part {j} ({sorted(set(range(n)) - set(p['kept']))})"
        else:
            want_final = sorted(caller | (nulls if pol == "drop" else set()))
            if o["final"] != want_final:
                return f"(one call per part) caller's drop set is {o['final']}; caller's rows plus all null rows = {want_final}"
    sub = o.get("sub")
    if sub and sub["ok"] is False:
        return "drop policy: " + str(sub["why"])
    return None


def classify(c, o, why):
    return None


LEVEL_TEXT = (
    "Proof: Lean theorems (Props/C06.lean) about the executable model of the missing-data path show, for ALL frames, "
    "ALL index labellings (no uniqueness assumed), null patterns, caller drop sets, storage kinds, encoders, output types "
    "and entry points, that under the drop policy every part consists of exactly the rows not null in any factor and not "
    "listed by the caller, in order, with the labels of those rows as index; that the caller's set ends up as caller ∪ nulls "
    "= the rows removed; raise errors iff a null exists; ignore removes only the caller's rows; all encoders remove the same "
    "positions; and that for EVERY history of calls on one materializer object, from any cache content, each call gives "
    "what the same call on a new object gives (materializer_reuse), hence obeys the same row rule (reuse_drop_exact, "
    "reuse_raise_ignore). The model is tied to the code by a differential correspondence on every run; an independent oracle "
    "re-checks the property on the real output."
)
LEVEL_NOTE = (
    "Trusted: Lean kernel + propext/Classical.choice/Quot.sound; the hand model of base.py/null_handling.py/contrasts.py/"
    "hashed.py/model_spec.py/sugar.py row handling validated by correspondence; find_nulls' flags and storage kinds enter as "
    "per-case parameters (find_nulls is checked against an independent null definition); pandas/numpy selection primitives are modelled."
)
