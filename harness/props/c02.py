"""C02 — Every model-matrix column holds exactly the product its name denotes.

Correspondence streams (engine `c02`; models `Model/NestedMatrix.lean` + `Model/FactorEncode.lean` for factor values of
any shape, and `Model/Materialize.lean` + `Model/Columns.lean`, the flat model that C03 also runs):

* `matrix`   the real `materializer.get_model_matrix(formula, …)` against `Model.Nest.nbuildStructure` /
             `nbuildMatrix`. For a NUMERICAL factor the harness forwards the evaluated values and their
             `FactorValuesMetadata` only (a column, a nested dict, a DataFrame, a 2-d array, …): `as_columns`, `map_dict`
             (reserved `__` keys), the metadata re-wrapping (`encoded=True`), the drop-field step and the recursive
             flattening with per-dict format templates are computed by the model. For a plain CATEGORICAL data column it
             forwards the categories and per-row codes from the CASE and the model computes the dummy coding (one
             indicator per level) and its metadata itself. A literal's value is computed by the model from its text.
             Only for encoders the model does not re-implement (`C(…)` closures, contrasts other than the default, dict-
             valued categorical factors) the object stored in `encoded_cache` is forwarded, as a value tree with metadata.
             The model returns the per-term scoped terms, the column names and the exact values. When the encodings are
             flat the SAME case is also evaluated by the flat model (`matrix` op of the engine) and compared.
             Sub-streams: `typed` (every numpy storage dtype with full-width values), `wrap` (known finding C02-F1),
             `shaped` (factors that are not a single column: nested dicts, reserved keys, DataFrames, 2-d arrays with /
             without column_names, custom format / format_reduced / drop_field / spans_intercept, pre-encoded values,
             `None`, dict-valued categorical factors, poly / bs inside interactions; matrices without any column),
             `quoted` (Python-expression factors over a back-quoted column whose name is not an identifier AND the column
             whose name equals the identifier the first is rewritten to - I(`a b` - `a_b`), {`w.1` * w_1},
             np.maximum(...), both orders, twin back-quoted or bare: a fixed table of 64 cases + 5% random; the oracle
             recomputes the factor from BOTH data columns with plain numpy), every
             output type of each materializer (`narwhals` included) and every supported input container (DataFrame, dict
             of columns / of scalars, numpy record array, narwhals wrapper).
* `shape-error` malformed stream: a factor on which `_encode_evaled_factor` must raise (array with more than two
             dimensions, `column_names` shorter than the array, `spans_intercept` without / with an absent `drop_field`):
             model and code must raise the same exception class (ValueError / IndexError / KeyError).
* `encode`   `_encode_evaled_factor` of PandasMaterializer / NarwhalsMaterializer directly on random value trees (depth
             <= 3) with random metadata on every level, for both rank settings, against `Model.Nest.encodeFactor`.
* `columns`  `_get_columns_for_term` of the base class / PandasMaterializer / NarwhalsMaterializer
             on random factor dictionaries against `Model.columnsBase` / `columnsFast` and their path-labelled twins.
* `simplify` `_simplify_scoped_terms` on random lists of scoped terms against `Model.simplify`.
* `badname`  malformed stream: a formula that names a column that does not exist.

Oracle (implementation only): rank reduction off -> the whole matrix is recomputed from the DATA
(indicator per level in level order, numeric expressions re-evaluated by numpy, shaped factors from their own
independent description with the naming rule `name[key][key]…` / their format templates), term by term,
row-wise Kronecker order with the first factor fastest, times the literal scale; rank reduction on
-> every emitted column is recomputed from the implementation's own encoded factors named by its
scoped term, the scale must be the product of the term's literals, treatment-coded columns must be
level indicators and the encoded columns of a numeric factor must be the data column / the re-evaluated expression
its label names (exactly, for every storage dtype and output type). The intercept must be a column of ones named `Intercept`.
`encode`: the flattened dict is recomputed from the case description by `spec_encode`, written from the documentation of
`FactorValuesMetadata` / `as_columns` independently of the Lean model.
"""
from __future__ import annotations

import itertools
import string
from fractions import Fraction

import numpy
import pandas

PROPERTY = "C02"
ENGINE = "c02"
REQUIRED_THEOREMS = [
    # flat model (Model/Materialize.lean; also run by C03)
    "scale_preserved",
    "column_is_product",
    "intercept_column",
    "fastpath_eq_base",
    "kron_full",
    "label_string_faithful",
    # factor values of any shape (Model/NestedMatrix.lean + Model/FactorEncode.lean)
    "nested_scale_preserved",
    "nested_column_is_product",
    "nested_intercept_column",
    "nested_fastpath_eq_base",
    "nested_kron_full",
    "kron_full_from_data",
    "nested_label_string_faithful",
    # encoder stages, term order, repeated names
    "encode_items_are_leaves",
    "encode_names_complete",
    "default_format_name",
    "numerical_encoding_is_identity",
    "drop_field_step",
    "categorical_full_encoding",
    "categorical_reduced_encoding",
    "label_parts_in_data",
    "cluster_by_numerical_order",
    "matrix_is_concatenation",
    "duplicate_names_dictionary",
]
TRUSTED = [
    "modelled, not verified: factor EVALUATION (column lookup, Python expressions, stateful transforms) - the evaluated values "
    "and their FactorValuesMetadata enter the model as data, read from materializer.factor_cache; kind inference is C08's",
    "encoders the model does not re-implement - `C(...)` encoder closures, contrasts other than the default dummy coding, "
    "dict-valued categorical factors - enter as data: the object stored in encoded_cache per rank setting, as a value tree "
    "with the metadata the encoder attached. Everything else of `_encode_evaled_factor` is computed by the model: as_columns, "
    "map_dict, re-wrapping, drop-field step, recursive flattening; numerical factors and plain categorical data columns "
    "(dummy coding from the categories and codes of the CASE) need no forwarded encoding at all",
    "`pandas.Series(...).astype('category')` / recoding to recorded levels (which categories a column has, in which order) is "
    "not modelled: the categories are those of the case (declared order, else sorted distinct values); C08 owns that step",
    "str.format on the factor-name templates is a parameter: templates are pre-parsed into literal/{name}/{field} segments by "
    "the harness (templates outside that fragment are not generated); the default template and the two treatment-coding "
    "templates are regenerated from the live classes (Gen/FactorMeta.lean)",
    "numpy/scipy element-wise multiplication and scalar scaling are modelled as exact rational arithmetic; inputs are "
    "small integers / dyadic rationals so the float results are exact (cases using contr.poly / contr.diff / poly / bs are "
    "compared with relative tolerance 1e-9; the VALUES poly and bs produce are C12/C13's business, here they are data)",
    "typed stream: numpy's arithmetic IN THE STORAGE DTYPE (type promotion, integer wrap-around, float16/float32 rounding of "
    "products) is not modelled; the generator keeps every term inside an exact-arithmetic envelope (`in_envelope`: every "
    "expression value fits each storage dtype it reads; row by row the product of all factor magnitudes and the literal "
    "scale fits the narrowest storage dtype of the term and 53 / 24 / 11 significant bits), so that any rounding or "
    "wrap-around observed is introduced by formulaic's own conversions, not by numpy's multiplication",
    "known finding C02-F1 (integer wrap-around of products computed in a narrow integer storage dtype) is NOT mirrored in "
    "the model, which stays exact: `classify` absorbs a case only if every wrong cell is precisely wrap-around of an "
    "all-integer term (`wrapped_cells`), every other oracle check passes with those cells left out, and the model "
    "disagrees with the implementation on such cells only, holding the exact product there",
    "input containers (dict, record array, narwhals wrapper) and output assembly (`_combine_columns`: DataFrame / ndarray / "
    "csc / narwhals frame) are exercised and judged by the oracle; the model sees them only through `asdict` (narwhals "
    "assembles non-sparse output through a {name: column} dict)",
    "not modelled: reuse of a stored `structure` (C04/C09), null handling / drop_rows (C06; pre-encoded values are not "
    "row-dropped by the code - cases with nulls are not generated here), numeric literals outside `digits[.digits]` "
    "(none exist in the formula grammar), `Factor(kind=...)` overrides of programmatically built factors",
]
ASSUMPTIONS = [
    "(nested_)column_is_product reads values row by row under the hypothesis that every encoded (leaf) column has one entry per retained row (numpy enforces equal shapes; the correspondence compares the column lengths of model and implementation)",
    "printed names are Python dict keys: when two columns of one factor's encoding, of one term (or, through the narwhals "
    "dict, of the whole matrix) print to the same name the later one replaces the earlier one's values in place; this is "
    "modelled (nitemSet / ndictSet), (nested_)kron_full is stated through the same dictionary semantics and "
    "duplicate_names_dictionary says what that dictionary holds",
    "a dict's keys are pairwise distinct (Python guarantees it); `Leaf` / `LeafAt` are stated by membership, so no theorem needs the hypothesis; categorical_*_encoding assume that no two levels PRINT alike (`str(level)`)",
    "(nested_)kron_full: a term lists each factor once (`Term.__init__` removes repeats)",
    "cluster_by_numerical_order: `numericalKey` succeeds for every term (every factor of the formula is in the factor cache, as after `_evaluate_factor`)",
]
RULE = (
    "matrix: random frames (1-6 rows quick, up to 40 thorough; 1-3 categorical columns with 1-4 levels incl. unused "
    "levels, object or Categorical dtype; 1-3 numeric columns over small integers/dyadics), formulas of 1-5 terms over "
    "names, C(x[, contr.*]), I(), {}, a two-column transform, 0-3 numeric literal scalings per term (every literal form of the "
    "grammar: 2, 0.5, .5, 1., 00, ...; distinct texts, any position), interactions up to degree 3, "
    "intercept on/off; x ensure_full_rank x output in pandas/numpy/sparse(/narwhals for the narwhals materializer) x cluster_by "
    "x materializer pandas/narwhals x input container (DataFrame; 15%: dict of columns or scalars, record array, narwhals wrapper) "
    "x history (12%: the same materializer instance has already produced another matrix over the same data with another output type / rank setting). "
    "typed matrix (n/2 extra cases, materializer pandas/narwhals evenly): the same frames/formulas with every plain numeric column stored as a random numpy dtype "
    "(int8/16/32/64, uint8/16/32/64, float16/32/64; 32-bit and wider weighted up) holding full-width values (magnitudes up to "
    "the dtype's maximum, 2**52 for 64-bit; n/4 dyadics for floats; small values mixed in), terms cut back to the "
    "exact-arithmetic envelope (see TRUSTED). "
    "wrap (max(4, n/45) cases + 2 corpus cases): a typed case with one extra all-numeric term over int8/16/32 / uint8/16/32 "
    "columns (computing dtype <= 32 bits) whose exact product leaves the integer range for some row; judged by the same "
    "oracle (exact product required), they fail on the current code and are classified as known finding C02-F1. "
    "shaped (n/3): 1-4 terms, the first factor of most terms is a factor that is not a single column (13 shapes: nested "
    "dict depth 2 and 3 with int keys, reserved __ keys, DataFrame, 2-d array with/without column_names, custom format, inner "
    "FactorValues with its own format, keys that print alike, pre-encoded, spans_intercept with drop_field and format_reduced, "
    "None, dict of categorical columns) or, on frames with 5+ rows and distinct values, poly(x,2|3) / bs(x,df=4); 4%: a matrix "
    "without columns (`0`, `0 + none(x)`). "
    "quoted (64 fixed + max(45, n/20) random): 1-2 pairs (odd name, sanitized twin: `a b`/a_b, `w.1`/w_1, `2x`/_2x, `u-v`/u_v) "
    "present in the data with different values in every row; 8 expression templates over both columns (difference both ways, "
    "product, np.maximum both ways, affine mixes; twin back-quoted or bare) alone, in interactions with categorical / numeric "
    "factors, with literal scalings, all outputs / materializers / containers / after a prior call. "
    "shape-error (max(6, n/30)): one malformed factor in a random formula. "
    "encode (n/3): top-level column / dict (depth <= 3) / DataFrame / 2-d array (column_names none, right, short, long) / 3-d "
    "array; keys from 13 labels (str, int, reserved, printing alike); metadata on the top level and 40% of inner dicts "
    "(8 format templates, format_reduced incl. empty, reduced, spans_intercept, drop_field present / absent / missing, encoded). "
    "columns: 1-4 factor dicts with 1-3 entries. simplify: up to 7 scoped terms over 4 factors. "
    "non-trivial = matrix case with an interaction term, encode case that is not a single column; distinct by canonical JSON"
)

# ----------------------------------------------------------------------------- helpers


def fstr(x) -> str:
    fr = Fraction(x)
    return str(fr.numerator) if fr.denominator == 1 else f"{fr.numerator}/{fr.denominator}"


def ffloat(s: str) -> float:
    return float(Fraction(s))


def col_values(v) -> list[float]:
    """column object (Series / ndarray / csc n x 1 / narwhals series / scalar broadcast) -> floats"""
    if hasattr(v, "toarray"):
        v = v.toarray()
    elif hasattr(v, "to_numpy"):
        v = v.to_numpy()
    a = numpy.asarray(v).astype(float).ravel()
    return [float(x) for x in a]


def parse_fmt(f):
    if not f:
        return None
    out = []
    for lit, name, spec, conv in string.Formatter().parse(f):
        if lit:
            out.append(["lit", lit])
        if name is not None:
            if name not in ("name", "field") or spec or conv:
                raise ValueError("unsupported format template " + repr(f))
            out.append([name])
    return out


def field_json(k):
    return {"t": str(k), "s": isinstance(k, str)}


# ----------------------------------------------------------------------------- atoms

CONTRASTS = ["treatment", "sum", "helmert", "SAS", "diff", "poly"]
INEXACT = ("contr.poly", "contr.diff")


def two(x):
    return {"p": x, "q": x * x}


CONTEXT = {"two": two, "np": numpy}

# numeric atoms: source text -> (normalised expr, numpy semantics over the frame)
NUM_ATOMS = {
    "{v}": ("{v}", lambda d, v, w: {None: d[v]}),
    "I({v}+1)": ("I({v} + 1)", lambda d, v, w: {None: d[v] + 1}),
    "{{{v}*2}}": ("{v} * 2", lambda d, v, w: {None: d[v] * 2}),
    "I({v}*{w})": ("I({v} * {w})", lambda d, v, w: {None: d[v] * d[w]}),
    "{{{v}-{w}}}": ("{v} - {w}", lambda d, v, w: {None: d[v] - d[w]}),
    "two({v})": ("two({v})", lambda d, v, w: {"p": d[v], "q": d[v] * d[v]}),
}


# Python-expression factors that mention a back-quoted column whose name is NOT an identifier (`a b`) together with the
# column whose name EQUALS the identifier the first one is rewritten to for evaluation (a_b), both present in the data
# with different values. The alias of a back-quoted name must never shadow a real column: the factor is computed from
# BOTH data columns. (odd name, its sanitized twin); {P} = the odd name in back-quotes, {Q} = the twin, back-quoted or bare.
QUOTED_PAIRS = [("a b", "a_b"), ("w.1", "w_1"), ("2x", "_2x"), ("u-v", "u_v")]
# normalised factor expression (as ast.unparse spaces it) -> plain numpy semantics over the two data columns
QUOTED_ATOMS = {
    "I({P} - {Q})": lambda p, q: p - q,
    "I({Q} - {P})": lambda p, q: q - p,
    "{P} * {Q}": lambda p, q: p * q,          # written `{{ ... }}` in the formula
    "{Q} * {P} + {P}": lambda p, q: q * p + p,
    "np.maximum({P}, {Q})": lambda p, q: numpy.maximum(p, q),
    "np.maximum({Q}, {P})": lambda p, q: numpy.maximum(q, p),
    "I({P} * 2 + {Q})": lambda p, q: p * 2 + q,
    "I({Q} + {P} * 4 - {Q} * 2)": lambda p, q: q + p * 4 - q * 2,
}


def quoted_source(tmpl, p, q, quote_q):
    """(formula source, normalised factor expression) of one quoted atom"""
    expr = tmpl.format(P=f"`{p}`", Q=(f"`{q}`" if quote_q else q))
    bare = not (expr.startswith("I(") or expr.startswith("np."))
    return ("{" + expr + "}" if bare else expr), expr


def quoted_semantics(expr, data):
    nums = data["num"]
    for p, q in QUOTED_PAIRS:
        if p in nums and q in nums:
            for tmpl, fn in QUOTED_ATOMS.items():
                for quote_q in (True, False):
                    if quoted_source(tmpl, p, q, quote_q)[1] == expr:
                        a = numpy.array([ffloat(x) for x in nums[p]])
                        b = numpy.array([ffloat(x) for x in nums[q]])
                        return fn(a, b)
    return None


def cat_atoms(v):
    out = [v, f"C({v})"]
    out += [f"C({v}, contr.{c})" for c in CONTRASTS]
    return out


def atom_semantics(expr, data):
    """normalised factor expr -> ('cat', var) | ('num', {field: array}) | None (unknown)"""
    cats, nums = data["cat"], data["num"]
    sh = shape_of(expr)
    if sh is not None and sh[0] in SHAPES and sh[1] in nums:
        return ("num", "shape")
    if sh is not None and sh[0] == "catd" and sh[1] in cats:
        return ("catd", sh[1])
    for v in cats:
        if expr in cat_atoms(v):
            return ("cat", v)
    qs = quoted_semantics(expr, data)
    if qs is not None:
        return ("num", {None: qs})
    d = {k: numpy.array([ffloat(x) for x in vals]) for k, vals in nums.items()}
    names = sorted(nums)
    for src, (norm, fn) in NUM_ATOMS.items():
        for v in names:
            for w in names:
                if norm.format(v=v, w=w) == expr:
                    return ("num", fn(d, v, w))
    return None


# ----------------------------------------------------------------------------- generators

# level labels are data: strings, integers from 1 and from 0, booleans, strings with "" first (the reference level of
# a factor is its first level whatever its label is - falsy labels included)
LEVEL_POOLS = [["a", "b", "c", "d"], ["u", "v", "w", "z"], ["lo", "mid", "hi", "top"], [1, 2, 3, 4], ["a b", "c-d", "e.f", "g"],
               [0, 1, 2, 3], [0, 1, 2, 3], [False, True], ["", "x", "y", "z"],
               # level labels that look like reserved keys of dict-valued factors: every level keeps its indicator
               ["__a", "b", "__", "_c"]]


def gen_data(rng, nrows, ncat=None, nnum=None):
    ncat = ncat if ncat is not None else rng.randint(1, 3)
    nnum = nnum if nnum is not None else rng.randint(1, 3)
    cat = {}
    for name in ["A", "B", "G"][:ncat]:
        pool = rng.choice(LEVEL_POOLS)
        k = min(rng.randint(1, 4), len(pool))
        falsy_first = pool[0] in (0, False, "")
        levels = pool[:k] if (falsy_first or rng.random() < 0.7) else rng.sample(pool, k)
        declared = rng.random() < 0.6
        codes = [rng.randrange(k) for _ in range(nrows)]
        if rng.random() < 0.3:  # leave a level unused
            codes = [c if c != k - 1 else 0 for c in codes]
        cat[name] = {"levels": levels, "codes": codes, "declared": declared}
    num = {}
    for name in ["x", "y", "z"][:nnum]:
        if rng.random() < 0.7:
            num[name] = [fstr(rng.randint(-4, 6)) for _ in range(nrows)]
        else:
            num[name] = [fstr(Fraction(rng.randint(-12, 12), 4)) for _ in range(nrows)]
    if cat and rng.random() < 0.08:
        # a numeric column whose NAME equals the printed name of an encoded level of a categorical column
        v = rng.choice(sorted(cat))
        lv = cat[v]["levels"][-1]
        num[rng.choice([f"{v}[T.{lv}]", f"{v}[{lv}]"])] = [fstr(rng.randint(2, 9)) for _ in range(nrows)]
    return {"nrows": nrows, "cat": cat, "num": num}


def make_frame(data):
    cols = {}
    for k, c in data["cat"].items():
        vals = [c["levels"][i] for i in c["codes"]]
        if c["declared"]:
            cols[k] = pandas.Categorical(vals, categories=c["levels"])
        else:
            cols[k] = pandas.Series(vals, dtype=object)
    for k, v in data["num"].items():
        cols[k] = typed_array(v, data.get("dtype", {}).get(k, "float64"))
    return pandas.DataFrame(cols)


def gen_atom(rng, data, used):
    cats, nums = sorted(data["cat"]), sorted(data["num"])
    if cats and (not nums or rng.random() < 0.55):
        v = rng.choice(cats)
        r = rng.random()
        if r < 0.5:
            return v
        if r < 0.6:
            return f"C({v})"
        return f"C({v}, contr.{rng.choice(CONTRASTS)})"
    v = rng.choice(nums)
    if not v.isidentifier():  # a column named like an encoded level: needs backticks
        return f"`{v}`"
    w = rng.choice([n for n in nums if n.isidentifier()])
    src = rng.choice(list(NUM_ATOMS) if rng.random() < 0.5 else ["{v}"])
    return src.format(v=v, w=w)


# every numeric-literal form of the formula grammar (`digits`, `digits.digits`, `.digits`, `digits.`); the model computes
# a literal's value from its TEXT (Model.Nest.parseLiteral), the oracle with Python's own Fraction
LITERALS = ["2", "3", "0.5", "2.5", "4", "5", ".5", "1.", "0.25", "10", "00", "0.0"]


def gen_formula(rng, data, accept=None):
    """`accept(atoms) -> bool` (typed stream): a term outside the exact-arithmetic envelope is cut back - first its
    literal scalings are dropped, then it is reduced to its first factor, then to a bare column"""
    nterms = rng.randint(1, 5)
    terms = []
    seen = set()
    for _ in range(nterms):
        k = rng.choice([1, 1, 2, 2, 2, 3])
        atoms = []
        for _ in range(k):
            a = gen_atom(rng, data, atoms)
            if a not in atoms:
                atoms.append(a)
        if frozenset(atoms) in seen:  # the parser rejects a repeated term with a different scaling
            continue
        seen.add(frozenset(atoms))
        # 0, 1, 2 or 3 numeric literal factors with distinct values, each at a random position among the
        # factors: the term's literal scale is the product of ALL of them, under both rank settings
        nlit = rng.choice([0, 0, 0, 1, 1, 2, 2, 3])
        bare = list(atoms)
        for lit in rng.sample(LITERALS, nlit):
            atoms.insert(rng.randrange(len(atoms) + 1), lit)
        if accept is not None and not accept(atoms):
            plain = sorted(data["cat"]) + [n for n in sorted(data["num"]) if n.isidentifier()]
            for alt in [bare, bare[:1], [rng.choice(plain)]]:
                if accept(alt) and (alt == bare or frozenset(alt) not in seen):
                    atoms = alt
                    break
            else:
                continue
            seen.add(frozenset(atoms))
        terms.append(":".join(atoms))
    icpt = rng.choice(["", "", "0 + ", "1 + ", "-1 + "])
    if not terms:
        terms = ["1"]
    return icpt + " + ".join(terms)


# ----------------------------------------------------------------------------- storage dtypes (typed stream)

# name -> (largest magnitude used, significant bits the dtype holds exactly, is_float, weight in the generator).
# 64-bit integers are used up to 2**52 only: every output type ends in float64 at the latest.
DTYPES = {
    "int8": (2**7 - 1, 7, False, 1),
    "int16": (2**15 - 1, 15, False, 1),
    "int32": (2**31 - 1, 31, False, 3),
    "int64": (2**52 - 1, 52, False, 2),
    "uint8": (2**8 - 1, 8, False, 1),
    "uint16": (2**16 - 1, 16, False, 1),
    "uint32": (2**32 - 1, 32, False, 3),
    "uint64": (2**52 - 1, 52, False, 2),
    "float16": (2**11 - 1, 11, True, 1),
    "float32": (2**24 - 1, 24, True, 2),
    "float64": (2**52 - 1, 52, True, 2),
}


def typed_array(vals, dtype):
    """exact construction of a stored column: integers from Python ints, floats from dyadic rationals"""
    if DTYPES[dtype][2]:
        return numpy.array([ffloat(x) for x in vals], dtype=dtype)
    return numpy.array([int(Fraction(x)) for x in vals], dtype=dtype)


def sig_bits(fr) -> int:
    """significant bits of a dyadic rational (0 for zero, 1 for a power of two); 99 if not dyadic"""
    fr = Fraction(fr)
    if fr == 0:
        return 0
    if fr.denominator & (fr.denominator - 1):
        return 99
    n = abs(fr.numerator)
    return (n // (n & -n)).bit_length()


# what the dtype itself can hold exactly: largest magnitude / significant bits (integers: the range is the limit)
MAXABS = {k: (v[0] if not v[2] else {"float16": 2**15, "float32": 2**100, "float64": 2**200}[k]) for k, v in DTYPES.items()}
PRECISION = {k: ({"float16": 11, "float32": 24, "float64": 53}[k] if v[2] else 64) for k, v in DTYPES.items()}


def holds(fr, dtype) -> bool:
    """can a column of this storage dtype hold the value exactly?"""
    fr = Fraction(fr)
    if DTYPES[dtype][2]:
        return sig_bits(fr) <= PRECISION[dtype] and abs(fr) <= MAXABS[dtype]
    lo = 0 if dtype.startswith("u") else -MAXABS[dtype]
    return fr.denominator == 1 and lo <= fr <= MAXABS[dtype]


def gen_typed_values(rng, dtype, nrows, full=False):
    top, bits, is_float, _ = DTYPES[dtype]
    signed = not dtype.startswith("u")
    kcol = bits if (full or rng.random() < 0.5) else rng.randint(2, bits)
    quarter = is_float and rng.random() < 0.3  # dyadic fractions n/4 with the same number of significant bits
    out = []
    for _ in range(nrows):
        r = rng.random()
        if r < 0.25:
            v = Fraction(rng.randint(-4 if signed else 0, 6))
        elif r < 0.32 and not quarter:
            v = Fraction(top)  # the largest magnitude this stream stores in the dtype
        else:
            k = rng.randint(max(1, kcol - 3), kcol)
            v = Fraction(rng.randint(2 ** (k - 1), 2**k - 1))
            if quarter:
                v = v / 4
        if signed and r >= 0.25 and rng.random() < 0.4:
            v = -v
        out.append(fstr(v))
    return out


def gen_typed_data(rng, nrows):
    """as gen_data, but every plain numeric column is STORED in a random numpy dtype (8-64 bit signed/unsigned
    integers, half/single/double floats) and holds values that need the full width of that dtype"""
    data = gen_data(rng, nrows)
    names = list(DTYPES)
    weights = [DTYPES[n][3] for n in names]
    data["dtype"] = {}
    for name in sorted(data["num"]):
        if not name.isidentifier():
            continue
        dt = rng.choices(names, weights)[0]
        data["dtype"][name] = dt
        data["num"][name] = gen_typed_values(rng, dt, nrows)
    return data


def _source_atom(atom, data):
    """source text of a numeric atom -> (columns it reads, exact semantics) | None"""
    nums = sorted(data["num"])
    if atom.startswith("`") and atom.endswith("`") and atom[1:-1] in nums:
        return [atom[1:-1]], NUM_ATOMS["{v}"][1], atom[1:-1], atom[1:-1]
    ids = [n for n in nums if n.isidentifier()]
    for src, (_, fn) in NUM_ATOMS.items():
        for v in ids:
            for w in ids:
                if src.format(v=v, w=w) == atom:
                    return ([v, w] if "{w}" in src else [v]), fn, v, w
    return None


def in_envelope(atoms, data) -> bool:
    """Is every arithmetic step of this term exact whatever dtype numpy carries it out in?

    With EXACT rational arithmetic: (a) the value of every numeric factor fits each storage dtype it reads (no
    wrap-around / rounding inside `x*y`, `x+1`, ... which numpy evaluates in the promoted storage dtype); (b) row by
    row, the product of the magnitudes (each at least 1) of all numeric factors, contrast entries and literal
    scalings stays within the narrowest storage dtype the term reads and its significant bits (sum over the
    factors, powers of two are free) within 53 and the precision of the narrowest float dtype it reads - so every
    partial product, in any association order and under any numpy type promotion, is exactly representable."""
    n = data["nrows"]
    dtypes = data.get("dtype", {})
    exact = {k: numpy.array([Fraction(x) for x in v], dtype=object) for k, v in data["num"].items()}
    mags = [Fraction(1)] * n
    bits = [0] * n
    used = set()

    def mul(*fields):
        # one factor; several fields (a multi-column transform) are alternatives, never multiplied with each other
        for i in range(n):
            mags[i] *= max([Fraction(1)] + [abs(Fraction(f[i])) for f in fields])
            b = max(sig_bits(f[i]) for f in fields)
            bits[i] += b if b > 1 else 0

    for a in atoms:
        if a in LITERALS:
            mul([Fraction(a)] * n)
            continue
        src = _source_atom(a, data)
        if src is None:
            # categorical factor: indicator / contrast entries (|entry| <= levels - 1; contr.poly / contr.diff are
            # compared with a relative tolerance)
            big = Fraction(3) if ("helmert" in a) else Fraction(1)
            mul([big] * n)
            continue
        cols, fn, v, w = src
        used.update(cols)
        fields = [list(f) for f in fn(exact, v, w).values()]
        for field in fields:
            for x in field:
                if not all(holds(x, dtypes.get(c, "float64")) for c in cols):
                    return False
        mul(*fields)
    for c in used:
        dt = dtypes.get(c, "float64")
        if any(m > MAXABS[dt] for m in mags) or any(b > PRECISION[dt] for b in bits):
            return False
    return all(b <= 53 for b in bits)


def gen_typed_matrix_case(rng, tier):
    maxrows = 6 if tier == "quick" else 20
    data = gen_typed_data(rng, rng.randint(1, maxrows))
    return dict(
        kind="matrix",
        data=data,
        formula=gen_formula(rng, data, accept=lambda atoms: in_envelope(atoms, data)),
        efr=rng.random() < 0.5,
        output=rng.choice(["pandas", "numpy", "sparse"]),
        cluster=rng.random() < 0.3,
        mat=rng.choice(["pandas", "narwhals"]),  # storage-dtype conversions live in each materializer's encoders
    )


# integer storage dtypes of known finding C02-F1 (products are computed in the promoted INTEGER dtype and wrap around)
WRAP_DTYPES = ["int8", "int16", "int32", "uint8", "uint16", "uint32"]
INT_LITERALS = ["2", "3", "4", "5"]


def _int_range(dtype):
    info = numpy.iinfo(dtype)
    return int(info.min), int(info.max), int(info.bits)


def _term_exact(atoms, data):
    """(scale, per-row exact product of the numeric factors) of a term made of numeric atoms and literals only"""
    exact = {k: numpy.array([Fraction(x) for x in v], dtype=object) for k, v in data["num"].items()}
    scale, prod, cols = Fraction(1), [Fraction(1)] * data["nrows"], []
    for a in atoms:
        if a in LITERALS:
            scale *= Fraction(a)
            continue
        c, fn, v, w = _source_atom(a, data)
        cols += c
        prod = [p * x for p, x in zip(prod, fn(exact, v, w)[None])]
    return scale, prod, cols


def leaves_integer_range(atoms, data) -> bool:
    """does the exact product of this all-integer term leave the range of the integer dtype numpy promotes its
    columns to (an integer-valued scale is multiplied in that dtype too, a fractional one in float64)?"""
    scale, prod, cols = _term_exact(atoms, data)
    lo, hi, _ = _int_range(numpy.result_type(*[numpy.dtype(data["dtype"][c]) for c in cols]))
    s = scale if scale.denominator == 1 and not any("." in a for a in atoms if a in LITERALS) else Fraction(1)
    return any(not lo <= s * p <= hi for p in prod)


def gen_wrap_matrix_case(rng, tier):
    """a typed case with ONE extra term outside the exact-arithmetic envelope with respect to integer range only: all
    its factors are numeric columns / expressions over int8/16/32 or uint8/16/32 columns (each expression value still
    fits its storage dtype), optionally scaled, and for some row the exact product leaves the range of the integer
    dtype the columns promote to. The property requires the exact product there (known finding C02-F1)."""
    maxrows = 6 if tier == "quick" else 20
    data = gen_typed_data(rng, rng.randint(1, maxrows))
    ids = [n for n in sorted(data["num"]) if n.isidentifier()]
    cols = rng.sample(ids, min(len(ids), rng.choice([1, 2, 2, 3])))
    dts = [rng.choice(WRAP_DTYPES) for _ in cols]
    if numpy.result_type(*dts).itemsize > 4:
        # uint32 next to a signed column promotes to int64, whose wrapped products are not exact in the float64
        # observables of this harness: keep the computing dtype at 32 bits or fewer
        dts = ["int32" if d == "uint32" else d for d in dts]
    for name, dt in zip(cols, dts):
        data["dtype"][name] = dt
        data["num"][name] = gen_typed_values(rng, dt, data["nrows"], full=True)
    for attempt in range(3):
        if attempt == 2:
            # dtypes whose promotion has room for the product (int8 x uint16 -> int32): one narrow dtype for the term
            for name in cols:
                data["dtype"][name] = min(dts, key=lambda d: numpy.dtype(d).itemsize)
                data["num"][name] = gen_typed_values(rng, data["dtype"][name], data["nrows"], full=True)
                data["num"][name][0] = fstr(DTYPES[data["dtype"][name]][0])
        atoms = []
        for name in cols:
            src = rng.choice(["{v}", "{v}", "I({v}+1)", "{{{v}*2}}"]).format(v=name)
            atoms.append(src if in_envelope([src], data) else name)
        lits = rng.sample(INT_LITERALS, rng.choice([1, 2])) if len(cols) == 1 else rng.sample([l for l in LITERALS if Fraction(l) != 0], rng.choice([0, 0, 1, 2]))
        for lit in lits:
            atoms.insert(rng.randrange(len(atoms) + 1), lit)
        if leaves_integer_range(atoms, data):
            break
        # make the first row overflow: the largest value the storage dtype holds, in every column of the term
        for name in cols:
            data["num"][name][0] = fstr(DTYPES[data["dtype"][name]][0])
    key = frozenset(a for a in atoms if a not in LITERALS)
    base = gen_formula(rng, data, accept=lambda t: in_envelope(t, data) and frozenset(a for a in t if a not in LITERALS) != key)
    parts = base.split(" + ")
    first = 1 if parts[0] in ("0", "1", "-1") else 0
    parts = [p for i, p in enumerate(parts) if i < first or frozenset(a for a in p.split(":") if a not in LITERALS) != key]
    parts.insert(rng.randint(first, len(parts)), ":".join(atoms))
    return dict(
        kind="matrix",
        data=data,
        formula=" + ".join(parts),
        efr=rng.random() < 0.5,
        output=rng.choice(["pandas", "numpy", "sparse"]),
        cluster=rng.random() < 0.3,
        mat=rng.choice(["pandas", "narwhals"]),
        wrap=True,
    )


def gen_matrix_case(rng, tier):
    maxrows = 6 if tier == "quick" else 40
    nrows = rng.randint(1, maxrows) if rng.random() < 0.8 else rng.randint(1, 6)
    data = gen_data(rng, nrows)
    c = dict(
        kind="matrix",
        data=data,
        formula=gen_formula(rng, data),
        efr=rng.random() < 0.5,
        output=rng.choice(["pandas", "numpy", "sparse"]),
        cluster=rng.random() < 0.3,
        mat=rng.choice(["pandas", "pandas", "pandas", "narwhals"]),
    )
    # every output type of the materializer, every supported input container
    if c["mat"] == "narwhals" and rng.random() < 0.25:
        c["output"] = "narwhals"
    if rng.random() < 0.15:
        set_container(rng, c)
    if rng.random() < 0.12:
        set_prior(rng, c)
    return c


def gen_columns_case(rng):
    nf = rng.randint(1, 4)
    nrows = rng.randint(1, 4)
    factors = []
    used = set()
    for i in range(nf):
        k = rng.choice([1, 1, 2, 3])
        f = []
        for j in range(k):
            name = f"f{i}" if k == 1 else f"f{i}[{j}]"
            if rng.random() < 0.05:
                name = f"f{i}:w{j}"
            if rng.random() < 0.1:  # two factors sharing an encoded column name
                name = "f0" if k == 1 else f"f0[{j}]"
            f.append({"name": name, "col": [fstr(rng.randint(-3, 4)) for _ in range(nrows)]})
        factors.append(f)
    return dict(
        kind="columns",
        factors=factors,
        scale=rng.choice(["1", "1", "2", "-3", "1/2", "0"]),
        cls=rng.choice(["base", "pandas", "narwhals"]),
        output=rng.choice(["pandas", "numpy", "sparse"]),
    )


def gen_simplify_case(rng):
    names = ["A", "B", "C", "D"][: rng.randint(1, 4)]
    n = rng.randint(0, 7)
    sts = []
    for _ in range(n):
        k = rng.randint(0, len(names))
        fs = [[e, rng.random() < 0.6] for e in rng.sample(names, k)]
        sts.append({"factors": fs, "scale": rng.choice(["1", "1", "2", "0"])})
    return dict(kind="simplify", sts=sts)


def gen_badname_case(rng):
    data = gen_data(rng, rng.randint(1, 4))
    return dict(kind="badname", data=data, formula=gen_formula(rng, data) + " + nosuch" + rng.choice(["", ":x", ":A"]),
                efr=rng.random() < 0.5, output="pandas", cluster=False, mat="pandas")


# ----------------------------------------------------------------------------- factor values of any shape
#
# Python-expression factors whose value is NOT a single column: nested dicts, dicts with reserved `__` keys, data
# frames, 2-d arrays with and without `column_names`, `FactorValues` dicts with their own format strings, drop field and
# `spans_intercept`, pre-encoded values, `None`. `fn` is what the formula calls (through the context); `sem` is the
# oracle's independent statement of which columns the factor denotes: a leaf is an array, a dict node is
# ("d", format template, [(key, node) ...]) AFTER the reserved keys have been left out. `top` gives the rank-reduction
# attributes of the factor (spans_intercept, drop key, reduced format template).

DEFAULT_FORMAT = "{name}[{field}]"


def _arr(x):
    return numpy.asarray(x.to_numpy() if hasattr(x, "to_numpy") else x, dtype=float)


def _FV(*a, **k):
    from formulaic.materializers.types import FactorValues

    return FactorValues(*a, **k)


def D(items, fmt=DEFAULT_FORMAT):
    return ("d", fmt, items)


SHAPES = {
    "nest": dict(fn=lambda x: {"a": {"p": x, "q": x * x}, "b": x + 1},
                 sem=lambda x: D([("a", D([("p", x), ("q", x * x)])), ("b", x + 1)])),
    "deep": dict(fn=lambda x: {"k": {"i": {"u": _arr(x), "v": _arr(x) * 2}}, 7: _arr(x) - 1},
                 sem=lambda x: D([("k", D([("i", D([("u", x), ("v", x * 2)]))])), (7, x - 1)])),
    "hid": dict(fn=lambda x: {"u": x, "__v": x * 3, "w": {"__z": x, "t": x * 2}, "__": x},
                sem=lambda x: D([("u", x), ("w", D([("t", x * 2)]))])),
    "frame": dict(fn=lambda x: pandas.DataFrame({"u": _arr(x), 3: 2 * _arr(x)}),
                  sem=lambda x: D([("u", x), (3, 2 * x)]), na="ignore"),
    "arr": dict(fn=lambda x: numpy.stack([_arr(x), _arr(x) * _arr(x), _arr(x) + 1], axis=1),
                sem=lambda x: D([(0, x), (1, x * x), (2, x + 1)])),
    "arrn": dict(fn=lambda x: _FV(numpy.stack([_arr(x), _arr(x) * _arr(x)], axis=1), column_names=("lin", "sq")),
                 sem=lambda x: D([("lin", x), ("sq", x * x)])),
    "fmt": dict(fn=lambda x: _FV({"a": _arr(x), "b": 2 * _arr(x)}, format="{name}<{field}>"),
                sem=lambda x: D([("a", x), ("b", 2 * x)], "{name}<{field}>")),
    "inner": dict(fn=lambda x: {"g": _FV({"p": _arr(x), "q": _arr(x) + 2}, format="{field}@{name}"), "h": _arr(x)},
                  sem=lambda x: D([("g", D([("p", x), ("q", x + 2)], "{field}@{name}")), ("h", x)])),
    "same": dict(fn=lambda x: {1: _arr(x), "1": 2 * _arr(x), "z": _arr(x) - 2},
                 sem=lambda x: D([(1, x), ("1", 2 * x), ("z", x - 2)])),
    "pre": dict(fn=lambda x: _FV({"a": _arr(x), "__b": 2 * _arr(x)}, encoded=True, kind="numerical"),
                sem=lambda x: D([("a", x), ("__b", 2 * x)]), no_sparse=True),
    "span": dict(fn=lambda x: _FV({"a": _arr(x), "b": 2 * _arr(x), "c": _arr(x) + 1}, kind="numerical", spans_intercept=True,
                                  drop_field="a", format_reduced="{name}<R.{field}>"),
                 sem=lambda x: D([("a", x), ("b", 2 * x), ("c", x + 1)]), top=dict(spans=True, drop="a", fmtr="{name}<R.{field}>")),
    "none": dict(fn=lambda x: None, sem=lambda x: None),
    # a dict of CATEGORICAL columns: every leaf goes through `_encode_categorical`, so the encoded value is a dict of
    # dicts that carry the metadata of the contrast coding; the argument is a categorical data column
    "catd": dict(fn=lambda a: _FV({"u": a, "w": a}, kind="categorical"), arg="cat", sem=None),
}
# shapes on which `_encode_evaled_factor` must raise (malformed stream `shape-error`): class expected by the model
ERROR_SHAPES = {
    "arr3": dict(fn=lambda x: numpy.zeros((len(_arr(x)), 2, 2)), na="ignore"),
    "arrshort": dict(fn=lambda x: _FV(numpy.stack([_arr(x)] * 3, axis=1), column_names=("a", "b"))),
    "nodrop": dict(fn=lambda x: _FV({"a": _arr(x), "b": _arr(x) + 1}, kind="numerical", spans_intercept=True)),
    "baddrop": dict(fn=lambda x: _FV({"a": _arr(x), "b": _arr(x) + 1}, kind="numerical", spans_intercept=True, drop_field="zz")),
}
for _k, _v in list(SHAPES.items()) + list(ERROR_SHAPES.items()):
    CONTEXT[_k] = _v["fn"]

# stateful transforms with several output columns (values are not dyadic: compared with relative tolerance)
TRANSFORM_ATOMS = ["poly({v}, 2)", "poly({v}, 3)", "bs({v}, df=4)"]
INEXACT_CALLS = ("poly(", "bs(")


def shape_of(expr):
    """normalised factor expression `name(v)` of a shaped atom -> (name, v) | None"""
    for k in list(SHAPES) + list(ERROR_SHAPES):
        if expr.startswith(k + "(") and expr.endswith(")"):
            return k, expr[len(k) + 1 : -1]
    return None


def oflat(name, node, fmt_top=None):
    """the oracle's own flattening: [(column name, array)] of a semantics tree (dict update semantics for equal names)"""
    if node is None:
        return []
    if not isinstance(node, tuple):
        return [(name, numpy.asarray(node, dtype=float))]
    _, fmt, items = node
    fmt = fmt_top or fmt
    out = {}
    for k, sub in items:
        out.update(dict(oflat(fmt.format(name=name, field=k), sub)))
    return list(out.items())


def shape_encoding(expr, data, reduced=False):
    """[(name, array)] the shaped factor `expr` denotes (full, or reduced when it spans the intercept) | None"""
    sh = shape_of(expr)
    if sh is not None and sh[0] == "catd" and sh[1] in data["cat"]:
        ci = data["cat"][sh[1]]
        vals = [ci["levels"][i] for i in ci["codes"]]
        inner = D([(lv, numpy.array([1.0 if v == lv else 0.0 for v in vals])) for lv in _levels(ci)])
        return oflat(expr, D([("u", inner), ("w", inner)]))
    if sh is None or sh[0] not in SHAPES or sh[1] not in data["num"]:
        return None
    x = numpy.array([ffloat(v) for v in data["num"][sh[1]]])
    node = SHAPES[sh[0]]["sem"](x)
    top = SHAPES[sh[0]].get("top")
    if reduced and top and top["spans"] and node is not None:
        node = ("d", node[1], [(k, v) for k, v in node[2] if k != top["drop"]])
        return oflat(expr, node, fmt_top=top.get("fmtr"))
    return oflat(expr, node)


def set_container(rng, c):
    """hand the data over as one of the other supported input types (a record array has no categorical dtype: its
    text columns arrive as objects, so the case declares no categories)"""
    c["container"] = rng.choice(["dict", "recarray"] if c["mat"] == "pandas" else ["nw"])
    if c["container"] == "recarray":
        for ci in c["data"]["cat"].values():
            ci["declared"] = False


def set_prior(rng, c):
    """an earlier call on the same materializer instance: a formula over the same data (sharing factors with the real
    one more often than not), another output type and rank setting"""
    outs = ["pandas", "numpy", "sparse"] + (["narwhals"] if c["mat"] == "narwhals" else [])
    parts = c["formula"].split(" + ")
    formula = " + ".join(rng.sample(parts, rng.randint(1, len(parts)))) if rng.random() < 0.7 else gen_formula(rng, c["data"])
    c["prior"] = dict(formula=formula, efr=rng.random() < 0.5, output=rng.choice([o for o in outs if o != c["output"]] or outs))


def gen_shaped_matrix_case(rng, tier):
    """a matrix case in which at least one term uses a factor that is not a single column"""
    maxrows = 6 if tier == "quick" else 25
    # poly / bs need enough distinct values (their own preconditions are C12/C13's business): when they are used the
    # frame has 5+ rows and the transformed column holds distinct values
    tvar = "x" if rng.random() < 0.25 else None
    data = gen_data(rng, rng.randint(5, max(7, maxrows)) if tvar else rng.randint(1, maxrows))
    if tvar:
        data["num"]["x"] = [fstr(v) for v in rng.sample(range(-6, 20), data["nrows"])]
    ids = [n for n in sorted(data["num"]) if n.isidentifier()]
    cats = sorted(data["cat"])
    nterms = rng.randint(1, 4)
    terms, seen, na, no_sparse = [], set(), None, False
    for i in range(nterms):
        atoms = []
        for j in range(rng.choice([1, 1, 2, 2, 3])):
            r = rng.random()
            if j == 0 and (i == 0 or r < 0.6):
                if tvar and rng.random() < 0.6:
                    a = rng.choice(TRANSFORM_ATOMS).format(v=tvar)
                else:
                    k = rng.choice(list(SHAPES))
                    if SHAPES[k].get("arg") == "cat" and not cats:
                        k = "nest"
                    a = f"{k}({rng.choice(cats if SHAPES[k].get('arg') == 'cat' else ids)})"
                    na = SHAPES[k].get("na", na)
                    no_sparse = no_sparse or SHAPES[k].get("no_sparse", False)
            else:
                a = gen_atom(rng, data, atoms)
            if a not in atoms:
                atoms.append(a)
        if frozenset(atoms) in seen:
            continue
        seen.add(frozenset(atoms))
        for lit in rng.sample(LITERALS, rng.choice([0, 0, 0, 1, 2])):
            atoms.insert(rng.randrange(len(atoms) + 1), lit)
        terms.append(":".join(atoms))
    icpt = rng.choice(["", "", "0 + ", "1 + "])
    if rng.random() < 0.04:
        # a matrix without any column: no term at all, or only terms none of whose factors has values
        icpt, terms, na, no_sparse = "0", [f"none({rng.choice(ids)})" for _ in range(rng.choice([0, 1]))], None, False
        if terms and rng.random() < 0.5:
            terms[0] += f":none({rng.choice(ids)})"
        icpt += " + " if terms else ""
    mat = rng.choice(["pandas", "pandas", "narwhals"])
    outs = ["pandas", "numpy"] + ([] if no_sparse else ["sparse"]) + (["narwhals"] if mat == "narwhals" else [])
    c = dict(kind="matrix", data=data, formula=icpt + " + ".join(terms or ([] if icpt == "0" else ["1"])), efr=rng.random() < 0.5,
             output=rng.choice(outs), cluster=rng.random() < 0.3, mat=mat, shaped=True)
    if na:
        c["na"] = na
    if rng.random() < 0.3:
        set_container(rng, c)
    if rng.random() < 0.12 and not na:
        set_prior(rng, c)
    return c


def gen_shape_error_case(rng, tier):
    """malformed stream: a factor on which `_encode_evaled_factor` raises (model and code must raise the same class)"""
    data = gen_data(rng, rng.randint(1, 5))
    ids = [n for n in sorted(data["num"]) if n.isidentifier()]
    k = rng.choice(list(ERROR_SHAPES))
    bad = f"{k}({rng.choice(ids)})"
    if rng.random() < 0.5 and data["cat"]:
        bad = rng.choice([bad + ":" + rng.choice(sorted(data["cat"])), rng.choice(sorted(data["cat"])) + ":" + bad])
    parts = gen_formula(rng, data).split(" + ")
    parts.insert(rng.randint(1 if parts[0] in ("0", "1", "-1") else 0, len(parts)), bad)
    c = dict(kind="shape-error", data=data, formula=" + ".join(parts), efr=rng.random() < 0.7,
             output=rng.choice(["pandas", "numpy", "sparse"]), cluster=False, mat=rng.choice(["pandas", "narwhals"]), shaped=True)
    if ERROR_SHAPES[k].get("na"):
        c["na"] = ERROR_SHAPES[k]["na"]
    return c


# --- direct stream on `_encode_evaled_factor`: random value trees with random metadata

ENC_KEYS = ["a", "b", "p", "q", 0, 1, "1", 2, "__h", "__", "x y", "T.a", "_u"]
ENC_FORMATS = ["{name}[{field}]", "{name}[{field}]", "{name}<{field}>", "{field}@{name}", "{name}.{field}", "{name}",
               "{field}", "{name}[T.{field}]"]


def gen_enc_meta(rng, keys, top):
    md = {}
    if rng.random() < 0.6:
        md["format"] = rng.choice(ENC_FORMATS)
    if rng.random() < 0.4:
        md["format_reduced"] = rng.choice(ENC_FORMATS + [""])
    if rng.random() < 0.15:
        md["reduced"] = True
    if rng.random() < (0.5 if top else 0.2):
        md["spans_intercept"] = True
    r = rng.random()
    if r < 0.45 and keys:
        md["drop_field"] = rng.choice(keys)
    elif r < 0.55:
        md["drop_field"] = "zz"
    if top and rng.random() < 0.15:
        md["encoded"] = True
    return md


def gen_enc_tree(rng, depth, nrows, top=False):
    if depth == 0 or (not top and rng.random() < 0.5):
        return {"c": [fstr(rng.randint(-3, 4)) for _ in range(nrows)]}
    keys = rng.sample(ENC_KEYS, rng.choice([0, 1, 1, 2, 2, 3, 4]))
    node = {"d": [[k, gen_enc_tree(rng, depth - 1, nrows)] for k in keys], "m": None}
    if top or rng.random() < 0.4:
        node["m"] = gen_enc_meta(rng, keys, top)
    return node


def gen_encode_case(rng):
    nrows = rng.randint(1, 4)
    col = lambda: [fstr(rng.randint(-3, 4)) for _ in range(nrows)]
    r = rng.random()
    if r < 0.08:
        top = {"t": "col", "c": col(), "m": gen_enc_meta(rng, [], True)}
    elif r < 0.6:
        top = dict(gen_enc_tree(rng, 3, nrows, top=True), t="dict")
    elif r < 0.72:
        keys = rng.sample(ENC_KEYS, rng.randint(0, 3))
        top = {"t": "frame", "cols": [[k, col()] for k in keys], "m": gen_enc_meta(rng, keys, True)}
    elif r < 0.95:
        n = rng.randint(0, 3)
        md = gen_enc_meta(rng, list(range(n)), True)
        q = rng.random()
        if q < 0.5:
            names = rng.sample(ENC_KEYS, n)
            md["column_names"] = names
            if names and rng.random() < 0.4:
                md["drop_field"] = rng.choice(names)
        elif q < 0.65:
            md["column_names"] = rng.sample(ENC_KEYS, max(0, n - 1))  # too short: IndexError (or none at all when empty)
        elif q < 0.75:
            md["column_names"] = rng.sample(ENC_KEYS, n + 1)
        top = {"t": "arr2", "cols": [col() for _ in range(n)], "m": md}
    else:
        top = {"t": "arrN", "m": gen_enc_meta(rng, [], True)}
    return dict(kind="encode", nrows=nrows, expr=rng.choice(["f", "g(x)", "h[0]", "a:b"]), top=top,
                output=rng.choice(["pandas", "numpy", "sparse"]), mat=rng.choice(["pandas", "narwhals"]))



def add_quoted_pair(rng, data, pair):
    """both columns of the pair, holding different values in every row"""
    p, q = pair
    n = data["nrows"]
    data["num"][p] = [fstr(rng.randint(-4, 6)) for _ in range(n)]
    data["num"][q] = [fstr(Fraction(data["num"][p][i]) + rng.choice([-7, -3, 2, 5, 10])) for i in range(n)]


def gen_quoted_matrix_case(rng, tier):
    """a matrix case with Python-expression factors over a back-quoted non-identifier column AND its sanitized twin"""
    maxrows = 6 if tier == "quick" else 25
    data = gen_data(rng, rng.randint(1, maxrows))
    pairs = rng.sample(QUOTED_PAIRS, rng.choice([1, 1, 2]))
    for pair in pairs:
        add_quoted_pair(rng, data, pair)
    terms, seen = [], set()
    for i in range(rng.randint(1, 4)):
        atoms = []
        for j in range(rng.choice([1, 1, 2, 2, 3])):
            if j == 0 and (i == 0 or rng.random() < 0.7):
                p, q = rng.choice(pairs)
                a = quoted_source(rng.choice(list(QUOTED_ATOMS)), p, q, rng.random() < 0.5)[0]
            else:
                a = gen_atom(rng, data, atoms)
            if a not in atoms:
                atoms.append(a)
        if frozenset(atoms) in seen:
            continue
        seen.add(frozenset(atoms))
        for lit in rng.sample(LITERALS, rng.choice([0, 0, 0, 1, 2])):
            atoms.insert(rng.randrange(len(atoms) + 1), lit)
        terms.append(":".join(atoms))
    mat = rng.choice(["pandas", "pandas", "narwhals"])
    c = dict(kind="matrix", data=data, formula=rng.choice(["", "", "0 + ", "1 + "]) + " + ".join(terms),
             efr=rng.random() < 0.5, output=rng.choice(["pandas", "numpy", "sparse"] + (["narwhals"] if mat == "narwhals" else [])),
             cluster=rng.random() < 0.3, mat=mat, quoted=True)
    if rng.random() < 0.15:
        set_container(rng, c)
    if rng.random() < 0.1:
        set_prior(rng, c)
    return c


def quoted_fixed_cases():
    """the fixed table: every quoted atom x every pair x twin back-quoted / bare, alone, in an interaction with a
    categorical column, scaled and next to another numeric column, cycling through rank settings, outputs, materializers"""
    outs = ["pandas", "numpy", "sparse"]
    k = 0
    for p, q in QUOTED_PAIRS:
        for tmpl in QUOTED_ATOMS:
            for quote_q in (True, False):
                atom = quoted_source(tmpl, p, q, quote_q)[0]
                data = {"nrows": 3, "cat": {"A": {"levels": ["u", "v"], "codes": [0, 1, 0], "declared": k % 2 == 0}},
                        "num": {"x": ["1", "-2", "3"], p: ["1", "2", "3"], q: ["10", "-20", "1/2"]}}
                formula = ["0 + " + atom, atom + ":A", "0 + 2:" + atom + ":x + A", "1 + A:" + atom + ":0.5 + `" + p + "` + " + q][k % 4]
                mat = "narwhals" if k % 5 == 4 else "pandas"
                yield dict(kind="matrix", data=data, formula=formula, efr=(k // 2) % 2 == 0,
                           output="narwhals" if (mat == "narwhals" and k % 3 == 0) else outs[k % 3],
                           cluster=False, mat=mat, quoted=True)
                k += 1


def cases(rng, tier):
    n = {"quick": 900, "thorough": 9000, "search": 200}[tier]
    yield from quoted_fixed_cases()
    for i in range(max(45, n // 20)):
        yield gen_quoted_matrix_case(rng, tier)
    for i in range(n):
        yield gen_matrix_case(rng, tier)
    for i in range(n // 2):
        yield gen_typed_matrix_case(rng, tier)
    for i in range(max(4, n // 45)):
        yield gen_wrap_matrix_case(rng, tier)
    for i in range(n // 3):
        yield gen_shaped_matrix_case(rng, tier)
    for i in range(max(6, n // 30)):
        yield gen_shape_error_case(rng, tier)
    for i in range(n // 3):
        yield gen_encode_case(rng)
    for i in range(n // 4):
        yield gen_columns_case(rng)
    for i in range(n // 4):
        yield gen_simplify_case(rng)
    for i in range(max(4, n // 40)):
        yield gen_badname_case(rng)


def _max_literals(formula):
    best = 0
    for t in formula.split(" + "):
        best = max(best, sum(1 for a in t.split(":") if a in LITERALS))
    return best


def describe(c):
    if c["kind"] == "matrix":
        typed = ",wrap" if c.get("wrap") else ",typed" if c["data"].get("dtype") else ",shaped" if c.get("shaped") else ",quoted" if c.get("quoted") else ""
        typed += "," + c["container"] if c.get("container") else ""
        typed += ",after-prior-call" if c.get("prior") else ""
        return f"matrix{typed},{c['mat']},{c['output']},efr={int(c['efr'])},maxlit={_max_literals(c['formula'])}"
    if c["kind"] == "encode":
        return f"encode,{c['top']['t']},{c['mat']},{c['output']}"
    return c["kind"]


def nontrivial(c):
    if c["kind"] == "encode":
        return c["top"]["t"] != "col"
    return c["kind"] == "matrix" and ":" in c["formula"]


# ----------------------------------------------------------------------------- impl


def _container(c, df):
    """the object handed to the materializer: the frame itself, a dict of columns (of scalars for a one-row frame
    whose text columns need no dtype), a numpy record array, or a narwhals wrapper (the registered / supported input types)"""
    kind = c.get("container", "frame")
    if kind == "dict":
        # (a scalar keeps neither a categorical dtype nor the object dtype of a non-text label)
        declared = any(isinstance(df[k].dtype, pandas.CategoricalDtype) or (df[k].dtype == object and not isinstance(df[k].iloc[0], str))
                       for k in df.columns)
        if len(df) == 1 and not declared:
            return {k: df[k].iloc[0] for k in df.columns}  # all scalars: a one-row frame
        return {k: df[k] for k in df.columns}
    if kind == "recarray":
        return df.to_records(index=False)
    if kind == "nw":
        import narwhals.stable.v1 as nw

        return nw.from_native(df)
    return df


def _materializer(c, df):
    from formulaic.materializers import NarwhalsMaterializer, PandasMaterializer

    cls = PandasMaterializer if c["mat"] == "pandas" else NarwhalsMaterializer
    return cls(_container(c, df), context=CONTEXT)


# --- serialisation of evaluated factor values for the model of `_encode_evaled_factor` (Model/FactorEncode.lean)

EMPTY_RAW = {"t": "val", "v": {"c": []}}


def meta_json(md):
    return {
        "cn": None if not md.column_names else [field_json(k) for k in md.column_names],
        "fmt": parse_fmt(md.format) or [],
        "enc": bool(md.encoded),
        "hasenc": md.encoder is not None,
        "spans": bool(md.spans_intercept),
        "drop": None if md.drop_field is None else field_json(md.drop_field),
        "red": bool(md.reduced),
        "fmtr": parse_fmt(md.format_reduced),
    }


def _unwrap(v):
    from formulaic.materializers.types import FactorValues

    return v.__wrapped__ if isinstance(v, FactorValues) else v


def val_json(v):
    """a column, or a (nested) dict with the metadata of each `FactorValues` level"""
    md = getattr(v, "__formulaic_metadata__", None)
    w = _unwrap(v)
    if isinstance(w, dict):
        return {"d": [[field_json(k), val_json(x)] for k, x in w.items()], "m": None if md is None else meta_json(md)}
    return {"c": [fstr(x) for x in col_values(w)]}


def raw_json(v):
    """`factor.values` as `as_columns` will see it"""
    import scipy.sparse as sp

    w = _unwrap(v)
    if w is None:
        return EMPTY_RAW
    if isinstance(w, pandas.DataFrame):
        return {"t": "frame", "cols": [[field_json(k), [fstr(x) for x in col_values(w.iloc[:, i])]] for i, k in enumerate(w.columns)]}
    if isinstance(w, numpy.ndarray) and w.ndim > 2:
        return {"t": "arrN"}
    if (isinstance(w, numpy.ndarray) and w.ndim == 2) or sp.issparse(w):
        a = numpy.asarray(w.toarray() if sp.issparse(w) else w, dtype=float)
        return {"t": "arr2", "cols": [[fstr(x) for x in a[:, i]] for i in range(a.shape[1])]}
    return {"t": "val", "v": val_json(v)}


def cat_json(ci):
    """a categorical data column as its categories (declared, else the sorted distinct values) and per-row codes"""
    lv = _levels(ci)
    idx = {repr(l): i for i, l in enumerate(lv)}
    return {"t": "cat", "levels": [field_json(l) for l in lv], "codes": [idx[repr(ci["levels"][k])] for k in ci["codes"]]}


def _cached_encoding(m, ef, spec, r):
    """the object `_encode_evaled_factor` keeps in `encoded_cache` for reduced_rank=r (an encoder the model does not
    re-implement: `C(...)` closures, `encode_contrasts` behind `_encode_categorical`)"""
    try:
        m._encode_evaled_factor(ef, spec, [], reduced_rank=r)
    except Exception:
        pass  # the cache entry is written before the steps that may raise (drop field, flattening)
    k = ef.expr
    if k in m.encoded_cache:
        enc = m.encoded_cache[k]
    elif (k, r) in m.encoded_cache:
        enc = m.encoded_cache[(k, r)]
    else:
        return None
    if isinstance(enc, tuple):
        enc = enc[0]
    return val_json(enc)


def rich_factors(m, spec, c):
    """every entry of `factor_cache` with what `_encode_evaled_factor` looks at. Numerical factors: the evaluated
    values and their metadata only (the model encodes them itself). Plain categorical data columns: categories and
    codes from the CASE (the model computes the dummy coding itself). Anything else: the cached encoder output."""
    from formulaic.parser.types import Factor

    cats = c.get("data", {}).get("cat", {})
    out = []
    for expr, ef in m.factor_cache.items():
        md = ef.metadata
        raw = ef.values.__wrapped__
        fj = {"expr": expr, "present": raw is not None, "kind": md.kind.value, "md": meta_json(md), "raw": EMPTY_RAW, "ext": None}
        if md.kind is Factor.Kind.CONSTANT:
            fj["value"] = fstr(raw)
        elif raw is None:
            pass
        elif (md.kind is Factor.Kind.CATEGORICAL and md.encoder is None and not md.encoded
              and ef.factor.eval_method.value == "lookup" and expr in cats):
            fj["raw"] = cat_json(cats[expr])
        elif not md.encoded and (md.encoder is not None or md.kind is not Factor.Kind.NUMERICAL):
            # an encoder the model does not re-implement: its cached results (the raw values are not looked at)
            full, red = _cached_encoding(m, ef, spec, False), _cached_encoding(m, ef, spec, True)
            if full is not None and red is not None:
                fj["ext"] = {"full": full, "reduced": red}
        else:
            fj["raw"] = raw_json(ef.values)
        out.append(fj)
    return out


def _enc_json(m, ef, spec, r):
    """the object `_encode_evaled_factor` holds right before the drop-field step, for reduced_rank=r"""
    m._encode_evaled_factor(ef, spec, [], reduced_rank=r)  # make sure the cache entry exists
    k = ef.expr
    enc = m.encoded_cache[k] if k in m.encoded_cache else m.encoded_cache[(k, r)]
    if isinstance(enc, tuple):
        # since the repair "every spec that uses a categorical factor records its encoder state" a cache entry is the
        # pair (encoded object, recorded encoder state); an encoded object itself is never a tuple
        enc = enc[0]
    md =getattr(enc, "__formulaic_metadata__", ef.metadata)
    if isinstance(enc, dict):
        for v in enc.values():
            if isinstance(v, dict):
                raise ValueError("nested encoded dict (not modelled)")
        cols = [[field_json(f), [fstr(x) for x in col_values(v)]] for f, v in enc.items()]
        isdict = True
    else:
        cols = [[field_json(""), [fstr(x) for x in col_values(enc)]]]
        isdict = False
    return {
        "dict": isdict,
        "cols": cols,
        "spans": bool(md.spans_intercept),
        "drop": None if md.drop_field is None else field_json(md.drop_field),
        "rmeta": bool(md.reduced),
        "fmt": parse_fmt(md.format),
        "fmtr": parse_fmt(md.format_reduced),
    }


def as_dict(c):
    """does `_combine_columns` of this materializer/output go through a {name: column} dict?
    (pandas materializer: never - since the fix "pandas output keeps columns that share a label" the frame is
    assembled by position; narwhals: `nw.from_dict` for everything but sparse)"""
    return c["mat"] == "narwhals" and c["output"] != "sparse"


def observe(m, mm, output, nrows, collapse=False, flat=True):
    """canonical observables of one materialisation (`flat=False`: leave out the flat per-factor encodings that only
    the model of `Model/Materialize.lean` reads; they cannot express nested dicts)"""
    from formulaic.parser.types import Factor

    spec = mm.model_spec
    out = {}
    out["terms"] = [[{"x": f.expr, "m": f.eval_method.value} for f in t.factors] for t in spec.formula]
    out["structure"] = [
        {
            "term": [f.expr for f in s.term.factors],
            "scoped": [
                {"factors": [[sf.factor.expr, bool(sf.reduced)] for sf in st.factors], "scale": fstr(st.scale)}
                for st in s.scoped_terms
            ],
            "columns": [str(x) for x in s.columns],
        }
        for s in spec.structure
    ]
    if output == "narwhals":
        w = mm.__wrapped__
        names = [str(x) for x in w.columns]
        arr = numpy.asarray(w.to_numpy()).astype(float).reshape((len(w), len(names)))
    elif output == "pandas":
        names = [str(x) for x in mm.columns]
        arr = numpy.asarray(mm).astype(float).reshape((len(mm), len(names)))
    else:
        names = [str(x) for x in spec.column_names]
        if collapse:  # narwhals builds the array from a {name: column} dict: repeated names collapse
            names = list(dict.fromkeys(names))
        arr = mm.toarray() if hasattr(mm, "toarray") else numpy.asarray(mm)
        arr = numpy.asarray(arr).astype(float)
    out["shape"] = [int(arr.shape[0]), int(arr.shape[1])] if arr.ndim == 2 else [nrows, 0]
    out["columns"] = [{"name": n, "values": [fstr(x) for x in arr[:, j]]} for j, n in enumerate(names)] if arr.ndim == 2 and arr.shape[1] == len(names) else None
    if out["columns"] is None:
        out["columns"] = []
        out["shape_mismatch"] = f"{arr.shape} vs {len(names)} names"
    factors = []
    for expr, ef in (m.factor_cache.items() if flat else ()):
        md = ef.metadata
        kind = md.kind.value
        raw = ef.values.__wrapped__
        fj = {
            "expr": expr,
            "present": raw is not None,
            "kind": kind,
            "spans": bool(md.spans_intercept),
        }
        if md.kind is Factor.Kind.CONSTANT:
            # constants are folded into the scale and never encoded (encoding one fails for sparse output)
            fj["value"] = fstr(raw)
            fj["full"] = fj["reduced"] = {"dict": False, "cols": [[field_json(""), []]], "spans": False, "drop": None,
                                          "rmeta": False, "fmt": [], "fmtr": None}
        else:
            fj["full"] = _enc_json(m, ef, spec, False)
            fj["reduced"] = _enc_json(m, ef, spec, True)
        factors.append(fj)
    out["factors"] = factors
    # the implementation's own flattened encodings per scoped factor (for the oracle)
    flat = {}
    for s in spec.structure:
        for st in s.scoped_terms:
            for sf in st.factors:
                key = sf.factor.expr + ("-" if sf.reduced else "")
                if key not in flat:
                    d = m._encode_evaled_factor(m.factor_cache[sf.factor.expr], spec, [], reduced_rank=sf.reduced)
                    flat[key] = [[str(k), col_values(v)] for k, v in d.items()]
    out["flat"] = flat
    return out


def impl_matrix(c):
    from formulaic.model_spec import ModelSpec

    df = make_frame(c["data"])
    m = _materializer(c, df)
    kw = dict(ensure_full_rank=c["efr"], output=c["output"], cluster_by="numerical_factors" if c["cluster"] else "none")
    if c.get("na"):
        kw["na_action"] = c["na"]
    if c.get("prior"):
        # history: the SAME materializer instance has already produced another matrix (other formula over the same
        # factors, other output type / rank setting); its caches must not leak into this call
        pr = c["prior"]
        try:
            m.get_model_matrix(pr["formula"], ensure_full_rank=pr["efr"], output=pr["output"],
                               **({"na_action": c["na"]} if c.get("na") else {}))
        except Exception:
            pass
    try:
        mm = m.get_model_matrix(c["formula"], **kw)
    except Exception as e:
        out = {"error": type(e).__name__, "msg": str(e)[:200]}
        if c.get("shaped"):
            # what the model needs to predict the same exception: the term list and the factors evaluated so far
            try:
                spec = ModelSpec.from_spec(c["formula"], **kw)
                out["terms"] = [[{"x": f.expr, "m": f.eval_method.value} for f in t.factors] for t in spec.formula]
                out["rfactors"] = rich_factors(m, spec, c)
            except Exception as e2:
                out["msg"] += f" [no factors: {type(e2).__name__}]"
        return out
    o = observe(m, mm, c["output"], c["data"]["nrows"], collapse=as_dict(c), flat=not c.get("shaped"))
    o["rfactors"] = rich_factors(m, mm.model_spec, c)
    return o


class _Spec:
    def __init__(self, output):
        self.output = output


def impl_columns(c):
    import scipy.sparse as sp
    from formulaic.materializers import FormulaMaterializer, NarwhalsMaterializer, PandasMaterializer

    def val(col):
        a = numpy.array([ffloat(x) for x in col])
        if c["cls"] != "base" and c["output"] == "sparse":
            return sp.csc_matrix(a.reshape((len(a), 1)))
        return a

    factors = [{it["name"]: val(it["col"]) for it in f} for f in c["factors"]]
    cls = {"base": FormulaMaterializer, "pandas": PandasMaterializer, "narwhals": NarwhalsMaterializer}[c["cls"]]
    try:
        out = cls._get_columns_for_term(None, factors, _Spec(c["output"]), scale=ffloat(c["scale"]))
    except Exception as e:
        return {"error": type(e).__name__}
    return {"cols": [[k, [fstr(x) for x in col_values(v)]] for k, v in out.items()]}


def impl_simplify(c):
    from formulaic.materializers import FormulaMaterializer
    from formulaic.materializers.types import EvaluatedFactor, FactorValues, ScopedFactor, ScopedTerm
    from formulaic.parser.types import Factor
    from formulaic.parser.types.ordered_set import OrderedSet

    efs = {}

    def ef(e):
        if e not in efs:
            efs[e] = EvaluatedFactor(Factor(e), FactorValues([1], kind="categorical", spans_intercept=True))
        return efs[e]

    sts = [
        ScopedTerm([ScopedFactor(ef(e), reduced=r) for e, r in st["factors"]], scale=ffloat(st["scale"])) for st in c["sts"]
    ]
    try:
        out = FormulaMaterializer._simplify_scoped_terms(sts)
    except Exception as e:
        return {"error": type(e).__name__}
    return {"sts": [{"factors": [[sf.factor.expr, bool(sf.reduced)] for sf in st.factors], "scale": fstr(st.scale)} for st in out]}


def build_enc_value(top, nrows):
    """the Python object described by an `encode` case: FactorValues(<col | dict | DataFrame | ndarray>, kind="numerical", **metadata)"""

    def arr(col):
        return numpy.array([ffloat(x) for x in col])

    def node(d):
        if "c" in d:
            return arr(d["c"])
        inner = {k: node(v) for k, v in d["d"]}
        return inner if d.get("m") is None else _FV(inner, **mdkw(d["m"]))

    def mdkw(md):
        kw = dict(md)
        if "column_names" in kw:
            kw["column_names"] = tuple(kw["column_names"])
        return kw

    t = top["t"]
    if t == "col":
        v = arr(top["c"])
    elif t == "dict":
        v = {k: node(x) for k, x in top["d"]}
    elif t == "frame":
        v = pandas.DataFrame({i: arr(col) for i, (k, col) in enumerate(top["cols"])}, index=range(nrows))
        v.columns = pandas.Index([k for k, _ in top["cols"]], dtype=object)
    elif t == "arr2":
        v = numpy.stack([arr(col) for col in top["cols"]], axis=1) if top["cols"] else numpy.zeros((nrows, 0))
    else:
        v = numpy.zeros((nrows, 2, 2))
    return _FV(v, kind="numerical", **mdkw(top.get("m") or {}))


def impl_encode(c):
    from formulaic.materializers import NarwhalsMaterializer, PandasMaterializer
    from formulaic.materializers.types import EvaluatedFactor
    from formulaic.model_spec import ModelSpec
    from formulaic.parser.types import Factor

    cls = PandasMaterializer if c["mat"] == "pandas" else NarwhalsMaterializer
    m = cls(pandas.DataFrame({"z": numpy.arange(c["nrows"], dtype=float)}))
    values = build_enc_value(c["top"], c["nrows"])
    ef = EvaluatedFactor(Factor(c["expr"]), values)
    spec = ModelSpec(formula=[], output=c["output"])
    out = {"factor": {"expr": c["expr"], "present": True, "kind": "numerical", "md": meta_json(ef.metadata),
                      "raw": raw_json(values), "ext": None}}
    for key, r in (("full", False), ("reduced", True)):
        try:
            d = m._encode_evaled_factor(ef, spec, [], reduced_rank=r)
            out[key] = [[str(k), [fstr(x) for x in col_values(v)]] for k, v in d.items()]
        except Exception as e:
            out[key] = {"error": type(e).__name__, "msg": str(e)[:120]}
    return out


def impl(c):
    k = c["kind"]
    if k in ("matrix", "badname", "shape-error"):
        return impl_matrix(c)
    if k == "encode":
        return impl_encode(c)
    if k == "columns":
        return impl_columns(c)
    if k == "simplify":
        return impl_simplify(c)
    raise ValueError(k)


# ----------------------------------------------------------------------------- request / agree


def matrix_request(c, o, truncate=None):
    def trunc_enc(e):
        if truncate is None:
            return e
        return dict(e, cols=[[f, col[:truncate]] for f, col in e["cols"]])

    nrows = c["data"]["nrows"] if truncate is None else min(truncate, c["data"]["nrows"])
    return dict(
        op="matrix",
        nrows=nrows,
        efr=c["efr"],
        cluster=c["cluster"],
        variant="fast",
        asdict=as_dict(c),
        terms=[[f["x"] for f in t] for t in o["terms"]],
        factors=[dict(f, full=trunc_enc(f["full"]), reduced=trunc_enc(f["reduced"])) for f in o["factors"]],
    )


def reserved_levels(c):
    """does a categorical column of the case have a level label starting with `__`? (The flat model of
    Model/Materialize.lean still filters such fields while flattening, as the code did before fix f846f43; it is shared
    with other properties and not edited here, so the cross-check against it is left out for these cases. The model
    of Model/FactorEncode.lean drops reserved keys where the code does: in `map_dict`, before encoding.)"""
    return any(isinstance(l, str) and l.startswith("__") for ci in c["data"]["cat"].values() for l in ci["levels"])


def request(c, o):
    k = c["kind"]
    if "harness_exception" in o:
        return dict(op="noop")
    if k in ("matrix", "shape-error"):
        if "rfactors" not in o or "terms" not in o:
            return dict(op="noop")
        # the model of the whole pipeline over factor values of any shape; for cases whose encodings are flat the
        # model of Model/Materialize.lean (the one C03 also runs) is evaluated on the same case as a cross-check
        return dict(
            op="nmatrix",
            nrows=c["data"]["nrows"],
            efr=c["efr"],
            cluster=c["cluster"],
            variant="fast",
            asdict=as_dict(c),
            terms=[[f["x"] for f in t] for t in o["terms"]],
            factors=o["rfactors"],
            flat=matrix_request(c, o) if ("error" not in o and not c.get("shaped") and not reserved_levels(c)) else None,
        )
    if k == "encode":
        return dict(op="encode", factor=o["factor"])
    if k == "badname":
        # the model is given the term list with an empty factor cache: `factor_cache[expr]` must fail
        return dict(op="matrix", nrows=1, efr=c["efr"], cluster=False, variant="fast", asdict=True,
                    terms=[["nosuch"]], factors=[])
    if k == "columns":
        return dict(op="columns", scale=c["scale"], factors=c["factors"])
    if k == "simplify":
        return dict(op="simplify", sts=c["sts"])
    raise ValueError(k)


def _values_agree(a: str, b: str, inexact: bool):
    if a == b:
        return True
    if not inexact:
        return Fraction(a) == Fraction(b)
    x, y = ffloat(a), ffloat(b)
    return abs(x - y) <= 1e-9 * (1 + abs(y))


def is_inexact(c):
    return any(s in c.get("formula", "") for s in INEXACT + INEXACT_CALLS)


def agree_matrix(c, o, m, values=True, cells=None):
    """`cells` (a list): every value disagreement is recorded there as (column index, row, model value) and the
    first one is reported at the end; any other kind of disagreement is reported at once and leaves it empty"""
    if "error" in o:
        return f"implementation raised {o['error']} on a valid formula: {o.get('msg', '')}"
    if "error" in m:
        return f"model raised {m['error']}, implementation did not"
    ms = [dict(term=s["term"], scoped=s["scoped"], columns=s["columns"]) for s in m["structure"]]
    if ms != o["structure"]:
        for a, b in zip(ms, o["structure"]):
            if a != b:
                return f"structure differs for term {b['term']}: model {a} vs impl {b}"
        return "structure differs in length"
    if not values:
        return None
    mn = [e["name"] for e in m["columns"]]
    on = [e["name"] for e in o["columns"]]
    if mn != on:
        return f"column names differ: model {mn} vs impl {on}"
    inexact = is_inexact(c)
    first = None
    for a, b in zip(m["columns"], o["columns"]):
        if len(a["values"]) != len(b["values"]):
            if cells is not None:
                del cells[:]
            return f"column {b['name']}: length {len(a['values'])} vs {len(b['values'])}"
    for j, (a, b) in enumerate(zip(m["columns"], o["columns"])):
        for i, (x, y) in enumerate(zip(a["values"], b["values"])):
            if not _values_agree(x, y, inexact):
                msg = f"column {b['name']} row {i}: model {x} vs impl {y}"
                if cells is None:
                    return msg
                cells.append([j, i, x])
                first = first or msg
    return first


def agree(c, o, m):
    if "driver_error" in m:
        return "driver: " + m["driver_error"][:300]
    if "harness_exception" in o:
        return None  # reported by the oracle
    k = c["kind"]
    if k == "shape-error" and ("error" in o or "error" in m):
        if "rfactors" not in o and "error" in o:
            return f"implementation raised {o['error']} before the factors were evaluated: {o.get('msg', '')}"
        oe, me = o.get("error"), m.get("error")
        return None if oe == me else f"malformed factor: implementation raised {oe} ({o.get('msg', '')}), model {me}"
    if k in ("matrix", "shape-error"):
        if "error" in o:
            return None  # reported by the oracle
        cells = []
        why = agree_matrix(c, o, m, cells=cells)
        if why is None and m.get("flat") is not None:
            why = agree_matrix(c, o, m["flat"], cells=cells)
            why = None if why is None else "flat model (Model/Materialize.lean): " + why
        if why is not None:
            # for classify(): WHAT the model disagrees about (the driver calls classify with the oracle's reason when
            # both the oracle and the correspondence object, so a disagreement must not hide behind a known finding)
            o["_corr"] = {"cells": cells} if cells else {"other": why}
        return why
    if k == "encode":
        for key in ("full", "reduced"):
            a, b = m.get(key), o[key]
            ae = a.get("error") if isinstance(a, dict) else None
            be = b.get("error") if isinstance(b, dict) else None
            if ae or be:
                if ae != be:
                    return f"_encode_evaled_factor({key}): implementation {be or 'returned ' + str([x[0] for x in b])} ({b.get('msg', '') if be else ''}), model {ae or 'returned ' + str([x[0] for x in a])}"
                continue
            if [x[0] for x in a] != [x[0] for x in b]:
                return f"_encode_evaled_factor({key}): names differ: model {[x[0] for x in a]} vs impl {[x[0] for x in b]}"
            for x, y in zip(a, b):
                if [Fraction(v) for v in x[2]] != [Fraction(v) for v in y[1]]:
                    return f"_encode_evaled_factor({key}): column {y[0]}: model {x[2]} vs impl {y[1]}"
        return None
    if k == "badname":
        if o.get("error") == "FactorEvaluationError" and m.get("error") == "KeyError":
            return None
        return f"unknown column: impl {o.get('error', 'no error')} vs model {m.get('error', 'no error')}"
    if k == "columns":
        for a, b in (("base", "nbase"), ("fast", "nfast")):
            if m.get(a) != m.get(b):
                return f"the two models of _get_columns_for_term differ ({a} vs {b}): {m.get(a)} vs {m.get(b)}"
        side = m["base"] if c["cls"] == "base" else m["fast"]
        if "error" in o or (isinstance(side, dict) and "error" in side):
            oe = o.get("error")
            me = side.get("error") if isinstance(side, dict) else None
            return None if oe == me else f"impl {oe} vs model {me}"
        if [x[0] for x in side] != [x[0] for x in o["cols"]]:
            return f"names differ: model {[x[0] for x in side]} vs impl {[x[0] for x in o['cols']]}"
        for a, b in zip(side, o["cols"]):
            if [Fraction(v) for v in a[1]] != [Fraction(v) for v in b[1]]:
                return f"column {b[0]}: model {a[1]} vs impl {b[1]}"
        return None
    if k == "simplify":
        if "error" in o or "error" in m:
            return None if o.get("error") == m.get("error") else f"impl {o.get('error')} vs model {m.get('error')}"
        return None if o["sts"] == m["sts"] else f"simplified terms differ: model {m['sts']} vs impl {o['sts']}"
    return None


# ----------------------------------------------------------------------------- oracle


def _kron(factors):
    """factors: list of lists of (name, array); first factor varies fastest"""
    out = []
    for rev in itertools.product(*[f for f in reversed(factors)]):
        tup = rev[::-1]
        v = numpy.ones_like(tup[0][1], dtype=float) if tup else None
        for _, a in tup:
            v = v * a
        out.append((":".join(n for n, _ in tup), v))
    return out


def _close(a, b, inexact):
    a, b = numpy.asarray(a, dtype=float), numpy.asarray(b, dtype=float)
    if a.shape != b.shape:
        return False
    if inexact:
        return bool(numpy.all(numpy.abs(a - b) <= 1e-9 * (1 + numpy.abs(b))))
    return bool(numpy.array_equal(a, b))


def _without(g, v, j, excuse):
    rows = [i for i in range(len(g)) if (j, i) in excuse] if excuse and len(g) == len(v) else []
    if not rows:
        return g, v
    return numpy.delete(numpy.asarray(g, dtype=float), rows), numpy.delete(numpy.asarray(v, dtype=float), rows)


def _levels(cinfo, drop_unused=False):
    present = sorted({cinfo["levels"][i] for i in cinfo["codes"]})
    if cinfo["declared"] and not drop_unused:
        return list(cinfo["levels"])
    return present


def _full_encoding(expr, data, mat="pandas", reduced=False):
    se = shape_encoding(expr, data, reduced)
    if se is not None:
        return ("cat" if (shape_of(expr) or ("",))[0] == "catd" else "num"), se
    sem = atom_semantics(expr, data)
    if sem is None:
        return None
    if sem[0] == "cat":
        ci = data["cat"][sem[1]]
        vals = [ci["levels"][i] for i in ci["codes"]]
        # (before the repair "C(...) keeps the declared categories of a column under the narwhals materializer"
        # the narwhals path lost unused declared levels here; both materializers now keep the declared order)
        drop = False
        return "cat", [(f"{expr}[{lv}]", numpy.array([1.0 if v == lv else 0.0 for v in vals])) for lv in _levels(ci, drop)]
    cols = sem[1]
    if list(cols) == [None]:
        return "num", [(expr, numpy.asarray(cols[None], dtype=float))]
    return "num", [(f"{expr}[{k}]", numpy.asarray(v, dtype=float)) for k, v in cols.items()]


def oracle_matrix(c, o, excuse=frozenset()):
    """`excuse`: cells (column index, row) left out of the value comparison (used by classify() only, to establish
    that NOTHING but the cells of a known finding is wrong with a case)"""
    if "error" in o:
        return f"materialisation raised {o['error']}: {o.get('msg', '')}"
    if "shape_mismatch" in o:
        return "matrix shape and column names disagree: " + o["shape_mismatch"]
    data, n = c["data"], c["data"]["nrows"]
    inexact = is_inexact(c)
    cols = o["columns"]
    if o["shape"][0] != n:
        return f"matrix has {o['shape'][0]} rows, data has {n}"
    values = {}
    got = [(e["name"], numpy.array([ffloat(v) for v in e["values"]])) for e in cols]
    lits = {}
    terms = {tuple(f["x"] for f in t): t for t in o["terms"]}
    # --- rank reduction off: everything from the data
    if not c["efr"]:
        order = [t for t in o["terms"]]
        if c["cluster"]:
            groups = {}
            for t in order:
                key = tuple(f["x"] for f in t if f["m"] != "literal" and (
                    f["x"].startswith(INEXACT_CALLS) or (_full_encoding(f["x"], data, c["mat"]) or ("?",))[0] == "num"))
                groups.setdefault(key, []).append(t)
            order = [t for g in groups.values() for t in g]
        expect = []
        for t in order:
            scale = 1.0
            facs = []
            present = 0
            for f in t:
                if f["m"] == "literal":
                    scale *= float(f["x"])
                    present += 1
                    continue
                if (shape_of(f["x"]) or ("",))[0] == "none":
                    continue  # a factor that evaluates to None takes no part in the term
                present += 1
                enc = _full_encoding(f["x"], data, c["mat"])
                if enc is None and f["x"].startswith(INEXACT_CALLS) and f["x"] in o["flat"]:
                    # a stateful transform (poly, bs): its values are the business of C12/C13; here its columns are
                    # taken as evaluated and only their place in the Kronecker product is checked
                    enc = ("num", [(nm, numpy.array(v)) for nm, v in o["flat"][f["x"]]])
                if enc is None:
                    return None  # an atom this oracle has no independent semantics for
                facs.append(enc[1])
            if not present:
                continue  # a term none of whose factors has values generates nothing
            if not facs:
                expect.append(("Intercept", scale * numpy.ones(n)))
            else:
                expect += [(nm, scale * v) for nm, v in _kron(facs)]
        if as_dict(c):
            dd = {}
            for nm, v in expect:
                dd[nm] = v
            expect = list(dd.items())
        if [nm for nm, _ in expect] != [nm for nm, _ in got]:
            return f"rank reduction off: expected columns {[nm for nm, _ in expect]}, got {[nm for nm, _ in got]}"
        for j, ((nm, v), (_, g)) in enumerate(zip(expect, got)):
            if not _close(*_without(g, v, j, excuse), inexact):
                return f"rank reduction off: column {nm} is {g.tolist()}, the Kronecker product of the full encodings times the scale is {v.tolist()}"
        return None
    # --- rank reduction on: every emitted column obeys its label
    expect = []
    for s in o["structure"]:
        t = terms.get(tuple(s["term"]))
        if t is None:
            return f"structure lists term {s['term']} that is not in the formula"
        want_scale = 1.0
        for f in t:
            if f["m"] == "literal":
                want_scale *= float(f["x"])
        tcols = {}
        for st in s["scoped"]:
            if ffloat(st["scale"]) != want_scale:
                return f"term {s['term']}: scoped term carries scale {st['scale']}, the literal scale is {want_scale}"
            if not st["factors"]:
                tcols["Intercept"] = want_scale * numpy.ones(n)
                continue
            facs = []
            for e, r in st["factors"]:
                flat = o["flat"][e + ("-" if r else "")]
                facs.append([(nm, numpy.array(v)) for nm, v in flat])
                sem = atom_semantics(e, data)
                if sem and sem[0] in ("num", "catd"):
                    # a numeric factor is encoded as itself: the column(s) its label names are the data column /
                    # the value of the Python expression, whatever the storage dtype and the output type
                    want = _full_encoding(e, data, c["mat"], reduced=r)[1]
                    if [nm for nm, _ in want] != [nm for nm, _ in flat]:
                        return f"numeric factor {e}: encoded columns {[nm for nm, _ in flat]}, expected {[nm for nm, _ in want]}"
                    for (nm, w), (_, v) in zip(want, flat):
                        if not _close(v, w, False):
                            return f"encoded column {nm} is {list(v)}, the data say {w.tolist()}"
                if sem and sem[0] == "cat" and (e == sem[1] or e == f"C({sem[1]})" or "contr.treatment" in e or not r):
                    # dummy coding: every column is the indicator of the level in its name
                    ci = data["cat"][sem[1]]
                    vals = [ci["levels"][i] for i in ci["codes"]]
                    for nm, v in flat:
                        lv = nm[len(e) + 1 : -1]
                        if lv.startswith("T.") and r:
                            lv = lv[2:]
                        ind = [1.0 if str(x) == lv else 0.0 for x in vals]
                        if list(v) != ind:
                            return f"encoded column {nm} is {list(v)}, the indicator of level {lv!r} is {ind}"
            for nm, v in _kron(facs):
                tcols[nm] = want_scale * v
        if list(tcols) != s["columns"]:
            return f"term {s['term']}: columns {s['columns']} but the scoped terms name {list(tcols)}"
        expect += list(tcols.items())
    if as_dict(c):
        dd = {}
        for nm, v in expect:
            dd[nm] = v
        expect = list(dd.items())
    if [nm for nm, _ in expect] != [nm for nm, _ in got]:
        return f"expected columns {[nm for nm, _ in expect]}, got {[nm for nm, _ in got]}"
    for j, ((nm, v), (_, g)) in enumerate(zip(expect, got)):
        if not _close(*_without(g, v, j, excuse), inexact):
            return f"column {nm} is {g.tolist()} but the product of the encoded factor columns in its label times the scale is {v.tolist()}"
    for nm, g in got:
        if nm == "Intercept" and any(tuple(f["x"] for f in t if f["m"] == "literal") == ("1",) and len(t) == 1 for t in o["terms"]):
            if not numpy.array_equal(g, numpy.ones(n)):
                return f"Intercept column is {g.tolist()}, not ones"
    return None


def oracle_columns(c, o):
    if "error" in o:
        return None if any(len(f) == 0 for f in c["factors"]) or not c["factors"] else f"_get_columns_for_term raised {o['error']}"
    facs = [[(it["name"], numpy.array([ffloat(x) for x in it["col"]])) for it in f] for f in c["factors"]]
    dd = {}
    for nm, v in _kron(facs):
        dd[nm] = ffloat(c["scale"]) * v
    if list(dd) != [x[0] for x in o["cols"]]:
        return f"expected names {list(dd)}, got {[x[0] for x in o['cols']]}"
    for (nm, v), (_, g) in zip(dd.items(), o["cols"]):
        if [ffloat(x) for x in g] != list(v):
            return f"column {nm} is {g}, product is {[float(x) for x in v]}"
    return None


ENC_DEFAULTS = dict(format=DEFAULT_FORMAT, format_reduced=None, reduced=False, spans_intercept=False, drop_field=None,
                    encoded=False, column_names=None)


def _spec_flatten(name, items, fmt):
    out = {}
    for k, v in items:
        sub = fmt.format(name=name, field=k)
        if "c" in v:
            out[sub] = v["c"]
        else:
            md = v.get("m")
            if md is None:
                f = DEFAULT_FORMAT  # a dict without metadata: the class default
            else:
                md = dict(ENC_DEFAULTS, **md)
                f = md["format_reduced"] if (md["reduced"] and md["format_reduced"]) else md["format"]
            out.update(_spec_flatten(sub, v["d"], f))
    return out


def _strip_reserved(items):
    return [(k, v if "c" in v else dict(v, d=_strip_reserved(v["d"]))) for k, v in items
            if not (isinstance(k, str) and k.startswith("__"))]


def spec_encode(c, reduced):
    """What `_encode_evaled_factor` must return for the described numerical factor, written from the documentation of
    `FactorValuesMetadata` / `as_columns` (independently of the Lean model): an exception class name, or {name: column}."""
    top = c["top"]
    md = dict(ENC_DEFAULTS, **(top.get("m") or {}))
    t = top["t"]
    if t == "arrN":
        return "ValueError"
    if t == "col":
        return {c["expr"]: top["c"]}
    if t == "dict":
        items = [(k, v) for k, v in top["d"]]
    elif t == "frame":
        items = [(k, {"c": col}) for k, col in top["cols"]]
    else:
        names = md["column_names"] or list(range(len(top["cols"])))
        if len(names) < len(top["cols"]):
            return "IndexError"
        d = {}
        for i, col in enumerate(top["cols"]):
            d[names[i]] = {"c": col}
        items = list(d.items())
    if not md["encoded"]:
        items = _strip_reserved(items)  # reserved keys of dict-valued factors generate no columns
    is_reduced = md["reduced"]
    if md["spans_intercept"] and reduced:
        if md["drop_field"] not in [k for k, _ in items]:
            return "KeyError"
        items = [(k, v) for k, v in items if k != md["drop_field"]]
        is_reduced = True
    fmt = md["format_reduced"] if (is_reduced and md["format_reduced"]) else md["format"]
    return _spec_flatten(c["expr"], items, fmt)


def oracle_encode(c, o):
    for key, r in (("full", False), ("reduced", True)):
        want, got = spec_encode(c, r), o[key]
        if isinstance(want, str):
            continue  # which exception a malformed factor raises is the correspondence's business
        if isinstance(got, dict):
            return f"_encode_evaled_factor(reduced_rank={r}) raised {got['error']}: {got.get('msg', '')}"
        if list(want) != [x[0] for x in got]:
            return f"_encode_evaled_factor(reduced_rank={r}): columns {[x[0] for x in got]}, the factor's values and metadata denote {list(want)}"
        for (nm, w), (_, g) in zip(want.items(), got):
            if [Fraction(x) for x in w] != [Fraction(x) for x in g]:
                return f"_encode_evaled_factor(reduced_rank={r}): column {nm} is {g}, its label denotes {w}"
    return None


def oracle(c, o):
    if "harness_exception" in o:
        return "harness could not run the implementation: " + o["harness_exception"]
    k = c["kind"]
    if k == "matrix":
        return oracle_matrix(c, o)
    if k == "shape-error":
        return None if "error" in o else oracle_matrix(c, o)
    if k == "columns":
        return oracle_columns(c, o)
    if k == "encode":
        return oracle_encode(c, o)
    return None


def _norm_atom(expr, data):
    """normalised numeric factor expression -> (columns it reads, exact semantics, v, w) | None (cf. atom_semantics)"""
    names = sorted(data["num"])
    for src, (norm, fn) in NUM_ATOMS.items():
        for v in names:
            for w in names:
                if norm.format(v=v, w=w) == expr:
                    return ([v, w] if "{w}" in src else [v]), fn, v, w
    return None


def wrapped_cells(c, o):
    """The cells of the output that show known finding C02-F1 and nothing else, as {(column index, row): exact value}
    - or None when the exact expectation cannot be lined up with the output.

    Everything is recomputed in exact rational arithmetic from the DATA (numeric factors) and the implementation's
    encoded categorical columns, in the order of the recorded structure. A cell qualifies iff
      * its column belongs to a scoped term ALL of whose factors are numeric factors over columns stored in integer
        dtypes (no categorical factor; literals only through the scale s),
      * the observed value g differs from the exact product s*P (P = product of the factor values, an integer),
      * P or s*P lies outside the range of a narrowest (fewest bits, b) storage dtype the term reads, and
      * g is precisely wrap-around: s integral -> g is an integer with g = s*P (mod 2**b) (every step, the scale
        included, was carried out in an integer dtype of >= b bits); s fractional -> g/s is an integer w with
        w = P (mod 2**b) (the factors wrapped, the float scale was applied afterwards)."""
    if c.get("kind") != "matrix" or "error" in o or "shape_mismatch" in o or "structure" not in o:
        return None
    data, n = c["data"], c["data"]["nrows"]
    dtypes = data.get("dtype", {})
    exact = {k: numpy.array([Fraction(x) for x in v], dtype=object) for k, v in data["num"].items()}
    cols = []  # (name, exact values, integer-term info | None)
    for s in o["structure"]:
        tcols = {}
        for st in s["scoped"]:
            scale = Fraction(st["scale"])
            if not st["factors"]:
                tcols["Intercept"] = ([scale] * n, None)
                continue
            facs, read, allint = [], [], True
            for e, r in st["factors"]:
                na = _norm_atom(e, data)
                sem = atom_semantics(e, data)
                if na is not None and sem is not None and sem[0] == "num":
                    fields = na[1](exact, na[2], na[3])
                    facs.append([(e if k is None else f"{e}[{k}]", list(v)) for k, v in fields.items()])
                    read += na[0]
                else:
                    allint = False
                    facs.append([(nm, [Fraction(x) for x in v]) for nm, v in o["flat"][e + ("-" if r else "")]])
            allint = allint and all(dtypes.get(k, "float64") in DTYPES and not DTYPES[dtypes.get(k, "float64")][2] for k in read)
            for rev in itertools.product(*reversed(facs)):
                tup = rev[::-1]
                prod = [Fraction(1)] * n
                for _, vals in tup:
                    if len(vals) != n:
                        return None
                    prod = [p * x for p, x in zip(prod, vals)]
                info = dict(scale=scale, prod=prod, dtypes=sorted({dtypes[k] for k in read})) if allint else None
                tcols[":".join(nm for nm, _ in tup)] = ([scale * p for p in prod], info)
        if list(tcols) != s["columns"]:
            return None
        cols += [(nm, v, info) for nm, (v, info) in tcols.items()]
    if as_dict(c):
        cols = list({nm: (nm, v, info) for nm, v, info in cols}.values())
    if [nm for nm, _, _ in cols] != [e["name"] for e in o["columns"]]:
        return None
    out = {}
    for j, ((nm, want, info), e) in enumerate(zip(cols, o["columns"])):
        if info is None or len(e["values"]) != n:
            continue
        ranges = [_int_range(dt) for dt in info["dtypes"]]
        b = min(r[2] for r in ranges)
        narrow = [r for r in ranges if r[2] == b]
        s = info["scale"]
        for i in range(n):
            g, p = Fraction(e["values"][i]), info["prod"][i]
            if g == want[i]:
                continue
            if not any(not lo <= x <= hi for lo, hi, _ in narrow for x in (p, s * p)):
                continue
            if s.denominator == 1:
                ok = g.denominator == 1 and (g - s * p) % 2**b == 0
            else:
                w = g / s
                ok = w.denominator == 1 and (w - p) % 2**b == 0
            if ok:
                out[(j, i)] = want[i]
    return out


def classify(c, o, why):
    """C02-F1 for exactly: at least one cell is integer wrap-around in the sense of `wrapped_cells`, every other
    check of the oracle passes with those cells left out, and wherever the (exact) model disagrees with the
    implementation it is on such a cell and the model holds the exact product."""
    try:
        if c.get("kind") != "matrix" or not isinstance(o, dict) or "harness_exception" in o:
            return None
        cells = wrapped_cells(c, o)
        if not cells:
            return None
        corr = o.get("_corr") or {}
        if "other" in corr:
            return None
        for j, i, x in corr.get("cells", []):
            if (j, i) not in cells or Fraction(x) != cells[(j, i)]:
                return None
        if oracle_matrix(c, o, excuse=frozenset(cells)) is not None:
            return None
        return "C02-F1"
    except Exception:
        return None


LEVEL_TEXT = (
    "Proof: 24 Lean theorems (Props/C02.lean) about the executable models of the term -> scoped terms -> columns pipeline. "
    "For ALL factor caches, term lists, both rank settings, both clustering settings and both `_get_columns_for_term` "
    "variants, and for factor values of ANY shape (column, nested dict, DataFrame, 2-d array, FactorValues with own formats / "
    "drop field, pre-encoded): every emitted column equals the term's literal scale times the pointwise product of the encoded "
    "leaf columns its structural label (factor, key path, rank) names, and its name is the ':'-join of the names the format "
    "templates on those paths print - `factor[key][key]...` under the default template; the intercept is scale*ones named "
    "Intercept; the pandas/narwhals fast path equals the base product; with rank reduction off each term yields the complete "
    "row-wise Kronecker product of the full encodings (every column of a multi-column factor, first factor fastest); every "
    "scoped term carries the term's literal scale. Encoder stages: a numerical factor is encoded as itself (same leaves at the "
    "same key paths, reserved `__` keys generate nothing, the drop-field step removes exactly the drop field and switches to "
    "format_reduced); a plain categorical column is encoded as one indicator per level in level order named factor[level], its "
    "reduced encoding drops the first level and is named factor[T.level]. cluster_by=numerical_factors regroups the terms by "
    "their numerical factors, groups in order of first occurrence, formula order inside a group. Columns with equal names "
    "collapse as a Python dict does (first position, last values). The models are tied to the code by a differential "
    "correspondence on every run (whole matrices: labels and exact values; `_encode_evaled_factor` alone on random value trees; "
    "`_get_columns_for_term` alone; malformed factors must raise the same exception class); a data-level oracle recomputes "
    "matrices and encodings independently. Known finding C02-F1: products of integer-dtype columns wrap around in the narrow "
    "integer dtype (the theorems are about exact products; such cells are reported as KNOWN-FINDING, never silently accepted)."
)
LEVEL_NOTE = (
    "Trusted: Lean kernel + propext/Classical.choice/Quot.sound; the hand models of base.py / pandas.py / narwhals.py / "
    "factor_values.py / cast.as_columns validated by correspondence; factor evaluation, encoder closures and non-default "
    "contrasts, str.format and numpy arithmetic enter as data/parameters; default and treatment name templates are generated "
    "from the live classes."
)
