"""C02 — Every model-matrix column holds exactly the product its name denotes.

Correspondence streams (engine `c02`, model `Model/Materialize.lean` + `Model/Columns.lean`):

* `matrix`   the real `materializer.get_model_matrix(formula, …)` against `Model.buildStructure` /
             `Model.buildMatrix`. The harness forwards the evaluated factors AS THE IMPLEMENTATION
             computed them (kind, spans_intercept, and for both rank settings the object stored in
             `encoded_cache` with the metadata `_encode_evaled_factor` consults) plus the term list;
             the model returns the per-term scoped terms, the column names and the exact values.
             A second, `typed`, sub-stream stores the numeric columns in every numpy storage dtype (int8..int64,
             uint8..uint64, float16/32/64) with values that need the full width of that dtype (up to 2**31-1,
             2**32-1, 2**52; 11/24/53 significant bits), so that a column that is silently narrowed on one output
             path (e.g. stored as float32 in the sparse encoder) no longer equals what its label denotes.
* `columns`  `_get_columns_for_term` of the base class / PandasMaterializer / NarwhalsMaterializer
             on random factor dictionaries against `Model.columnsBase` / `Model.columnsFast`.
* `simplify` `_simplify_scoped_terms` on random lists of scoped terms against `Model.simplify`.
* `badname`  malformed stream: a formula that names a column that does not exist.

Oracle (implementation only): rank reduction off -> the whole matrix is recomputed from the DATA
(indicator per level in level order, numeric expressions re-evaluated by numpy), term by term,
row-wise Kronecker order with the first factor fastest, times the literal scale; rank reduction on
-> every emitted column is recomputed from the implementation's own encoded factors named by its
scoped term, the scale must be the product of the term's literals, treatment-coded columns must be
level indicators and the encoded columns of a numeric factor must be the data column / the re-evaluated expression
its label names (exactly, for every storage dtype and output type). The intercept must be a column of ones named `Intercept`.
"""
from __future__ import annotations

import itertools
import string
from fractions import Fraction

import numpy
import pandas

PROPERTY = "C02"
ENGINE = "c02"
REQUIRED_THEOREMS = [
    "scale_preserved",
    "column_is_product",
    "intercept_column",
    "fastpath_eq_base",
    "kron_full",
    "label_string_faithful",
]
TRUSTED = [
    "modelled, not verified: factor evaluation and the encoders themselves (pandas.get_dummies, contrast matrices, "
    "stateful transforms); their results enter the model as data (the encoded columns per factor and rank setting, "
    "with spans_intercept / drop_field / format metadata), read from materializer.factor_cache / encoded_cache",
    "str.format on the factor-name templates is a parameter: templates are pre-parsed into literal/{name}/{field} segments by the harness",
    "numpy/scipy element-wise multiplication and scalar scaling are modelled as exact rational arithmetic; inputs are "
    "small integers / dyadic rationals so the float results are exact (cases using contr.poly / contr.diff are compared with "
    "relative tolerance 1e-9)",
    "typed stream: numpy's arithmetic IN THE STORAGE DTYPE (type promotion, integer wrap-around, float16/float32 rounding of "
    "products) is not modelled; the generator keeps every term inside an exact-arithmetic envelope (`in_envelope`: every "
    "expression value fits each storage dtype it reads; row by row the product of all factor magnitudes and the literal "
    "scale fits the narrowest storage dtype of the term and 53 / 24 / 11 significant bits), so that any rounding or "
    "wrap-around observed is introduced by formulaic's own conversions, not by numpy's multiplication",
    "known finding C02-F1 (integer wrap-around of products computed in a narrow integer storage dtype) is NOT mirrored in "
    "the model, which stays exact: `classify` absorbs a case only if every wrong cell is precisely wrap-around of an "
    "all-integer term (`wrapped_cells`), every other oracle check passes with those cells left out, and the model "
    "disagrees with the implementation on such cells only, holding the exact product there",
    "not modelled: nested dictionaries inside an encoded factor (nothing in formulaic produces them), "
    "`metadata.encoded=True` pre-encoded factors, reuse of a stored `structure` (C04/C09), null handling / drop_rows (C06)",
]
ASSUMPTIONS = [
    "column_is_product reads values row by row under the hypothesis that every encoded column has one entry per retained row (numpy enforces equal shapes; the correspondence compares the column lengths of model and implementation)",
    "printed names are Python dict keys: when two columns of one term (or, for pandas output, of the whole matrix) print "
    "to the same name the later one replaces the earlier one's values; this is modelled (dictSet) and kron_full is "
    "stated through the same dictionary semantics",
]
RULE = (
    "matrix: random frames (1-6 rows quick, up to 40 thorough; 1-3 categorical columns with 1-4 levels incl. unused "
    "levels, object or Categorical dtype; 1-3 numeric columns over small integers/dyadics), formulas of 1-5 terms over "
    "names, C(x[, contr.*]), I(), {}, a two-column transform, 0-3 numeric literal scalings per term (distinct values, any position), interactions up to degree 3, "
    "intercept on/off; x ensure_full_rank x output in pandas/numpy/sparse x cluster_by x materializer pandas/narwhals. "
    "typed matrix (n/2 extra cases, materializer pandas/narwhals evenly): the same frames/formulas with every plain numeric column stored as a random numpy dtype "
    "(int8/16/32/64, uint8/16/32/64, float16/32/64; 32-bit and wider weighted up) holding full-width values (magnitudes up to "
    "the dtype's maximum, 2**52 for 64-bit; n/4 dyadics for floats; small values mixed in), terms cut back to the "
    "exact-arithmetic envelope (see TRUSTED). "
    "wrap (max(4, n/45) cases + 2 corpus cases): a typed case with one extra all-numeric term over int8/16/32 / uint8/16/32 "
    "columns (computing dtype <= 32 bits) whose exact product leaves the integer range for some row; judged by the same "
    "oracle (exact product required), they fail on the current code and are classified as known finding C02-F1. "
    "columns: 1-4 factor dicts with 1-3 entries. simplify: up to 7 scoped terms over 4 factors. "
    "non-trivial = matrix case with an interaction term; distinct by canonical JSON"
)

# ----------------------------------------------------------------------------- helpers


def fstr(x) -> str:
    fr = Fraction(x)
    return str(fr.numerator) if fr.denominator == 1 else f"{fr.numerator}/{fr.denominator}"


def ffloat(s: str) -> float:
    return float(Fraction(s))


def col_values(v) -> list[float]:
    """column object (Series / ndarray / csc n x 1 / narwhals series / scalar broadcast) -> floats"""
    if hasattr(v, "toarray"):
        v = v.toarray()
    elif hasattr(v, "to_numpy"):
        v = v.to_numpy()
    a = numpy.asarray(v).astype(float).ravel()
    return [float(x) for x in a]


def parse_fmt(f):
    if not f:
        return None
    out = []
    for lit, name, spec, conv in string.Formatter().parse(f):
        if lit:
            out.append(["lit", lit])
        if name is not None:
            if name not in ("name", "field") or spec or conv:
                raise ValueError("unsupported format template " + repr(f))
            out.append([name])
    return out


def field_json(k):
    return {"t": str(k), "s": isinstance(k, str)}


# ----------------------------------------------------------------------------- atoms

CONTRASTS = ["treatment", "sum", "helmert", "SAS", "diff", "poly"]
INEXACT = ("contr.poly", "contr.diff")


def two(x):
    return {"p": x, "q": x * x}


CONTEXT = {"two": two}

# numeric atoms: source text -> (normalised expr, numpy semantics over the frame)
NUM_ATOMS = {
    "{v}": ("{v}", lambda d, v, w: {None: d[v]}),
    "I({v}+1)": ("I({v} + 1)", lambda d, v, w: {None: d[v] + 1}),
    "{{{v}*2}}": ("{v} * 2", lambda d, v, w: {None: d[v] * 2}),
    "I({v}*{w})": ("I({v} * {w})", lambda d, v, w: {None: d[v] * d[w]}),
    "{{{v}-{w}}}": ("{v} - {w}", lambda d, v, w: {None: d[v] - d[w]}),
    "two({v})": ("two({v})", lambda d, v, w: {"p": d[v], "q": d[v] * d[v]}),
}


def cat_atoms(v):
    out = [v, f"C({v})"]
    out += [f"C({v}, contr.{c})" for c in CONTRASTS]
    return out


def atom_semantics(expr, data):
    """normalised factor expr -> ('cat', var) | ('num', {field: array}) | None (unknown)"""
    cats, nums = data["cat"], data["num"]
    for v in cats:
        if expr in cat_atoms(v):
            return ("cat", v)
    d = {k: numpy.array([ffloat(x) for x in vals]) for k, vals in nums.items()}
    names = sorted(nums)
    for src, (norm, fn) in NUM_ATOMS.items():
        for v in names:
            for w in names:
                if norm.format(v=v, w=w) == expr:
                    return ("num", fn(d, v, w))
    return None


# ----------------------------------------------------------------------------- generators

# level labels are data: strings, integers from 1 and from 0, booleans, strings with "" first (the reference level of
# a factor is its first level whatever its label is - falsy labels included)
LEVEL_POOLS = [["a", "b", "c", "d"], ["u", "v", "w", "z"], ["lo", "mid", "hi", "top"], [1, 2, 3, 4], ["a b", "c-d", "e.f", "g"],
               [0, 1, 2, 3], [0, 1, 2, 3], [False, True], ["", "x", "y", "z"]]


def gen_data(rng, nrows, ncat=None, nnum=None):
    ncat = ncat if ncat is not None else rng.randint(1, 3)
    nnum = nnum if nnum is not None else rng.randint(1, 3)
    cat = {}
    for name in ["A", "B", "G"][:ncat]:
        pool = rng.choice(LEVEL_POOLS)
        k = min(rng.randint(1, 4), len(pool))
        falsy_first = pool[0] in (0, False, "")
        levels = pool[:k] if (falsy_first or rng.random() < 0.7) else rng.sample(pool, k)
        declared = rng.random() < 0.6
        codes = [rng.randrange(k) for _ in range(nrows)]
        if rng.random() < 0.3:  # leave a level unused
            codes = [c if c != k - 1 else 0 for c in codes]
        cat[name] = {"levels": levels, "codes": codes, "declared": declared}
    num = {}
    for name in ["x", "y", "z"][:nnum]:
        if rng.random() < 0.7:
            num[name] = [fstr(rng.randint(-4, 6)) for _ in range(nrows)]
        else:
            num[name] = [fstr(Fraction(rng.randint(-12, 12), 4)) for _ in range(nrows)]
    if cat and rng.random() < 0.08:
        # a numeric column whose NAME equals the printed name of an encoded level of a categorical column
        v = rng.choice(sorted(cat))
        lv = cat[v]["levels"][-1]
        num[rng.choice([f"{v}[T.{lv}]", f"{v}[{lv}]"])] = [fstr(rng.randint(2, 9)) for _ in range(nrows)]
    return {"nrows": nrows, "cat": cat, "num": num}


def make_frame(data):
    cols = {}
    for k, c in data["cat"].items():
        vals = [c["levels"][i] for i in c["codes"]]
        if c["declared"]:
            cols[k] = pandas.Categorical(vals, categories=c["levels"])
        else:
            cols[k] = pandas.Series(vals, dtype=object)
    for k, v in data["num"].items():
        cols[k] = typed_array(v, data.get("dtype", {}).get(k, "float64"))
    return pandas.DataFrame(cols)


def gen_atom(rng, data, used):
    cats, nums = sorted(data["cat"]), sorted(data["num"])
    if cats and (not nums or rng.random() < 0.55):
        v = rng.choice(cats)
        r = rng.random()
        if r < 0.5:
            return v
        if r < 0.6:
            return f"C({v})"
        return f"C({v}, contr.{rng.choice(CONTRASTS)})"
    v = rng.choice(nums)
    if not v.isidentifier():  # a column named like an encoded level: needs backticks
        return f"`{v}`"
    w = rng.choice([n for n in nums if n.isidentifier()])
    src = rng.choice(list(NUM_ATOMS) if rng.random() < 0.5 else ["{v}"])
    return src.format(v=v, w=w)


LITERALS = ["2", "3", "0.5", "2.5", "4", "5", "0.0"]


def gen_formula(rng, data, accept=None):
    """`accept(atoms) -> bool` (typed stream): a term outside the exact-arithmetic envelope is cut back - first its
    literal scalings are dropped, then it is reduced to its first factor, then to a bare column"""
    nterms = rng.randint(1, 5)
    terms = []
    seen = set()
    for _ in range(nterms):
        k = rng.choice([1, 1, 2, 2, 2, 3])
        atoms = []
        for _ in range(k):
            a = gen_atom(rng, data, atoms)
            if a not in atoms:
                atoms.append(a)
        if frozenset(atoms) in seen:  # the parser rejects a repeated term with a different scaling
            continue
        seen.add(frozenset(atoms))
        # 0, 1, 2 or 3 numeric literal factors with distinct values, each at a random position among the
        # factors: the term's literal scale is the product of ALL of them, under both rank settings
        nlit = rng.choice([0, 0, 0, 1, 1, 2, 2, 3])
        bare = list(atoms)
        for lit in rng.sample(LITERALS, nlit):
            atoms.insert(rng.randrange(len(atoms) + 1), lit)
        if accept is not None and not accept(atoms):
            plain = sorted(data["cat"]) + [n for n in sorted(data["num"]) if n.isidentifier()]
            for alt in [bare, bare[:1], [rng.choice(plain)]]:
                if accept(alt) and (alt == bare or frozenset(alt) not in seen):
                    atoms = alt
                    break
            else:
                continue
            seen.add(frozenset(atoms))
        terms.append(":".join(atoms))
    icpt = rng.choice(["", "", "0 + ", "1 + ", "-1 + "])
    if not terms:
        terms = ["1"]
    return icpt + " + ".join(terms)


# ----------------------------------------------------------------------------- storage dtypes (typed stream)

# name -> (largest magnitude used, significant bits the dtype holds exactly, is_float, weight in the generator).
# 64-bit integers are used up to 2**52 only: every output type ends in float64 at the latest.
DTYPES = {
    "int8": (2**7 - 1, 7, False, 1),
    "int16": (2**15 - 1, 15, False, 1),
    "int32": (2**31 - 1, 31, False, 3),
    "int64": (2**52 - 1, 52, False, 2),
    "uint8": (2**8 - 1, 8, False, 1),
    "uint16": (2**16 - 1, 16, False, 1),
    "uint32": (2**32 - 1, 32, False, 3),
    "uint64": (2**52 - 1, 52, False, 2),
    "float16": (2**11 - 1, 11, True, 1),
    "float32": (2**24 - 1, 24, True, 2),
    "float64": (2**52 - 1, 52, True, 2),
}


def typed_array(vals, dtype):
    """exact construction of a stored column: integers from Python ints, floats from dyadic rationals"""
    if DTYPES[dtype][2]:
        return numpy.array([ffloat(x) for x in vals], dtype=dtype)
    return numpy.array([int(Fraction(x)) for x in vals], dtype=dtype)


def sig_bits(fr) -> int:
    """significant bits of a dyadic rational (0 for zero, 1 for a power of two); 99 if not dyadic"""
    fr = Fraction(fr)
    if fr == 0:
        return 0
    if fr.denominator & (fr.denominator - 1):
        return 99
    n = abs(fr.numerator)
    return (n // (n & -n)).bit_length()


# what the dtype itself can hold exactly: largest magnitude / significant bits (integers: the range is the limit)
MAXABS = {k: (v[0] if not v[2] else {"float16": 2**15, "float32": 2**100, "float64": 2**200}[k]) for k, v in DTYPES.items()}
PRECISION = {k: ({"float16": 11, "float32": 24, "float64": 53}[k] if v[2] else 64) for k, v in DTYPES.items()}


def holds(fr, dtype) -> bool:
    """can a column of this storage dtype hold the value exactly?"""
    fr = Fraction(fr)
    if DTYPES[dtype][2]:
        return sig_bits(fr) <= PRECISION[dtype] and abs(fr) <= MAXABS[dtype]
    lo = 0 if dtype.startswith("u") else -MAXABS[dtype]
    return fr.denominator == 1 and lo <= fr <= MAXABS[dtype]


def gen_typed_values(rng, dtype, nrows, full=False):
    top, bits, is_float, _ = DTYPES[dtype]
    signed = not dtype.startswith("u")
    kcol = bits if (full or rng.random() < 0.5) else rng.randint(2, bits)
    quarter = is_float and rng.random() < 0.3  # dyadic fractions n/4 with the same number of significant bits
    out = []
    for _ in range(nrows):
        r = rng.random()
        if r < 0.25:
            v = Fraction(rng.randint(-4 if signed else 0, 6))
        elif r < 0.32 and not quarter:
            v = Fraction(top)  # the largest magnitude this stream stores in the dtype
        else:
            k = rng.randint(max(1, kcol - 3), kcol)
            v = Fraction(rng.randint(2 ** (k - 1), 2**k - 1))
            if quarter:
                v = v / 4
        if signed and r >= 0.25 and rng.random() < 0.4:
            v = -v
        out.append(fstr(v))
    return out


def gen_typed_data(rng, nrows):
    """as gen_data, but every plain numeric column is STORED in a random numpy dtype (8-64 bit signed/unsigned
    integers, half/single/double floats) and holds values that need the full width of that dtype"""
    data = gen_data(rng, nrows)
    names = list(DTYPES)
    weights = [DTYPES[n][3] for n in names]
    data["dtype"] = {}
    for name in sorted(data["num"]):
        if not name.isidentifier():
            continue
        dt = rng.choices(names, weights)[0]
        data["dtype"][name] = dt
        data["num"][name] = gen_typed_values(rng, dt, nrows)
    return data


def _source_atom(atom, data):
    """source text of a numeric atom -> (columns it reads, exact semantics) | None"""
    nums = sorted(data["num"])
    if atom.startswith("`") and atom.endswith("`") and atom[1:-1] in nums:
        return [atom[1:-1]], NUM_ATOMS["{v}"][1], atom[1:-1], atom[1:-1]
    ids = [n for n in nums if n.isidentifier()]
    for src, (_, fn) in NUM_ATOMS.items():
        for v in ids:
            for w in ids:
                if src.format(v=v, w=w) == atom:
                    return ([v, w] if "{w}" in src else [v]), fn, v, w
    return None


def in_envelope(atoms, data) -> bool:
    """Is every arithmetic step of this term exact whatever dtype numpy carries it out in?

    With EXACT rational arithmetic: (a) the value of every numeric factor fits each storage dtype it reads (no
    wrap-around / rounding inside `x*y`, `x+1`, ... which numpy evaluates in the promoted storage dtype); (b) row by
    row, the product of the magnitudes (each at least 1) of all numeric factors, contrast entries and literal
    scalings stays within the narrowest storage dtype the term reads and its significant bits (sum over the
    factors, powers of two are free) within 53 and the precision of the narrowest float dtype it reads - so every
    partial product, in any association order and under any numpy type promotion, is exactly representable."""
    n = data["nrows"]
    dtypes = data.get("dtype", {})
    exact = {k: numpy.array([Fraction(x) for x in v], dtype=object) for k, v in data["num"].items()}
    mags = [Fraction(1)] * n
    bits = [0] * n
    used = set()

    def mul(*fields):
        # one factor; several fields (a multi-column transform) are alternatives, never multiplied with each other
        for i in range(n):
            mags[i] *= max([Fraction(1)] + [abs(Fraction(f[i])) for f in fields])
            b = max(sig_bits(f[i]) for f in fields)
            bits[i] += b if b > 1 else 0

    for a in atoms:
        if a in LITERALS:
            mul([Fraction(a)] * n)
            continue
        src = _source_atom(a, data)
        if src is None:
            # categorical factor: indicator / contrast entries (|entry| <= levels - 1; contr.poly / contr.diff are
            # compared with a relative tolerance)
            big = Fraction(3) if ("helmert" in a) else Fraction(1)
            mul([big] * n)
            continue
        cols, fn, v, w = src
        used.update(cols)
        fields = [list(f) for f in fn(exact, v, w).values()]
        for field in fields:
            for x in field:
                if not all(holds(x, dtypes.get(c, "float64")) for c in cols):
                    return False
        mul(*fields)
    for c in used:
        dt = dtypes.get(c, "float64")
        if any(m > MAXABS[dt] for m in mags) or any(b > PRECISION[dt] for b in bits):
            return False
    return all(b <= 53 for b in bits)


def gen_typed_matrix_case(rng, tier):
    maxrows = 6 if tier == "quick" else 20
    data = gen_typed_data(rng, rng.randint(1, maxrows))
    return dict(
        kind="matrix",
        data=data,
        formula=gen_formula(rng, data, accept=lambda atoms: in_envelope(atoms, data)),
        efr=rng.random() < 0.5,
        output=rng.choice(["pandas", "numpy", "sparse"]),
        cluster=rng.random() < 0.3,
        mat=rng.choice(["pandas", "narwhals"]),  # storage-dtype conversions live in each materializer's encoders
    )


# integer storage dtypes of known finding C02-F1 (products are computed in the promoted INTEGER dtype and wrap around)
WRAP_DTYPES = ["int8", "int16", "int32", "uint8", "uint16", "uint32"]
INT_LITERALS = ["2", "3", "4", "5"]


def _int_range(dtype):
    info = numpy.iinfo(dtype)
    return int(info.min), int(info.max), int(info.bits)


def _term_exact(atoms, data):
    """(scale, per-row exact product of the numeric factors) of a term made of numeric atoms and literals only"""
    exact = {k: numpy.array([Fraction(x) for x in v], dtype=object) for k, v in data["num"].items()}
    scale, prod, cols = Fraction(1), [Fraction(1)] * data["nrows"], []
    for a in atoms:
        if a in LITERALS:
            scale *= Fraction(a)
            continue
        c, fn, v, w = _source_atom(a, data)
        cols += c
        prod = [p * x for p, x in zip(prod, fn(exact, v, w)[None])]
    return scale, prod, cols


def leaves_integer_range(atoms, data) -> bool:
    """does the exact product of this all-integer term leave the range of the integer dtype numpy promotes its
    columns to (an integer-valued scale is multiplied in that dtype too, a fractional one in float64)?"""
    scale, prod, cols = _term_exact(atoms, data)
    lo, hi, _ = _int_range(numpy.result_type(*[numpy.dtype(data["dtype"][c]) for c in cols]))
    s = scale if scale.denominator == 1 and not any("." in a for a in atoms if a in LITERALS) else Fraction(1)
    return any(not lo <= s * p <= hi for p in prod)


def gen_wrap_matrix_case(rng, tier):
    """a typed case with ONE extra term outside the exact-arithmetic envelope with respect to integer range only: all
    its factors are numeric columns / expressions over int8/16/32 or uint8/16/32 columns (each expression value still
    fits its storage dtype), optionally scaled, and for some row the exact product leaves the range of the integer
    dtype the columns promote to. The property requires the exact product there (known finding C02-F1)."""
    maxrows = 6 if tier == "quick" else 20
    data = gen_typed_data(rng, rng.randint(1, maxrows))
    ids = [n for n in sorted(data["num"]) if n.isidentifier()]
    cols = rng.sample(ids, min(len(ids), rng.choice([1, 2, 2, 3])))
    dts = [rng.choice(WRAP_DTYPES) for _ in cols]
    if numpy.result_type(*dts).itemsize > 4:
        # uint32 next to a signed column promotes to int64, whose wrapped products are not exact in the float64
        # observables of this harness: keep the computing dtype at 32 bits or fewer
        dts = ["int32" if d == "uint32" else d for d in dts]
    for name, dt in zip(cols, dts):
        data["dtype"][name] = dt
        data["num"][name] = gen_typed_values(rng, dt, data["nrows"], full=True)
    for attempt in range(3):
        if attempt == 2:
            # dtypes whose promotion has room for the product (int8 x uint16 -> int32): one narrow dtype for the term
            for name in cols:
                data["dtype"][name] = min(dts, key=lambda d: numpy.dtype(d).itemsize)
                data["num"][name] = gen_typed_values(rng, data["dtype"][name], data["nrows"], full=True)
                data["num"][name][0] = fstr(DTYPES[data["dtype"][name]][0])
        atoms = []
        for name in cols:
            src = rng.choice(["{v}", "{v}", "I({v}+1)", "{{{v}*2}}"]).format(v=name)
            atoms.append(src if in_envelope([src], data) else name)
        lits = rng.sample(INT_LITERALS, rng.choice([1, 2])) if len(cols) == 1 else rng.sample(LITERALS[:-1], rng.choice([0, 0, 1, 2]))
        for lit in lits:
            atoms.insert(rng.randrange(len(atoms) + 1), lit)
        if leaves_integer_range(atoms, data):
            break
        # make the first row overflow: the largest value the storage dtype holds, in every column of the term
        for name in cols:
            data["num"][name][0] = fstr(DTYPES[data["dtype"][name]][0])
    key = frozenset(a for a in atoms if a not in LITERALS)
    base = gen_formula(rng, data, accept=lambda t: in_envelope(t, data) and frozenset(a for a in t if a not in LITERALS) != key)
    parts = base.split(" + ")
    first = 1 if parts[0] in ("0", "1", "-1") else 0
    parts = [p for i, p in enumerate(parts) if i < first or frozenset(a for a in p.split(":") if a not in LITERALS) != key]
    parts.insert(rng.randint(first, len(parts)), ":".join(atoms))
    return dict(
        kind="matrix",
        data=data,
        formula=" + ".join(parts),
        efr=rng.random() < 0.5,
        output=rng.choice(["pandas", "numpy", "sparse"]),
        cluster=rng.random() < 0.3,
        mat=rng.choice(["pandas", "narwhals"]),
        wrap=True,
    )


def gen_matrix_case(rng, tier):
    maxrows = 6 if tier == "quick" else 40
    nrows = rng.randint(1, maxrows) if rng.random() < 0.8 else rng.randint(1, 6)
    data = gen_data(rng, nrows)
    return dict(
        kind="matrix",
        data=data,
        formula=gen_formula(rng, data),
        efr=rng.random() < 0.5,
        output=rng.choice(["pandas", "numpy", "sparse"]),
        cluster=rng.random() < 0.3,
        mat=rng.choice(["pandas", "pandas", "pandas", "narwhals"]),
    )


def gen_columns_case(rng):
    nf = rng.randint(1, 4)
    nrows = rng.randint(1, 4)
    factors = []
    used = set()
    for i in range(nf):
        k = rng.choice([1, 1, 2, 3])
        f = []
        for j in range(k):
            name = f"f{i}" if k == 1 else f"f{i}[{j}]"
            if rng.random() < 0.05:
                name = f"f{i}:w{j}"
            if rng.random() < 0.1:  # two factors sharing an encoded column name
                name = "f0" if k == 1 else f"f0[{j}]"
            f.append({"name": name, "col": [fstr(rng.randint(-3, 4)) for _ in range(nrows)]})
        factors.append(f)
    return dict(
        kind="columns",
        factors=factors,
        scale=rng.choice(["1", "1", "2", "-3", "1/2", "0"]),
        cls=rng.choice(["base", "pandas", "narwhals"]),
        output=rng.choice(["pandas", "numpy", "sparse"]),
    )


def gen_simplify_case(rng):
    names = ["A", "B", "C", "D"][: rng.randint(1, 4)]
    n = rng.randint(0, 7)
    sts = []
    for _ in range(n):
        k = rng.randint(0, len(names))
        fs = [[e, rng.random() < 0.6] for e in rng.sample(names, k)]
        sts.append({"factors": fs, "scale": rng.choice(["1", "1", "2", "0"])})
    return dict(kind="simplify", sts=sts)


def gen_badname_case(rng):
    data = gen_data(rng, rng.randint(1, 4))
    return dict(kind="badname", data=data, formula=gen_formula(rng, data) + " + nosuch" + rng.choice(["", ":x", ":A"]),
                efr=rng.random() < 0.5, output="pandas", cluster=False, mat="pandas")


def cases(rng, tier):
    n = {"quick": 900, "thorough": 9000, "search": 200}[tier]
    for i in range(n):
        yield gen_matrix_case(rng, tier)
    for i in range(n // 2):
        yield gen_typed_matrix_case(rng, tier)
    for i in range(max(4, n // 45)):
        yield gen_wrap_matrix_case(rng, tier)
    for i in range(n // 4):
        yield gen_columns_case(rng)
    for i in range(n // 4):
        yield gen_simplify_case(rng)
    for i in range(max(4, n // 40)):
        yield gen_badname_case(rng)


def _max_literals(formula):
    best = 0
    for t in formula.split(" + "):
        best = max(best, sum(1 for a in t.split(":") if a in LITERALS))
    return best


def describe(c):
    if c["kind"] == "matrix":
        typed = ",wrap" if c.get("wrap") else ",typed" if c["data"].get("dtype") else ""
        return f"matrix{typed},{c['mat']},{c['output']},efr={int(c['efr'])},maxlit={_max_literals(c['formula'])}"
    return c["kind"]


def nontrivial(c):
    return c["kind"] == "matrix" and ":" in c["formula"]


# ----------------------------------------------------------------------------- impl


def _materializer(c, df):
    from formulaic.materializers import NarwhalsMaterializer, PandasMaterializer

    cls = PandasMaterializer if c["mat"] == "pandas" else NarwhalsMaterializer
    return cls(df, context=CONTEXT)


def _enc_json(m, ef, spec, r):
    """the object `_encode_evaled_factor` holds right before the drop-field step, for reduced_rank=r"""
    m._encode_evaled_factor(ef, spec, [], reduced_rank=r)  # make sure the cache entry exists
    k = ef.expr
    enc = m.encoded_cache[k] if k in m.encoded_cache else m.encoded_cache[(k, r)]
    if isinstance(enc, tuple):
        # since the repair "every spec that uses a categorical factor records its encoder state" a cache entry is the
        # pair (encoded object, recorded encoder state); an encoded object itself is never a tuple
        enc = enc[0]
    md =getattr(enc, "__formulaic_metadata__", ef.metadata)
    if isinstance(enc, dict):
        for v in enc.values():
            if isinstance(v, dict):
                raise ValueError("nested encoded dict (not modelled)")
        cols = [[field_json(f), [fstr(x) for x in col_values(v)]] for f, v in enc.items()]
        isdict = True
    else:
        cols = [[field_json(""), [fstr(x) for x in col_values(enc)]]]
        isdict = False
    return {
        "dict": isdict,
        "cols": cols,
        "spans": bool(md.spans_intercept),
        "drop": None if md.drop_field is None else field_json(md.drop_field),
        "rmeta": bool(md.reduced),
        "fmt": parse_fmt(md.format),
        "fmtr": parse_fmt(md.format_reduced),
    }


def as_dict(c):
    """does `_combine_columns` of this materializer/output go through a {name: column} dict?
    (pandas materializer: never - since the fix "pandas output keeps columns that share a label" the frame is
    assembled by position; narwhals: `nw.from_dict` for everything but sparse)"""
    return c["mat"] == "narwhals" and c["output"] != "sparse"


def observe(m, mm, output, nrows, collapse=False):
    """canonical observables of one materialisation"""
    from formulaic.parser.types import Factor

    spec = mm.model_spec
    out = {}
    out["terms"] = [[{"x": f.expr, "m": f.eval_method.value} for f in t.factors] for t in spec.formula]
    out["structure"] = [
        {
            "term": [f.expr for f in s.term.factors],
            "scoped": [
                {"factors": [[sf.factor.expr, bool(sf.reduced)] for sf in st.factors], "scale": fstr(st.scale)}
                for st in s.scoped_terms
            ],
            "columns": [str(x) for x in s.columns],
        }
        for s in spec.structure
    ]
    if output == "pandas":
        names = [str(x) for x in mm.columns]
        arr = numpy.asarray(mm).astype(float).reshape((len(mm), len(names)))
    else:
        names = [str(x) for x in spec.column_names]
        if collapse:  # narwhals builds the array from a {name: column} dict: repeated names collapse
            names = list(dict.fromkeys(names))
        arr = mm.toarray() if hasattr(mm, "toarray") else numpy.asarray(mm)
        arr = numpy.asarray(arr).astype(float)
    out["shape"] = [int(arr.shape[0]), int(arr.shape[1])] if arr.ndim == 2 else [nrows, 0]
    out["columns"] = [{"name": n, "values": [fstr(x) for x in arr[:, j]]} for j, n in enumerate(names)] if arr.ndim == 2 and arr.shape[1] == len(names) else None
    if out["columns"] is None:
        out["columns"] = []
        out["shape_mismatch"] = f"{arr.shape} vs {len(names)} names"
    factors = []
    for expr, ef in m.factor_cache.items():
        md = ef.metadata
        kind = md.kind.value
        raw = ef.values.__wrapped__
        fj = {
            "expr": expr,
            "present": raw is not None,
            "kind": kind,
            "spans": bool(md.spans_intercept),
        }
        if md.kind is Factor.Kind.CONSTANT:
            # constants are folded into the scale and never encoded (encoding one fails for sparse output)
            fj["value"] = fstr(raw)
            fj["full"] = fj["reduced"] = {"dict": False, "cols": [[field_json(""), []]], "spans": False, "drop": None,
                                          "rmeta": False, "fmt": [], "fmtr": None}
        else:
            fj["full"] = _enc_json(m, ef, spec, False)
            fj["reduced"] = _enc_json(m, ef, spec, True)
        factors.append(fj)
    out["factors"] = factors
    # the implementation's own flattened encodings per scoped factor (for the oracle)
    flat = {}
    for s in spec.structure:
        for st in s.scoped_terms:
            for sf in st.factors:
                key = sf.factor.expr + ("-" if sf.reduced else "")
                if key not in flat:
                    d = m._encode_evaled_factor(m.factor_cache[sf.factor.expr], spec, [], reduced_rank=sf.reduced)
                    flat[key] = [[str(k), col_values(v)] for k, v in d.items()]
    out["flat"] = flat
    return out


def impl_matrix(c):
    df = make_frame(c["data"])
    m = _materializer(c, df)
    try:
        mm = m.get_model_matrix(
            c["formula"],
            ensure_full_rank=c["efr"],
            output=c["output"],
            cluster_by="numerical_factors" if c["cluster"] else "none",
        )
    except Exception as e:
        return {"error": type(e).__name__, "msg": str(e)[:200]}
    return observe(m, mm, c["output"], c["data"]["nrows"], collapse=as_dict(c))


class _Spec:
    def __init__(self, output):
        self.output = output


def impl_columns(c):
    import scipy.sparse as sp
    from formulaic.materializers import FormulaMaterializer, NarwhalsMaterializer, PandasMaterializer

    def val(col):
        a = numpy.array([ffloat(x) for x in col])
        if c["cls"] != "base" and c["output"] == "sparse":
            return sp.csc_matrix(a.reshape((len(a), 1)))
        return a

    factors = [{it["name"]: val(it["col"]) for it in f} for f in c["factors"]]
    cls = {"base": FormulaMaterializer, "pandas": PandasMaterializer, "narwhals": NarwhalsMaterializer}[c["cls"]]
    try:
        out = cls._get_columns_for_term(None, factors, _Spec(c["output"]), scale=ffloat(c["scale"]))
    except Exception as e:
        return {"error": type(e).__name__}
    return {"cols": [[k, [fstr(x) for x in col_values(v)]] for k, v in out.items()]}


def impl_simplify(c):
    from formulaic.materializers import FormulaMaterializer
    from formulaic.materializers.types import EvaluatedFactor, FactorValues, ScopedFactor, ScopedTerm
    from formulaic.parser.types import Factor
    from formulaic.parser.types.ordered_set import OrderedSet

    efs = {}

    def ef(e):
        if e not in efs:
            efs[e] = EvaluatedFactor(Factor(e), FactorValues([1], kind="categorical", spans_intercept=True))
        return efs[e]

    sts = [
        ScopedTerm([ScopedFactor(ef(e), reduced=r) for e, r in st["factors"]], scale=ffloat(st["scale"])) for st in c["sts"]
    ]
    try:
        out = FormulaMaterializer._simplify_scoped_terms(sts)
    except Exception as e:
        return {"error": type(e).__name__}
    return {"sts": [{"factors": [[sf.factor.expr, bool(sf.reduced)] for sf in st.factors], "scale": fstr(st.scale)} for st in out]}


def impl(c):
    k = c["kind"]
    if k in ("matrix", "badname"):
        return impl_matrix(c)
    if k == "columns":
        return impl_columns(c)
    if k == "simplify":
        return impl_simplify(c)
    raise ValueError(k)


# ----------------------------------------------------------------------------- request / agree


def matrix_request(c, o, truncate=None):
    def trunc_enc(e):
        if truncate is None:
            return e
        return dict(e, cols=[[f, col[:truncate]] for f, col in e["cols"]])

    nrows = c["data"]["nrows"] if truncate is None else min(truncate, c["data"]["nrows"])
    return dict(
        op="matrix",
        nrows=nrows,
        efr=c["efr"],
        cluster=c["cluster"],
        variant="fast",
        asdict=as_dict(c),
        terms=[[f["x"] for f in t] for t in o["terms"]],
        factors=[dict(f, full=trunc_enc(f["full"]), reduced=trunc_enc(f["reduced"])) for f in o["factors"]],
    )


def request(c, o):
    k = c["kind"]
    if "harness_exception" in o:
        return dict(op="noop")
    if k == "matrix":
        if "error" in o:
            return dict(op="noop")
        return matrix_request(c, o)
    if k == "badname":
        # the model is given the term list with an empty factor cache: `factor_cache[expr]` must fail
        return dict(op="matrix", nrows=1, efr=c["efr"], cluster=False, variant="fast", asdict=True,
                    terms=[["nosuch"]], factors=[])
    if k == "columns":
        return dict(op="columns", scale=c["scale"], factors=c["factors"])
    if k == "simplify":
        return dict(op="simplify", sts=c["sts"])
    raise ValueError(k)


def _values_agree(a: str, b: str, inexact: bool):
    if a == b:
        return True
    if not inexact:
        return Fraction(a) == Fraction(b)
    x, y = ffloat(a), ffloat(b)
    return abs(x - y) <= 1e-9 * (1 + abs(y))


def is_inexact(c):
    return any(s in c.get("formula", "") for s in INEXACT)


def agree_matrix(c, o, m, values=True, cells=None):
    """`cells` (a list): every value disagreement is recorded there as (column index, row, model value) and the
    first one is reported at the end; any other kind of disagreement is reported at once and leaves it empty"""
    if "error" in o:
        return f"implementation raised {o['error']} on a valid formula: {o.get('msg', '')}"
    if "error" in m:
        return f"model raised {m['error']}, implementation did not"
    ms = [dict(term=s["term"], scoped=s["scoped"], columns=s["columns"]) for s in m["structure"]]
    if ms != o["structure"]:
        for a, b in zip(ms, o["structure"]):
            if a != b:
                return f"structure differs for term {b['term']}: model {a} vs impl {b}"
        return "structure differs in length"
    if not values:
        return None
    mn = [e["name"] for e in m["columns"]]
    on = [e["name"] for e in o["columns"]]
    if mn != on:
        return f"column names differ: model {mn} vs impl {on}"
    inexact = is_inexact(c)
    first = None
    for a, b in zip(m["columns"], o["columns"]):
        if len(a["values"]) != len(b["values"]):
            if cells is not None:
                del cells[:]
            return f"column {b['name']}: length {len(a['values'])} vs {len(b['values'])}"
    for j, (a, b) in enumerate(zip(m["columns"], o["columns"])):
        for i, (x, y) in enumerate(zip(a["values"], b["values"])):
            if not _values_agree(x, y, inexact):
                msg = f"column {b['name']} row {i}: model {x} vs impl {y}"
                if cells is None:
                    return msg
                cells.append([j, i, x])
                first = first or msg
    return first


def agree(c, o, m):
    if "driver_error" in m:
        return "driver: " + m["driver_error"][:300]
    if "harness_exception" in o:
        return None  # reported by the oracle
    k = c["kind"]
    if k == "matrix":
        if "error" in o:
            return None  # reported by the oracle
        cells = []
        why = agree_matrix(c, o, m, cells=cells)
        if why is not None:
            # for classify(): WHAT the model disagrees about (the driver calls classify with the oracle's reason when
            # both the oracle and the correspondence object, so a disagreement must not hide behind a known finding)
            o["_corr"] = {"cells": cells} if cells else {"other": why}
        return why
    if k == "badname":
        if o.get("error") == "FactorEvaluationError" and m.get("error") == "KeyError":
            return None
        return f"unknown column: impl {o.get('error', 'no error')} vs model {m.get('error', 'no error')}"
    if k == "columns":
        side = m["base"] if c["cls"] == "base" else m["fast"]
        if "error" in o or (isinstance(side, dict) and "error" in side):
            oe = o.get("error")
            me = side.get("error") if isinstance(side, dict) else None
            return None if oe == me else f"impl {oe} vs model {me}"
        if [x[0] for x in side] != [x[0] for x in o["cols"]]:
            return f"names differ: model {[x[0] for x in side]} vs impl {[x[0] for x in o['cols']]}"
        for a, b in zip(side, o["cols"]):
            if [Fraction(v) for v in a[1]] != [Fraction(v) for v in b[1]]:
                return f"column {b[0]}: model {a[1]} vs impl {b[1]}"
        return None
    if k == "simplify":
        if "error" in o or "error" in m:
            return None if o.get("error") == m.get("error") else f"impl {o.get('error')} vs model {m.get('error')}"
        return None if o["sts"] == m["sts"] else f"simplified terms differ: model {m['sts']} vs impl {o['sts']}"
    return None


# ----------------------------------------------------------------------------- oracle


def _kron(factors):
    """factors: list of lists of (name, array); first factor varies fastest"""
    out = []
    for rev in itertools.product(*[f for f in reversed(factors)]):
        tup = rev[::-1]
        v = numpy.ones_like(tup[0][1], dtype=float) if tup else None
        for _, a in tup:
            v = v * a
        out.append((":".join(n for n, _ in tup), v))
    return out


def _close(a, b, inexact):
    a, b = numpy.asarray(a, dtype=float), numpy.asarray(b, dtype=float)
    if a.shape != b.shape:
        return False
    if inexact:
        return bool(numpy.all(numpy.abs(a - b) <= 1e-9 * (1 + numpy.abs(b))))
    return bool(numpy.array_equal(a, b))


def _without(g, v, j, excuse):
    rows = [i for i in range(len(g)) if (j, i) in excuse] if excuse and len(g) == len(v) else []
    if not rows:
        return g, v
    return numpy.delete(numpy.asarray(g, dtype=float), rows), numpy.delete(numpy.asarray(v, dtype=float), rows)


def _levels(cinfo, drop_unused=False):
    present = sorted({cinfo["levels"][i] for i in cinfo["codes"]})
    if cinfo["declared"] and not drop_unused:
        return list(cinfo["levels"])
    return present


def _full_encoding(expr, data, mat="pandas"):
    sem = atom_semantics(expr, data)
    if sem is None:
        return None
    if sem[0] == "cat":
        ci = data["cat"][sem[1]]
        vals = [ci["levels"][i] for i in ci["codes"]]
        # (before the repair "C(...) keeps the declared categories of a column under the narwhals materializer"
        # the narwhals path lost unused declared levels here; both materializers now keep the declared order)
        drop = False
        return "cat", [(f"{expr}[{lv}]", numpy.array([1.0 if v == lv else 0.0 for v in vals])) for lv in _levels(ci, drop)]
    cols = sem[1]
    if list(cols) == [None]:
        return "num", [(expr, numpy.asarray(cols[None], dtype=float))]
    return "num", [(f"{expr}[{k}]", numpy.asarray(v, dtype=float)) for k, v in cols.items()]


def oracle_matrix(c, o, excuse=frozenset()):
    """`excuse`: cells (column index, row) left out of the value comparison (used by classify() only, to establish
    that NOTHING but the cells of a known finding is wrong with a case)"""
    if "error" in o:
        return f"materialisation raised {o['error']}: {o.get('msg', '')}"
    if "shape_mismatch" in o:
        return "matrix shape and column names disagree: " + o["shape_mismatch"]
    data, n = c["data"], c["data"]["nrows"]
    inexact = is_inexact(c)
    cols = o["columns"]
    if o["shape"][0] != n:
        return f"matrix has {o['shape'][0]} rows, data has {n}"
    values = {}
    got = [(e["name"], numpy.array([ffloat(v) for v in e["values"]])) for e in cols]
    lits = {}
    terms = {tuple(f["x"] for f in t): t for t in o["terms"]}
    # --- rank reduction off: everything from the data
    if not c["efr"]:
        order = [t for t in o["terms"]]
        if c["cluster"]:
            groups = {}
            for t in order:
                key = tuple(f["x"] for f in t if f["m"] != "literal" and (_full_encoding(f["x"], data, c["mat"]) or ("?",))[0] == "num")
                groups.setdefault(key, []).append(t)
            order = [t for g in groups.values() for t in g]
        expect = []
        for t in order:
            scale = 1.0
            facs = []
            for f in t:
                if f["m"] == "literal":
                    scale *= float(f["x"])
                    continue
                enc = _full_encoding(f["x"], data, c["mat"])
                if enc is None:
                    return None  # an atom this oracle has no independent semantics for
                facs.append(enc[1])
            if not facs:
                expect.append(("Intercept", scale * numpy.ones(n)))
            else:
                expect += [(nm, scale * v) for nm, v in _kron(facs)]
        if as_dict(c):
            dd = {}
            for nm, v in expect:
                dd[nm] = v
            expect = list(dd.items())
        if [nm for nm, _ in expect] != [nm for nm, _ in got]:
            return f"rank reduction off: expected columns {[nm for nm, _ in expect]}, got {[nm for nm, _ in got]}"
        for j, ((nm, v), (_, g)) in enumerate(zip(expect, got)):
            if not _close(*_without(g, v, j, excuse), inexact):
                return f"rank reduction off: column {nm} is {g.tolist()}, the Kronecker product of the full encodings times the scale is {v.tolist()}"
        return None
    # --- rank reduction on: every emitted column obeys its label
    expect = []
    for s in o["structure"]:
        t = terms.get(tuple(s["term"]))
        if t is None:
            return f"structure lists term {s['term']} that is not in the formula"
        want_scale = 1.0
        for f in t:
            if f["m"] == "literal":
                want_scale *= float(f["x"])
        tcols = {}
        for st in s["scoped"]:
            if ffloat(st["scale"]) != want_scale:
                return f"term {s['term']}: scoped term carries scale {st['scale']}, the literal scale is {want_scale}"
            if not st["factors"]:
                tcols["Intercept"] = want_scale * numpy.ones(n)
                continue
            facs = []
            for e, r in st["factors"]:
                flat = o["flat"][e + ("-" if r else "")]
                facs.append([(nm, numpy.array(v)) for nm, v in flat])
                sem = atom_semantics(e, data)
                if sem and sem[0] == "num":
                    # a numeric factor is encoded as itself: the column(s) its label names are the data column /
                    # the value of the Python expression, whatever the storage dtype and the output type
                    want = _full_encoding(e, data, c["mat"])[1]
                    if [nm for nm, _ in want] != [nm for nm, _ in flat]:
                        return f"numeric factor {e}: encoded columns {[nm for nm, _ in flat]}, expected {[nm for nm, _ in want]}"
                    for (nm, w), (_, v) in zip(want, flat):
                        if not _close(v, w, False):
                            return f"encoded column {nm} is {list(v)}, the data say {w.tolist()}"
                if sem and sem[0] == "cat" and (e == sem[1] or e == f"C({sem[1]})" or "contr.treatment" in e or not r):
                    # dummy coding: every column is the indicator of the level in its name
                    ci = data["cat"][sem[1]]
                    vals = [ci["levels"][i] for i in ci["codes"]]
                    for nm, v in flat:
                        lv = nm[len(e) + 1 : -1]
                        if lv.startswith("T.") and r:
                            lv = lv[2:]
                        ind = [1.0 if str(x) == lv else 0.0 for x in vals]
                        if list(v) != ind:
                            return f"encoded column {nm} is {list(v)}, the indicator of level {lv!r} is {ind}"
            for nm, v in _kron(facs):
                tcols[nm] = want_scale * v
        if list(tcols) != s["columns"]:
            return f"term {s['term']}: columns {s['columns']} but the scoped terms name {list(tcols)}"
        expect += list(tcols.items())
    if as_dict(c):
        dd = {}
        for nm, v in expect:
            dd[nm] = v
        expect = list(dd.items())
    if [nm for nm, _ in expect] != [nm for nm, _ in got]:
        return f"expected columns {[nm for nm, _ in expect]}, got {[nm for nm, _ in got]}"
    for j, ((nm, v), (_, g)) in enumerate(zip(expect, got)):
        if not _close(*_without(g, v, j, excuse), inexact):
            return f"column {nm} is {g.tolist()} but the product of the encoded factor columns in its label times the scale is {v.tolist()}"
    for nm, g in got:
        if nm == "Intercept" and any(tuple(f["x"] for f in t if f["m"] == "literal") == ("1",) and len(t) == 1 for t in o["terms"]):
            if not numpy.array_equal(g, numpy.ones(n)):
                return f"Intercept column is {g.tolist()}, not ones"
    return None


def oracle_columns(c, o):
    if "error" in o:
        return None if any(len(f) == 0 for f in c["factors"]) or not c["factors"] else f"_get_columns_for_term raised {o['error']}"
    facs = [[(it["name"], numpy.array([ffloat(x) for x in it["col"]])) for it in f] for f in c["factors"]]
    dd = {}
    for nm, v in _kron(facs):
        dd[nm] = ffloat(c["scale"]) * v
    if list(dd) != [x[0] for x in o["cols"]]:
        return f"expected names {list(dd)}, got {[x[0] for x in o['cols']]}"
    for (nm, v), (_, g) in zip(dd.items(), o["cols"]):
        if [ffloat(x) for x in g] != list(v):
            return f"column {nm} is {g}, product is {[float(x) for x in v]}"
    return None


def oracle(c, o):
    if "harness_exception" in o:
        return "harness could not run the implementation: " + o["harness_exception"]
    k = c["kind"]
    if k == "matrix":
        return oracle_matrix(c, o)
    if k == "columns":
        return oracle_columns(c, o)
    return None


def _norm_atom(expr, data):
    """normalised numeric factor expression -> (columns it reads, exact semantics, v, w) | None (cf. atom_semantics)"""
    names = sorted(data["num"])
    for src, (norm, fn) in NUM_ATOMS.items():
        for v in names:
            for w in names:
                if norm.format(v=v, w=w) == expr:
                    return ([v, w] if "{w}" in src else [v]), fn, v, w
    return None


def wrapped_cells(c, o):
    """The cells of the output that show known finding C02-F1 and nothing else, as {(column index, row): exact value}
    - or None when the exact expectation cannot be lined up with the output.

    Everything is recomputed in exact rational arithmetic from the DATA (numeric factors) and the implementation's
    encoded categorical columns, in the order of the recorded structure. A cell qualifies iff
      * its column belongs to a scoped term ALL of whose factors are numeric factors over columns stored in integer
        dtypes (no categorical factor; literals only through the scale s),
      * the observed value g differs from the exact product s*P (P = product of the factor values, an integer),
      * P or s*P lies outside the range of a narrowest (fewest bits, b) storage dtype the term reads, and
      * g is precisely wrap-around: s integral -> g is an integer with g = s*P (mod 2**b) (every step, the scale
        included, was carried out in an integer dtype of >= b bits); s fractional -> g/s is an integer w with
        w = P (mod 2**b) (the factors wrapped, the float scale was applied afterwards)."""
    if c.get("kind") != "matrix" or "error" in o or "shape_mismatch" in o or "structure" not in o:
        return None
    data, n = c["data"], c["data"]["nrows"]
    dtypes = data.get("dtype", {})
    exact = {k: numpy.array([Fraction(x) for x in v], dtype=object) for k, v in data["num"].items()}
    cols = []  # (name, exact values, integer-term info | None)
    for s in o["structure"]:
        tcols = {}
        for st in s["scoped"]:
            scale = Fraction(st["scale"])
            if not st["factors"]:
                tcols["Intercept"] = ([scale] * n, None)
                continue
            facs, read, allint = [], [], True
            for e, r in st["factors"]:
                na = _norm_atom(e, data)
                sem = atom_semantics(e, data)
                if na is not None and sem is not None and sem[0] == "num":
                    fields = na[1](exact, na[2], na[3])
                    facs.append([(e if k is None else f"{e}[{k}]", list(v)) for k, v in fields.items()])
                    read += na[0]
                else:
                    allint = False
                    facs.append([(nm, [Fraction(x) for x in v]) for nm, v in o["flat"][e + ("-" if r else "")]])
            allint = allint and all(dtypes.get(k, "float64") in DTYPES and not DTYPES[dtypes.get(k, "float64")][2] for k in read)
            for rev in itertools.product(*reversed(facs)):
                tup = rev[::-1]
                prod = [Fraction(1)] * n
                for _, vals in tup:
                    if len(vals) != n:
                        return None
                    prod = [p * x for p, x in zip(prod, vals)]
                info = dict(scale=scale, prod=prod, dtypes=sorted({dtypes[k] for k in read})) if allint else None
                tcols[":".join(nm for nm, _ in tup)] = ([scale * p for p in prod], info)
        if list(tcols) != s["columns"]:
            return None
        cols += [(nm, v, info) for nm, (v, info) in tcols.items()]
    if as_dict(c):
        cols = list({nm: (nm, v, info) for nm, v, info in cols}.values())
    if [nm for nm, _, _ in cols] != [e["name"] for e in o["columns"]]:
        return None
    out = {}
    for j, ((nm, want, info), e) in enumerate(zip(cols, o["columns"])):
        if info is None or len(e["values"]) != n:
            continue
        ranges = [_int_range(dt) for dt in info["dtypes"]]
        b = min(r[2] for r in ranges)
        narrow = [r for r in ranges if r[2] == b]
        s = info["scale"]
        for i in range(n):
            g, p = Fraction(e["values"][i]), info["prod"][i]
            if g == want[i]:
                continue
            if not any(not lo <= x <= hi for lo, hi, _ in narrow for x in (p, s * p)):
                continue
            if s.denominator == 1:
                ok = g.denominator == 1 and (g - s * p) % 2**b == 0
            else:
                w = g / s
                ok = w.denominator == 1 and (w - p) % 2**b == 0
            if ok:
                out[(j, i)] = want[i]
    return out


def classify(c, o, why):
    """C02-F1 for exactly: at least one cell is integer wrap-around in the sense of `wrapped_cells`, every other
    check of the oracle passes with those cells left out, and wherever the (exact) model disagrees with the
    implementation it is on such a cell and the model holds the exact product."""
    try:
        if c.get("kind") != "matrix" or not isinstance(o, dict) or "harness_exception" in o:
            return None
        cells = wrapped_cells(c, o)
        if not cells:
            return None
        corr = o.get("_corr") or {}
        if "other" in corr:
            return None
        for j, i, x in corr.get("cells", []):
            if (j, i) not in cells or Fraction(x) != cells[(j, i)]:
                return None
        if oracle_matrix(c, o, excuse=frozenset(cells)) is not None:
            return None
        return "C02-F1"
    except Exception:
        return None


LEVEL_TEXT = (
    "Proof: Lean theorems (Props/C02.lean) about the executable model of the term -> scoped terms -> columns pipeline "
    "show, for ALL factor caches, term lists, both rank settings and both `_get_columns_for_term` variants, that every "
    "emitted column equals the term's literal scale times the pointwise product of the encoded factor columns its "
    "structural label names, that the intercept is scale*ones named Intercept, that the pandas/narwhals fast path equals "
    "the base product, and that with rank reduction off each term yields the row-wise Kronecker product of the full "
    "encodings (first factor fastest). The model is tied to the code by a differential correspondence on every run "
    "(labels and exact values of whole matrices, numeric columns in every numpy storage dtype with full-width values "
    "included); a data-level oracle recomputes the matrix independently. Known finding C02-F1: products of integer-dtype "
    "columns wrap around in the narrow integer dtype (the theorems are about exact products; such cells are reported as "
    "KNOWN-FINDING, never silently accepted)."
)
LEVEL_NOTE = (
    "Trusted: Lean kernel + propext/Classical.choice/Quot.sound; the hand model of base.py/pandas.py/narwhals.py "
    "validated by correspondence; encoders (get_dummies, contrast matrices), str.format and numpy arithmetic enter as data/parameters."
)
