"""C04 — A model spec replays the recorded encoding row by row on any data.

Correspondence stream `c04`: the real `model_matrix(formula, train)` followed by a SEQUENCE of
follow-up materialisations of the attached spec (`spec.get_model_matrix(df)`, `model_matrix(spec, df)`,
`model_matrix(mm, df)`, a pickled-and-restored spec, the spec of a pickled-and-restored matrix) against
`Model.Replay.materialize` (fit on the training rows, then the fitted spec — also through
`getstate`/`restore` — on every follow-up).  Training data and follow-ups are selections of rows
(subsets, duplications, permutations, single rows, rows whose levels are absent elsewhere) of one
common POOL, so the expected output row of every follow-up row is known.

Parameters of the model (CPython / numpy side, taken from the implementation per case): what each factor
expression computes (the harness generates the formula from atoms whose meaning it knows), the normal form
of every stateful call text (`format_expr`), `numpy.sqrt` (recorded scales / sqrt(norms2)), quantile knots
(read from the recorded state), the matrices F (`_get_natural_f/_get_cyclic_f` on the recorded knots) and
Q2 (`numpy.linalg.qr` of the recorded constraints), values of the elementwise functions at the pool values.
Values are compared with tolerance 1e-9*max(1,|v|) (the model computes in exact rationals).

Oracle (implementation only, metamorphic): replay on the training data equals the matrix; names and order
identical on every follow-up; every follow-up row equals the output of the one-row frame of the same pool row
(and the fitted matrix row when the pool row is a training row); pickled specs give the same; nothing raises
on in-domain data; the recorded state does not change.
"""
from __future__ import annotations

import copy
import math
import pickle
import warnings
from fractions import Fraction

import numpy
import pandas

PROPERTY = "C04"
ENGINE = "c04"
REQUIRED_THEOREMS = [
    "apply_after_fit",
    "apply_rowwise",
    "select_of_rowwise",
    "scale_lawful",
    "poly_lawful",
    "bs_lawful",
    "cs_lawful",
    "cat_lawful",
    "cat_select",
    "callDict_lawful",
    "state_key_normalised",
    "fit_ready",
    "replay_reproduces",
    "replay_names",
    "replay_names_nodup",
    "replay_select",
    "replay_rowwise",
    "replay_state_unchanged",
    "pickle_fields",
]
TRUSTED = [
    "parameters of the model, taken from the implementation per case and not verified: the meaning of each factor "
    "expression (CPython eval of the atoms the generator emits), ast.parse/ast.unparse (normal form of a stateful call "
    "text), numpy.sqrt, numpy.nanquantile/nanpercentile, scipy solve_banded / numpy.linalg.solve (F), numpy.linalg.qr "
    "(Q2), numpy log/exp; each is a FUNCTION in the model (same input, same output), i.e. determinism of these "
    "routines is assumed",
    "pickle's byte stream, wrapt proxies and dataclass unpickling are not modelled: the model of __getstate__ works on "
    "the instance __dict__ (which keys survive), the round trip through real pickle is exercised by the correspondence",
    "float rounding is not modelled; agreement at 1e-9*max(1,|v|)",
    "missing values (NaN rows, extrapolation='na', null categories) are property C06 and outside this model; `lag` is excluded by the property",
    "the set `factors` of get_model_matrix is iterated in hash order; the model evaluates factors in formula order "
    "(the recorded state does not depend on the order: every key is fitted once, on the same data)",
]
ASSUMPTIONS = [
    "replay_select / replay_rowwise / replay_state_unchanged assume Ready env spec (every stateful call of every factor "
    "finds a complete recorded state under its key — all three statistics for the scale family, a state recorded by "
    "some fit for poly — and every categorical factor finds its recorded levels) and a non-empty recorded structure; "
    "fit_ready proves both for every spec attached to a fitted matrix, and replay_reproduces has no such hypothesis",
    "a replay may raise instead (bs/cr with extrapolation='raise' on a row outside the recorded bounds): the theorems "
    "speak about replays that succeed and show that success on a frame implies success on every selection of its rows",
    "dict-valued data (center(bs(x)): nested per-key state) are covered by callDict_lawful on the decorator's loop and "
    "its own correspondence stream; the pipeline model reports such formulas as outside the model",
]
RULE = (
    "pool of 4-12 rows (numeric columns over small integers / dyadics, a positive column, 1-2 categorical columns "
    "with 2-4 levels as object dtype or declared Categorical incl. unused levels, string or int labels); training = "
    "random selection of pool rows (80%: contains the extremes of every numeric column); formula of 1-4 terms, each an "
    "interaction of 1-3 atoms: plain columns, I()/{} arithmetic, log/exp/np.log, center/scale/standardize (arguments, "
    "odd spacing), poly (degrees 1-3, raw), bs (df / knots / degree / include_intercept / clip, zero, extend, raise), "
    "cr/cs/cc (df / knots / constraints='center'), nested calls (center(bs()), scale(cr()), poly(center()), "
    "center(center()), repeated identical calls inside one factor), C(A, contr.*), literals; x ensure_full_rank x "
    "output pandas/numpy/sparse x cluster_by; then 3-7 follow-ups (subset, duplication, permutation, single row, "
    "whole pool, training rows again) through 5 routes. non-trivial = a stateful transform or a categorical factor "
    "and at least one follow-up that is not the training frame; distinct by canonical JSON"
)
TOL = 1e-9
ORACLE_TOL = 1e-11

# ----------------------------------------------------------------------------- helpers


def fs(q) -> str:
    q = Fraction(q)
    return f"{q.numerator}/{q.denominator}"


def ffs(v) -> str:
    v = float(v)
    return "0/1" if not math.isfinite(v) else fs(Fraction(v))


def fl(s) -> float:
    return float(Fraction(s))


def close(a, b, tol=TOL):
    return abs(a - b) <= tol * max(1.0, abs(a), abs(b))


# ----------------------------------------------------------------------------- expression atoms (source + meaning)

def col(v):
    return {"op": "col", "v": v}


def binc(f, a, c):
    return {"op": "binc", "f": f, "a": a, "c": fs(c)}


def bin_(f, a, b):
    return {"op": "bin", "f": f, "a": a, "b": b}


def elem(fn, a):
    return {"op": "elem", "fn": fn, "a": a}


def call(text, tr, a):
    return {"op": "call", "text": text, "tr": tr, "a": a}


def sp(rng):
    """random insignificant spacing (exercises the normalisation of the call text)"""
    return rng.choice(["", "", "", " "])


def gen_exact(rng, nums, depth=0):
    """stateless numeric expression with an exactly representable value: (src, expr)"""
    v = rng.choice(nums)
    r = rng.random()
    if r < 0.5 or depth > 0:
        return v, col(v)
    if r < 0.7:
        c = rng.choice([1, 2, 3, -1])
        return f"({v} + {c})", binc("add", col(v), c)
    if r < 0.85:
        c = rng.choice([2, 4, -2])
        return f"({v} * {c})", binc("mul", col(v), c)
    w = rng.choice(nums)
    op, sym = rng.choice([("add", "+"), ("sub", "-"), ("mul", "*")])
    if w == v and op == "sub":
        op, sym = "add", "+"  # `x - x` is a constant column: degenerate for every transform
    return f"({v} {sym} {w})", bin_(op, col(v), col(w))


def strip_par(s):
    return s[1:-1] if s.startswith("(") and s.endswith(")") else s


def gen_scale_call(rng, inner_src, inner):
    """a scale-family call around `inner`"""
    s1, s2 = sp(rng), sp(rng)
    arg = strip_par(inner_src)
    k = rng.random()
    if k < 0.35:
        return f"center({s1}{arg}{s2})", call(None, dict(kind="scale", center=True, scale=False, ddof="1/1"), inner)
    if k < 0.55:
        return f"scale({s1}{arg}{s2})", call(None, dict(kind="scale", center=True, scale=True, ddof="1/1"), inner)
    if k < 0.65:
        return f"scale({arg},{s1}ddof=0)", call(None, dict(kind="scale", center=True, scale=True, ddof="0/1"), inner)
    if k < 0.75:
        return f"scale({arg}, center=False)", call(None, dict(kind="scale", center=False, scale=True, ddof="1/1"), inner)
    if k < 0.85:
        c = rng.choice([1, 2, Fraction(1, 2)])
        return (f"scale({arg}, center={float(c)!r}, scale=False)",
                call(None, dict(kind="scale", center=fs(c), scale=False, ddof="1/1"), inner))
    return f"standardize({s1}{arg})", call(None, dict(kind="scale", center=True, scale=True, ddof="0/1"), inner)


def gen_poly_call(rng, inner_src, inner):
    arg = strip_par(inner_src)
    d = rng.choice([1, 2, 2, 3])
    if rng.random() < 0.15:
        return f"poly({arg}, {d}, raw=True)", call(None, dict(kind="poly", degree=d, raw=True), inner)
    if rng.random() < 0.3:
        return f"poly({arg}, degree={d})", call(None, dict(kind="poly", degree=d, raw=False), inner)
    return f"poly({arg},{sp(rng)}{d})", call(None, dict(kind="poly", degree=d, raw=False), inner)


def gen_bs_call(rng, inner_src, inner):
    arg = strip_par(inner_src)
    degree = rng.choice([1, 2, 3, 3])
    intercept = rng.random() < 0.3
    mode = rng.choice(["raise", "raise", "clip", "zero", "extend"])
    tr = dict(kind="bs", df=None, knots=None, degree=degree, intercept=intercept, lower=None, upper=None, mode=mode)
    args = []
    if rng.random() < 0.8:
        tr["df"] = degree + (1 if intercept else 0) + rng.choice([0, 1, 1, 2])
        args.append(f"df={tr['df']}")
    if degree != 3:
        args.append(f"degree={degree}")
    if intercept:
        args.append("include_intercept=True")
    if mode != "raise":
        args.append(f"extrapolation='{mode}'")
    src = f"bs({arg}" + "".join(", " + a for a in args) + ")"
    return src, call(None, tr, inner)


def gen_cs_call(rng, inner_src, inner):
    arg = strip_par(inner_src)
    fn = rng.choice(["cr", "cr", "cs", "cc"])
    cyclic = fn == "cc"
    cons = "center" if rng.random() < 0.3 else None
    mode = rng.choice(["extend", "extend", "clip", "zero", "raise"])
    df = rng.choice([2, 3, 3, 4]) if not cyclic else rng.choice([2, 3, 3])
    tr = dict(kind="cs", df=df, knots=None, lower=None, upper=None, constraints=cons, cyclic=cyclic, mode=mode)
    args = [f"df={df}"]
    if cons:
        args.append("constraints='center'")
    if mode != "extend":
        args.append(f"extrapolation='{mode}'")
    return f"{fn}({arg}, " + ", ".join(args) + ")", call(None, tr, inner)


def set_text(src, e):
    e["text"] = src
    return src, e


def gen_numeric_atom(rng, nums, pos):
    """(factor source as written in the formula, expr)"""
    r = rng.random()
    if r < 0.12:
        v = rng.choice(nums)
        return v, col(v)
    if r < 0.2:
        s, e = gen_exact(rng, nums)
        if e["op"] == "col":
            return s, e
        return rng.choice([f"I{s}", "{" + strip_par(s) + "}"]), e
    if r < 0.3:
        fn = rng.choice(["log", "log", "exp", "np.log", "log2", "exp2"])
        if fn in ("log", "np.log", "log2"):
            inner_s, inner = (pos, col(pos)) if rng.random() < 0.7 else (f"({pos} + 1)", binc("add", col(pos), 1))
        else:
            v = rng.choice(nums)
            inner_s, inner = f"({v} / 8)" if False else (v, col(v))
        return f"{fn}({strip_par(inner_s)})", elem(fn.replace("np.", ""), inner)
    if r < 0.52:
        return set_text(*gen_scale_call(rng, *gen_exact(rng, nums)))
    if r < 0.62:
        return set_text(*gen_poly_call(rng, *gen_exact(rng, nums)))
    if r < 0.74:
        return set_text(*gen_bs_call(rng, *gen_exact(rng, nums)))
    if r < 0.84:
        return set_text(*gen_cs_call(rng, *gen_exact(rng, nums)))
    # nested
    k = rng.random()
    if k < 0.2:  # scale family over an elementwise function
        inner_s, inner = f"log({pos})", elem("log", col(pos))
        return set_text(*gen_scale_call(rng, inner_s, inner))
    if k < 0.4:  # scale family over a spline (dict-valued data: nested per-key state)
        g = rng.choice([gen_bs_call, gen_cs_call])
        inner_s, inner = set_text(*g(rng, *gen_exact(rng, nums, 1)))
        return set_text(*gen_scale_call(rng, inner_s, inner))
    if k < 0.55:  # poly of a centred / scaled variable
        inner_s, inner = set_text(*gen_scale_call(rng, *gen_exact(rng, nums, 1)))
        return set_text(*gen_poly_call(rng, inner_s, inner))
    if k < 0.7:  # scale of scale
        inner_s, inner = set_text(*gen_scale_call(rng, *gen_exact(rng, nums, 1)))
        return set_text(*gen_scale_call(rng, inner_s, inner))
    if k < 0.85:  # arithmetic of two stateful calls inside I()
        a_s, a = set_text(*gen_scale_call(rng, *gen_exact(rng, nums, 1)))
        b_s, b = set_text(*gen_scale_call(rng, *gen_exact(rng, nums, 1)))
        op, sym = rng.choice([("add", "+"), ("sub", "-"), ("mul", "*")])
        return f"I({a_s} {sym} {b_s})", bin_(op, a, b)
    # the SAME stateful call twice in one factor (second copy written with other spacing)
    v = rng.choice(nums)
    fn = rng.choice(["center", "scale"])
    tr = dict(kind="scale", center=True, scale=(fn == "scale"), ddof="1/1")
    a = call(f"{fn}({v})", tr, col(v))
    b = call(f"{fn}( {v} )", dict(tr), col(v))
    op, sym = rng.choice([("mul", "*"), ("add", "+")])
    return f"I({fn}({v}) {sym} {fn}( {v} ))", bin_(op, a, b)


CONTRASTS = ["treatment", "sum", "helmert", "SAS", "diff", "base"]


def gen_cat_atom(rng, cats, cinfo):
    v = rng.choice(cats)
    r = rng.random()
    if r < 0.5:
        return v, dict(k="cat", var=v, contrast=dict(c="treatment", base=None), viaC=False)
    if r < 0.6:
        return f"C({v})", dict(k="cat", var=v, contrast=dict(c="treatment", base=None), viaC=True)
    c = rng.choice(CONTRASTS)
    if c == "base":
        lv = rng.choice(cinfo[v]["train_levels"])
        return (f"C({v}, contr.treatment({lv!r}))",
                dict(k="cat", var=v, contrast=dict(c="treatment", base=lab(lv)), viaC=True))
    con = dict(c=c, base=None)
    if c == "helmert":
        con.update(reverse=True, scale=False)
    if c == "diff":
        con.update(backward=True)
    return f"C({v}, contr.{c})", dict(k="cat", var=v, contrast=con, viaC=True)


def lab(v):
    return {"s": v} if isinstance(v, str) else {"i": int(v)}


# ----------------------------------------------------------------------------- generator

LEVEL_POOLS = [["a", "b", "c", "d"], ["u", "v", "w", "z"], ["lo", "mid", "hi", "top"], [1, 2, 3, 4], ["a b", "c-d", "e.f", "g"]]


def gen_pool(rng, tier):
    n = rng.randint(5, 9 if tier == "quick" else 12)
    kind = rng.choice(["int", "int", "dy"])
    num = {}
    for name in ["x", "y"]:
        if kind == "int":
            vals = [Fraction(rng.randint(-8, 12)) for _ in range(n)]
        else:
            vals = [Fraction(rng.randint(-24, 40), 4) for _ in range(n)]
        if len(set(vals)) < n and rng.random() < 0.8:  # mostly distinct values (splines / polynomials need them)
            vals = rng.sample([Fraction(k, 1 if kind == "int" else 4) for k in range(-24, 44)], n)
        num[name] = [fs(v) for v in vals]
    num["p"] = [fs(Fraction(rng.randint(1, 64), 4)) for _ in range(n)]
    # training selection
    k = rng.randint(max(4, n - 3), n)
    train = sorted(rng.sample(range(n), k))
    if rng.random() < 0.8:
        for name in num:  # training rows contain the extremes
            vals = [Fraction(v) for v in num[name]]
            for i in (vals.index(min(vals)), vals.index(max(vals))):
                if i not in train:
                    train.append(i)
        train = sorted(train)
    if rng.random() < 0.3:
        rng.shuffle(train)
    cat = {}
    for name in ["A", "B"][: rng.choice([1, 2, 2])]:
        pool = rng.choice(LEVEL_POOLS)
        nl = rng.randint(2, 4)
        levels = pool[:nl] if rng.random() < 0.7 else rng.sample(pool, nl)
        declared = rng.random() < 0.4
        codes = [None] * n
        for i in train:
            codes[i] = rng.randrange(nl)
        if rng.random() < 0.3:
            for i in train:  # leave the last level unused in the training rows
                if codes[i] == nl - 1:
                    codes[i] = 0
        used = sorted({codes[i] for i in train})
        for i in range(n):
            if codes[i] is None:  # follow-up-only rows: a level of the training domain
                codes[i] = rng.choice(list(range(nl)) if declared else used)
        cat[name] = dict(levels=levels, codes=codes, declared=declared,
                         train_levels=[levels[c] for c in (range(nl) if declared else used)])
    return n, num, cat, train


def gen_followups(rng, n, train):
    fus = [dict(rows=list(train), route="spec")]
    kinds = ["subset", "dup", "perm", "single", "pool", "train", "single", "subset"]
    for _ in range(rng.randint(2, 6)):
        k = rng.choice(kinds)
        if k == "subset":
            rows = sorted(rng.sample(range(n), rng.randint(1, n)))
        elif k == "dup":
            rows = [rng.randrange(n) for _ in range(rng.randint(2, n + 2))]
        elif k == "perm":
            rows = list(range(n))
            rng.shuffle(rows)
        elif k == "single":
            rows = [rng.randrange(n)]
        elif k == "pool":
            rows = list(range(n))
        else:
            rows = list(train)
        fus.append(dict(rows=rows, route=rng.choice(["spec", "spec", "sugar", "mm", "pickle", "pickle", "pickle_mm"])))
    return fus


def gen_case(rng, tier):
    n, num, cat, train = gen_pool(rng, tier)
    nums = ["x", "y"]
    atoms = {}
    terms = []
    seen = set()
    for _ in range(rng.randint(1, 4)):
        k = rng.choice([1, 1, 1, 2, 2, 3])
        fac = []
        for _ in range(k):
            if cat and rng.random() < 0.35:
                s, sem = gen_cat_atom(rng, sorted(cat), cat)
            else:
                s, e = gen_numeric_atom(rng, nums, "p")
                sem = dict(k="num", e=e)
            if s not in fac:
                fac.append(s)
                atoms[s] = sem
        if frozenset(fac) in seen:
            continue
        seen.add(frozenset(fac))
        if rng.random() < 0.12:
            fac.insert(rng.randrange(len(fac) + 1), rng.choice(["2", "0.5", "3"]))
        terms.append(":".join(fac))
    icpt = rng.choice(["", "", "", "0 + ", "-1 + "])
    return dict(
        kind="replay", n=n, num=num, cat={k: dict(v) for k, v in cat.items()}, train=train,
        formula=icpt + " + ".join(terms), atoms=atoms,
        efr=rng.random() < 0.75, output=rng.choice(["pandas", "pandas", "numpy", "sparse"]),
        cluster=rng.random() < 0.15,
        followups=gen_followups(rng, n, train),
    )


def gen_dict_case(rng):
    """the decorator's loop over dict-valued data, called directly (`center` / `scale` on a dict of columns)"""
    n = rng.randint(2, 8)
    nkeys = rng.randint(1, 4)
    keys = rng.sample([1, 2, 3, 4, 0, "a", "b", "col"], nkeys)
    cols = [[k, [fs(Fraction(rng.randint(-12, 20), rng.choice([1, 1, 2, 4]))) for _ in range(n)]] for k in keys]
    if rng.random() < 0.5:
        cols.insert(rng.randrange(len(cols) + 1), ["__meta", [fs(rng.randint(0, 5)) for _ in range(n)]])
    _, e = gen_scale_call(rng, "x", col("x"))
    fus = []
    for _ in range(rng.randint(1, 4)):
        fus.append([rng.randrange(n) for _ in range(rng.randint(1, n + 2))])
    return dict(kind="dict", n=n, cols=cols, tr=e["tr"], followups=fus)


def cases(rng, tier):
    n = {"quick": 260, "thorough": 4000, "search": 120}[tier]
    for _ in range(n):
        yield gen_case(rng, tier)
    for _ in range(max(20, n // 6)):
        yield gen_dict_case(rng)


def describe(c):
    if c["kind"] == "dict":
        return "dict-valued data"
    f = c["formula"]
    import re

    tags = [t for t in ("center", "scale", "standardize", "poly", "bs(", "cr(", "cs(", "cc(", "C(", "log", "exp") if t in f]
    if re.search(r"(center|scale|standardize)\(\s*(bs|cr|cs|cc)\(", f):
        tags.append("DICT-ARG(model: outside)")
    return ",".join(tags)[:80] or "plain"


def nontrivial(c):
    if c["kind"] == "dict":
        return len(c["cols"]) > 1
    stateful = any(t in c["formula"] for t in ("center", "scale", "standardize", "poly", "bs(", "cr(", "cs(", "cc(")) or bool(c["cat"])
    return stateful and any(fu["rows"] != c["train"] for fu in c["followups"])


# ----------------------------------------------------------------------------- implementation side


def make_pool(c):
    cols = {}
    for k, v in c["num"].items():
        cols[k] = numpy.array([fl(x) for x in v], dtype=float)
    for k, ci in c["cat"].items():
        vals = [ci["levels"][i] for i in ci["codes"]]
        if ci["declared"]:
            cols[k] = pandas.Categorical(vals, categories=ci["levels"])
        else:
            cols[k] = pandas.Series(vals, dtype=object)
    return pandas.DataFrame(cols)


def mat_obs(mm, output):
    spec = mm.model_spec
    if output == "pandas":
        names = [str(x) for x in mm.columns]
        arr = numpy.asarray(mm, dtype=float).reshape((len(mm), len(names)))
    else:
        names = [str(x) for x in spec.column_names]
        arr = mm.toarray() if hasattr(mm, "toarray") else numpy.asarray(mm)
        arr = numpy.asarray(arr, dtype=float)
        if arr.ndim != 2:
            arr = arr.reshape((arr.shape[0] if arr.ndim else 0, -1))
    return dict(names=names, rows=[[float(v) for v in r] for r in arr], shape=[int(arr.shape[0]), int(arr.shape[1])])


def _scale_state(st):
    out = {}
    for k in ("ddof", "center", "scale"):
        if k not in st:
            out[k] = "absent"
        elif st[k] is None:
            out[k] = None
        else:
            a = numpy.asarray(st[k], dtype=float)
            out[k] = float(a.item()) if a.ndim == 0 else "array"
    return out


def state_obs(st):
    """canonical form of one entry of transform_state"""
    if not isinstance(st, dict):
        return dict(kind="?")
    if "alpha" in st or "norms2" in st:
        al, n2 = st.get("alpha") or {}, st.get("norms2") or {}
        return dict(kind="poly", alpha=[float(al[k]) for k in sorted(al)], norms2=[float(n2[k]) for k in sorted(n2)])
    if "cyclic" in st:
        carr = st.get("constraints")
        return dict(kind="cs", lower=float(st["lower_bound"]), upper=float(st["upper_bound"]),
                    knots=[float(k) for k in st["knots"]], cyclic=bool(st["cyclic"]),
                    constraints=None if carr is None or isinstance(carr, str) else [[float(v) for v in r] for r in numpy.atleast_2d(carr)])
    if "knots" in st:
        return dict(kind="bs", lower=float(st["lower_bound"]), upper=float(st["upper_bound"]), knots=[float(k) for k in st["knots"]])
    if "ddof" in st or "center" in st or "scale" in st:
        return dict(kind="scale", state=_scale_state(st))
    if st and all(isinstance(v, dict) for v in st.values()):
        return dict(kind="keyed", states=[[str(k), _scale_state(v)] for k, v in st.items()])
    return dict(kind="empty") if not st else dict(kind="?")


def spec_obs(spec):
    return dict(
        structure=[
            dict(term=[f.expr for f in s.term.factors],
                 scoped=[dict(factors=[[sf.factor.expr, bool(sf.reduced)] for sf in st.factors], scale=fs(Fraction(st.scale)))
                         for st in s.scoped_terms],
                 columns=[str(x) for x in s.columns])
            for s in (spec.structure or [])
        ],
        tstate={k: state_obs(v) for k, v in spec.transform_state.items()},
        estate={k: [lab(x) for x in v[1].get("categories", [])] for k, v in spec.encoder_state.items() if "categories" in v[1]},
        output=spec.output,
    )


def _roots_of(st, out):
    if not isinstance(st, dict):
        return
    if "norms2" in st and st["norms2"]:
        with numpy.errstate(all="ignore"):
            out.extend(float(numpy.sqrt(v)) for v in st["norms2"].values())
    if "scale" in st and st["scale"] is not None:
        a = numpy.asarray(st["scale"], dtype=float)
        if a.ndim == 0:
            out.append(float(a))
    for v in st.values():
        if isinstance(v, dict) and ("scale" in v or "center" in v):
            _roots_of(v, out)


def node_params(st):
    """external-routine results for one stateful call, from its recorded state"""
    import formulaic.transforms.cubic_spline as CS

    p = dict(quant=[], F=[], Q2=[])
    if not isinstance(st, dict):
        return p
    if "cyclic" in st and "knots" in st:
        knots = numpy.array(st["knots"], dtype=float)
        p["quant"] = [ffs(k) for k in st["knots"][1:-1]]
        with numpy.errstate(all="ignore"):
            F = CS._get_cyclic_f(knots) if st["cyclic"] else CS._get_natural_f(knots)
        p["F"] = [[ffs(v) for v in row] for row in numpy.asarray(F, dtype=float)]
        carr = st.get("constraints")
        if carr is not None and not isinstance(carr, str):
            carr = numpy.atleast_2d(numpy.asarray(carr, dtype=float))
            q, _ = numpy.linalg.qr(numpy.transpose(carr), mode="complete")
            p["Q2"] = [[ffs(v) for v in colv] for colv in q[:, carr.shape[0]:].T]
    elif "knots" in st:
        p["knots_all"] = [ffs(k) for k in st["knots"]]
    return p


def walk_calls(e, out):
    if not isinstance(e, dict):
        return
    if e.get("op") == "call":
        out.append(e)
    for k in ("a", "b"):
        if k in e:
            walk_calls(e[k], out)


def exact_value(e, data):
    """Fractions of a stateless exact expression on the pool (None when it is not one)"""
    if e["op"] == "col":
        return [Fraction(v) for v in data[e["v"]]]
    if e["op"] == "binc":
        a = exact_value(e["a"], data)
        if a is None:
            return None
        c = Fraction(e["c"])
        return [{"add": x + c, "sub": x - c, "mul": x * c}[e["f"]] for x in a]
    if e["op"] == "bin":
        a, b = exact_value(e["a"], data), exact_value(e["b"], data)
        if a is None or b is None:
            return None
        return [{"add": x + y, "sub": x - y, "mul": x * y}[e["f"]] for x, y in zip(a, b)]
    return None


def elem_table(c):
    from formulaic.transforms import TRANSFORMS

    tab = []

    def rec(e):
        if not isinstance(e, dict):
            return
        if e.get("op") == "elem":
            vals = exact_value(e["a"], c["num"])
            if vals is not None:
                with numpy.errstate(all="ignore"):
                    ys = TRANSFORMS[e["fn"]](numpy.array([float(v) for v in vals], dtype=float))
                for x, y in zip(vals, ys):
                    if math.isfinite(float(y)) and Fraction(float(x)) == x:
                        tab.append([e["fn"], fs(x), ffs(y)])
        for k in ("a", "b"):
            if k in e:
                rec(e[k])

    for sem in c["atoms"].values():
        if sem.get("k") == "num":
            rec(sem["e"])
    return tab


def replay_route(route, mm, spec, df, cache):
    from formulaic import model_matrix

    if route == "spec":
        return spec.get_model_matrix(df)
    if route == "sugar":
        return model_matrix(spec, df)
    if route == "mm":
        return model_matrix(mm, df)
    if route == "pickle":
        if "spec" not in cache:
            cache["spec"] = pickle.loads(pickle.dumps(spec))
        return cache["spec"].get_model_matrix(df)
    if route == "pickle_mm":
        if "mm" not in cache:
            cache["mm"] = pickle.loads(pickle.dumps(mm))
        return cache["mm"].model_spec.get_model_matrix(df)
    raise ValueError(route)


def _tr_call(tr):
    """the real callable and keyword arguments of a scale-family transform description"""
    from formulaic.transforms import TRANSFORMS

    def arg(a):
        return a if isinstance(a, bool) else fl(a)

    return TRANSFORMS["scale"], dict(center=arg(tr["center"]), scale=arg(tr["scale"]), ddof=fl(tr["ddof"]))


def _dict_state(st):
    return [[str(k), _scale_state(v)] for k, v in st.items()]


def impl_dict(c):
    f, kw = _tr_call(c["tr"])
    data = {k: numpy.array([fl(v) for v in colv], dtype=float) for k, colv in c["cols"]}
    st = {}
    try:
        with numpy.errstate(all="ignore"):
            res = f(data, _state=st, **kw)
    except Exception as e:
        return dict(fit=dict(error=type(e).__name__, msg=str(e)[:200]))
    out = dict(fit=dict(res=[[str(k), [float(v) for v in numpy.asarray(a, dtype=float)]] for k, a in res.items()],
                        state=_dict_state(st), plain_dict=type(res) is dict))
    roots = []
    for v in st.values():
        _roots_of(v, roots)
    out["roots"] = [ffs(r) for r in roots if math.isfinite(r)]
    reps = []
    for rows in c["followups"]:
        d2 = {k: a[rows] for k, a in data.items()}
        st2 = copy.deepcopy(st)
        try:
            with numpy.errstate(all="ignore"):
                r2 = f(d2, _state=st2, **kw)
            reps.append(dict(res=[[str(k), [float(v) for v in numpy.asarray(a, dtype=float)]] for k, a in r2.items()],
                             state=_dict_state(st2)))
        except Exception as e:
            reps.append(dict(error=type(e).__name__))
    out["replays"] = reps
    return out


def impl(c):
    if c["kind"] == "dict":
        return impl_dict(c)
    from formulaic import Formula, model_matrix
    from formulaic.utils.code import format_expr

    warnings.simplefilter("ignore")
    pool = make_pool(c)
    out = {}
    # parser / normaliser parameters: the factor expression of every atom, the key of every stateful call
    exprs = {}
    for src in c["atoms"]:
        try:
            exprs[src] = list(Formula("0 + " + src))[0].factors[0].expr
        except Exception as e:
            return dict(error="atom:" + type(e).__name__, msg=str(e)[:200])
    out["exprs"] = exprs
    calls = []
    for sem in c["atoms"].values():
        if sem.get("k") == "num":
            walk_calls(sem["e"], calls)
    out["norm"] = sorted({(e["text"], format_expr(e["text"])) for e in calls})
    out["elem"] = elem_table(c)
    train = pool.iloc[c["train"]]
    try:
        out["terms"] = [[dict(x=f.expr, m=f.eval_method.value) for f in t.factors] for t in Formula(c["formula"])]
    except Exception as e:
        return dict(error="formula:" + type(e).__name__, msg=str(e)[:200])
    try:
        with numpy.errstate(all="ignore"):
            mm = model_matrix(c["formula"], train, ensure_full_rank=c["efr"], output=c["output"],
                              cluster_by="numerical_factors" if c["cluster"] else "none")
    except Exception as e:
        return dict(out, fit=dict(error=type(e).__name__, msg=str(e)[:300]))
    spec = mm.model_spec
    out["terms"] = [[dict(x=f.expr, m=f.eval_method.value) for f in t.factors] for t in spec.formula]
    fit = mat_obs(mm, c["output"])
    fit["spec"] = spec_obs(spec)
    out["fit"] = fit
    roots = []
    for st in spec.transform_state.values():
        _roots_of(st, roots)
    out["roots"] = [ffs(r) for r in roots if math.isfinite(r)]
    out["params"] = {k: node_params(st) for k, st in spec.transform_state.items()}
    before = repr(spec_obs(spec))
    dict_keys_before = sorted(spec.__dict__)
    # reference rows: the one-row frame of every pool row
    ref = []
    for i in range(c["n"]):
        try:
            with numpy.errstate(all="ignore"):
                r = mat_obs(spec.get_model_matrix(pool.iloc[[i]]), c["output"])
            ref.append(dict(names=r["names"], row=r["rows"][0] if r["rows"] else None, nrows=r["shape"][0]))
        except Exception as e:
            ref.append(dict(error=type(e).__name__))
    out["ref"] = ref
    cache = {}
    reps = []
    for fu in c["followups"]:
        df = pool.iloc[fu["rows"]]
        try:
            with numpy.errstate(all="ignore"):
                m2 = replay_route(fu["route"], mm, spec, df, cache)
            o2 = mat_obs(m2, c["output"])
            o2["spec_same"] = repr(spec_obs(m2.model_spec)) == before
            reps.append(o2)
        except Exception as e:
            reps.append(dict(error=type(e).__name__, msg=str(e)[:200]))
    out["replays"] = reps
    out["state_unchanged"] = repr(spec_obs(spec)) == before
    # which attributes of the instance survive pickling
    try:
        _ = spec.column_names, spec.column_indices, spec.term_indices
        restored = pickle.loads(pickle.dumps(spec))
        out["pickle_keys"] = dict(before=sorted(spec.__dict__), after=sorted(restored.__dict__),
                                  fields=sorted(type(spec).__dataclass_fields__))
    except Exception as e:
        out["pickle_keys"] = dict(error=type(e).__name__ + ": " + str(e)[:100])
    return out


# ----------------------------------------------------------------------------- request


def cell_json(v):
    return {"null": True} if v is None else lab(v)


def fill_params(e, o):
    """attach the external-routine results to every call node (keyed by the normalised call text)"""
    from_norm = dict(o.get("norm", []))

    def rec(x):
        if not isinstance(x, dict):
            return x
        y = dict(x)
        for k in ("a", "b"):
            if k in y:
                y[k] = rec(y[k])
        if y.get("op") == "call":
            key = from_norm.get(y["text"], y["text"])
            p = dict(o.get("params", {}).get(key) or dict(quant=[], F=[], Q2=[]))
            if "knots_all" in p:
                d = y["tr"].get("degree", 3)
                ka = p.pop("knots_all")
                p["quant"] = ka[d + 1: len(ka) - d - 1]
            y["params"] = p
        return y

    return rec(e)


def request(c, o):
    if c["kind"] == "dict":
        return dict(op="dict", tr=c["tr"], roots=o.get("roots", []),
                    cols=[[dict(t=str(k), s=isinstance(k, str)), colv] for k, colv in c["cols"]],
                    followups=c["followups"])
    if "harness_exception" in o or "error" in o or "terms" not in o:
        return dict(op="noop", columns=[], pool=[], train=[], followups=[], terms=[], factors=[], norm=[], elem=[], roots=[])
    columns = list(c["num"]) + list(c["cat"])
    pool = []
    for i in range(c["n"]):
        row = [c["num"][k][i] for k in c["num"]]
        for k, ci in c["cat"].items():
            row.append(cell_json(ci["levels"][ci["codes"][i]]))
        pool.append(row)
    by_expr = {}
    for src, sem in c["atoms"].items():
        s = dict(sem)
        if s.get("k") == "num":
            s["e"] = fill_params(s["e"], o)
        by_expr[o["exprs"][src]] = s
    factors = []
    for t in o["terms"]:
        for f in t:
            if f["m"] == "literal":
                by_expr.setdefault(f["x"], dict(k="lit", v=fs(Fraction(f["x"]))))
    for expr, sem in by_expr.items():
        factors.append(dict(expr=expr, sem=sem))
    return dict(
        op="replay", columns=columns, pool=pool, train=c["train"],
        declared=[[k, [lab(x) for x in ci["levels"]]] for k, ci in c["cat"].items() if ci["declared"]],
        followups=[dict(rows=fu["rows"], pickle=fu["route"].startswith("pickle")) for fu in c["followups"]],
        terms=[[f["x"] for f in t] for t in o["terms"]],
        factors=factors, norm=[list(p) for p in o.get("norm", [])], elem=o.get("elem", []), roots=o.get("roots", []),
        efr=c["efr"], output=c["output"], cluster=c["cluster"],
    )


# ----------------------------------------------------------------------------- model vs implementation


def _skip(err):
    return isinstance(err, str) and (err.startswith("not-modelled") or err == "nonfinite")


def _cmp_matrix(io, mo, what):
    mn = [e["name"] for e in mo["columns"]]
    if io["names"] != mn:
        return f"{what}: column names {io['names']} vs model {mn}"
    ncols = len(mn)
    for j, e in enumerate(mo["columns"]):
        if len(e["values"]) != io["shape"][0]:
            return f"{what}: column {e['name']} has {io['shape'][0]} rows vs model {len(e['values'])}"
        for i, v in enumerate(e["values"]):
            a = io["rows"][i][j]
            if not (isinstance(a, float) and math.isfinite(a)) or not close(a, fl(v)):
                return f"{what}: [{i}, {e['name']}] = {a!r} vs model {fl(v)!r}"
    if io["shape"][1] != ncols:
        return f"{what}: {io['shape'][1]} columns vs model {ncols}"
    return None


def _cmp_scale_state(a, b, what):
    for k in ("ddof", "center", "scale"):
        u, v = a.get(k), b.get(k)
        if isinstance(u, str) or isinstance(v, str) and v == "absent":
            if u != v:
                return f"{what}[{k}]: {u!r} vs model {v!r}"
            continue
        if (u is None) != (v is None):
            return f"{what}[{k}]: {u!r} vs model {v!r}"
        if u is not None and not close(float(u), fl(v)):
            return f"{what}[{k}]: {u!r} vs model {fl(v)!r}"
    return None


def _cmp_list(a, b, what):
    if len(a) != len(b):
        return f"{what}: length {len(a)} vs model {len(b)}"
    for i, (u, v) in enumerate(zip(a, b)):
        if not close(float(u), fl(v)):
            return f"{what}[{i}]: {u!r} vs model {fl(v)!r}"
    return None


def _cmp_spec(isp, msp, what):
    ms = [dict(term=s["term"], scoped=[dict(factors=st["factors"], scale=fs(Fraction(st["scale"]))) for st in s["scoped"]],
               columns=s["columns"]) for s in (msp["structure"] or [])]
    if ms != isp["structure"]:
        return f"{what}: structure differs: model {ms} vs impl {isp['structure']}"
    mt = {k: v for k, v in msp["tstate"]}
    if sorted(mt) != sorted(isp["tstate"]):
        return f"{what}: transform_state keys {sorted(isp['tstate'])} vs model {sorted(mt)}"
    for k, a in isp["tstate"].items():
        b = mt[k]
        if a["kind"] == "empty":
            continue  # a transform that records nothing (poly raw): `{}`
        if a["kind"] != b["kind"]:
            return f"{what}: state of {k} is {a['kind']} vs model {b['kind']}"
        if a["kind"] == "scale":
            w = _cmp_scale_state(a["state"], b["state"], f"{what}: state[{k}]")
        elif a["kind"] == "keyed":
            w = None
            if [x[0] for x in a["states"]] != [x[0] for x in b["states"]]:
                w = f"{what}: nested keys of {k}: {[x[0] for x in a['states']]} vs model {[x[0] for x in b['states']]}"
            for x, y in zip(a["states"], b["states"]):
                w = w or _cmp_scale_state(x[1], y[1], f"{what}: state[{k}][{x[0]}]")
        elif a["kind"] == "poly":
            w = _cmp_list(a["alpha"], b["alpha"] or [], f"{what}: state[{k}].alpha") or \
                _cmp_list(a["norms2"], b["norms2"] or [], f"{what}: state[{k}].norms2")
        else:
            w = None
            for kk in ("lower", "upper"):
                if not close(a[kk], fl(b[kk])):
                    w = f"{what}: state[{k}].{kk}: {a[kk]} vs model {fl(b[kk])}"
            w = w or _cmp_list(a["knots"], b["knots"], f"{what}: state[{k}].knots")
            if a["kind"] == "cs":
                if (a["constraints"] is None) != (b["constraints"] is None):
                    w = w or f"{what}: state[{k}].constraints present on one side only"
                elif a["constraints"] is not None:
                    for r1, r2 in zip(a["constraints"], b["constraints"]):
                        w = w or _cmp_list(r1, r2, f"{what}: state[{k}].constraints")
        if w:
            return w
    me = {k: v for k, v in msp["estate"]}
    if me != isp["estate"]:
        return f"{what}: encoder categories {isp['estate']} vs model {me}"
    return None


def _cmp_dict_result(a, b, what, visible_only=False):
    if [x[0] for x in a["res"]] != [x[0]["t"] for x in b["res"]]:
        return f"{what}: result keys {[x[0] for x in a['res']]} vs model {[x[0]['t'] for x in b['res']]}"
    for (k, u), (_, v) in zip(a["res"], b["res"]):
        w = _cmp_list(u, v, f"{what}: result[{k}]")
        if w:
            return w
    if [x[0] for x in a["state"]] != [x[0]["t"] for x in b["state"]]:
        return f"{what}: state keys {[x[0] for x in a['state']]} vs model {[x[0]['t'] for x in b['state']]}"
    for (k, u), (_, v) in zip(a["state"], b["state"]):
        w = _cmp_scale_state(u, v, f"{what}: state[{k}]")
        if w:
            return w
    return None


def agree_dict(c, o, m):
    of, mf = o.get("fit", {}), m.get("fit", {})
    if "error" in mf and _skip(mf["error"]):
        return None
    if "error" in of or "error" in mf:
        return None if of.get("error") == mf.get("error") else f"fit: implementation {of.get('error', 'ok')} vs model {mf.get('error', 'ok')}"
    if any(not math.isfinite(v) for _, colv in of["res"] for v in colv):
        return None  # zero variance: nan, outside the model
    w = _cmp_dict_result(of, mf, "fit")
    if w:
        return w
    for i, (io, mo) in enumerate(zip(o["replays"], m["replays"])):
        if "error" in mo and _skip(mo["error"]):
            continue
        if "error" in io or "error" in mo:
            if io.get("error") != mo.get("error"):
                return f"follow-up {i}: implementation {io.get('error', 'ok')} vs model {mo.get('error', 'ok')}"
            continue
        w = _cmp_dict_result(io, mo, f"follow-up {i}")
        if w:
            return w
    return None


def agree(c, o, m):
    if "driver_error" in m:
        return "driver: " + m["driver_error"][:300]
    if "harness_exception" in o or "error" in o:
        return None  # reported by the oracle
    if c["kind"] == "dict":
        return agree_dict(c, o, m)
    mf, of = m.get("fit"), o.get("fit")
    if mf is None:
        return "model returned no fit: " + str(m)[:200]
    if "error" in mf and _skip(mf["error"]):
        return None
    if "error" in of:
        return None  # nothing was fitted, nothing to replay (what a fit raises is C02/C12/C13's business)
    if "error" in of or "error" in mf:
        if of.get("error") == mf.get("error"):
            return None
        return f"fit: implementation {of.get('error', 'ok')} ({of.get('msg', '')[:120]}) vs model {mf.get('error', 'ok')}"
    w = _cmp_matrix(of, mf, "fit") or _cmp_spec(of["spec"], mf["spec"], "fit")
    if w:
        return w
    if mf["spec"]["column_names"] != [n for s in of["spec"]["structure"] for n in s["columns"]]:
        return "fit: model column_names differ from the implementation's structure"
    for i, (fu, io, mo) in enumerate(zip(c["followups"], o["replays"], m["replays"])):
        what = f"follow-up {i} ({fu['route']}, rows {fu['rows']})"
        if "error" in mo and _skip(mo["error"]):
            continue
        if "error" in io or "error" in mo:
            if io.get("error") != mo.get("error"):
                return f"{what}: implementation {io.get('error', 'ok')} ({io.get('msg', '')[:100]}) vs model {mo.get('error', 'ok')}"
            continue
        w = _cmp_matrix(io, mo, what) or _cmp_spec(of["spec"], mo["spec"], what + " spec afterwards")
        if w:
            return w
    # pickling: the model's notion of surviving keys against the real instance dictionaries
    pk = o.get("pickle_keys") or {}
    if "error" not in pk and pk:
        if pk["after"] != pk["fields"]:
            return f"pickle: restored __dict__ keys {pk['after']} differ from the dataclass fields {pk['fields']}"
        if sorted(m.get("field_names", pk["fields"])) != pk["fields"]:
            return f"pickle: model field names {m.get('field_names')} vs dataclass fields {pk['fields']}"
    return None


# ----------------------------------------------------------------------------- oracle (implementation only)


def _rows_close(a, b):
    if a is None or b is None or len(a) != len(b):
        return False
    for u, v in zip(a, b):
        if not (math.isfinite(u) and math.isfinite(v)) or abs(u - v) > ORACLE_TOL * max(1.0, abs(u), abs(v)):
            return False
    return True


def _raise_mode_possible(c):
    """a follow-up may legitimately raise: bs/cr with extrapolation='raise' and a value outside the training range"""
    f = c["formula"]
    if "extrapolation='raise'" in f:
        return True
    import re

    for m in re.finditer(r"bs\(([^()]|\([^()]*\))*\)", f):
        if "extrapolation" not in m.group(0):
            return True
    return False


def oracle_dict(c, o):
    fit = o.get("fit", {})
    if "error" in fit:
        return f"a scale-family transform raised {fit['error']} on dict-valued data: {fit.get('msg', '')[:100]}"
    if any(not math.isfinite(v) for _, colv in fit["res"] for v in colv):
        return None
    keys = [str(k) for k, _ in c["cols"]]
    if [k for k, _ in fit["res"]] != keys:
        return f"result keys {[k for k, _ in fit['res']]} differ from the data keys {keys}"
    visible = [k for k in keys if not k.startswith("__")]
    if [k for k, _ in fit["state"]] != visible:
        return f"nested state keys {[k for k, _ in fit['state']]}, expected one state per visible key {visible}"
    base = dict(fit["res"])
    for i, (rows, rp) in enumerate(zip(c["followups"], o["replays"])):
        if "error" in rp:
            return f"follow-up {i} on rows {rows} raised {rp['error']}"
        if rp["state"] != fit["state"]:
            return f"follow-up {i}: the recorded per-key state changed"
        for k, colv in rp["res"]:
            want = [base[k][r] for r in rows]
            if not _rows_close(colv, want):
                return f"follow-up {i} on rows {rows}: column {k} is {colv}, the fitted rows are {want}"
    return None


def oracle(c, o):
    if "harness_exception" in o:
        return "harness could not run the implementation: " + o["harness_exception"]
    if c["kind"] == "dict":
        return oracle_dict(c, o)
    if "error" in o:
        return None  # an atom the parser rejects: not a case
    fit = o["fit"]
    if "error" in fit:
        return None  # fitting is C02/C12/C13's business; nothing to replay
    if any(not math.isfinite(v) for r in fit["rows"] for v in r):
        return None  # NaN in the training matrix (degenerate statistics): outside the property's domain
    names = fit["names"]
    train = c["train"]
    if fit["shape"][0] != len(train):
        return None  # rows were dropped at fit time (nulls): C06
    may_raise = _raise_mode_possible(c)
    ref = o["ref"]
    # reference rows: one-row frames; for training rows they must be the fitted rows
    expected = {}
    for k, i in enumerate(train):
        expected.setdefault(i, fit["rows"][k])
    for i, r in enumerate(ref):
        if "error" in r:
            if i in expected or not may_raise:
                return f"the one-row frame of pool row {i} raised {r['error']}" + (" although it is a training row" if i in expected else "")
            continue
        if r["names"] != names:
            return f"one-row frame of pool row {i}: column names {r['names']} differ from the fitted {names}"
        if r["nrows"] != 1:
            return f"one-row frame of pool row {i} gave {r['nrows']} rows"
        if i in expected:
            if not _rows_close(r["row"], expected[i]):
                return (f"pool row {i} is a training row: its one-row replay {r['row']} differs from its row in the "
                        f"fitted matrix {expected[i]}")
        else:
            expected[i] = r["row"]
    for k, (fu, rp) in enumerate(zip(c["followups"], o["replays"])):
        what = f"follow-up {k} via {fu['route']} on pool rows {fu['rows']}"
        blocked = [i for i in fu["rows"] if "error" in ref[i]]
        if "error" in rp:
            if blocked and may_raise:
                continue
            return f"{what} raised {rp['error']}: {rp.get('msg', '')[:120]}"
        if blocked:
            continue  # a row whose one-row frame raises (extrapolation='raise'): nothing is claimed
        if rp["names"] != names:
            return f"{what}: column names {rp['names']} differ from the fitted {names}"
        if rp["shape"][0] != len(fu["rows"]):
            return f"{what}: {rp['shape'][0]} rows for {len(fu['rows'])} input rows"
        for j, i in enumerate(fu["rows"]):
            if not _rows_close(rp["rows"][j], expected[i]):
                src = "its row in the fitted matrix" if i in train else "the output of its one-row frame"
                return (f"{what}: output row {j} (pool row {i}) is {rp['rows'][j]} but {src} is {expected[i]}"
                        + (" [replay of the training data does not reproduce the matrix]" if fu["rows"] == train else ""))
        if not rp.get("spec_same", True):
            return f"{what}: the spec attached to the result differs from the fitted spec"
    if not o.get("state_unchanged", True):
        return "the recorded state of the spec changed during the follow-ups"
    pk = o.get("pickle_keys") or {}
    if "error" in pk:
        return "pickling the spec failed: " + pk["error"]
    return None


def classify(c, o, why):
    return None


LEVEL_TEXT = (
    "Proof: Lean theorems (Props/C04.lean) about the executable model of the state-first protocol of stateful "
    "transforms (center/scale/standardize, poly, bs, cr/cc, categorical encoding with recorded levels; the laws are "
    "derived from the C13/C12/C11 models), the decorator's nested state for dict-valued data, stateful_eval's keying "
    "of state by normalised call text, and of get_model_matrix on a ModelSpec (factor evaluation, the spec.structure "
    "branch of _build_model_matrix with rehydration and _enforce_structure on top of C02's column model): for ALL "
    "formulas over these transforms, all frames and all index lists, a replay of any selection of rows is the same "
    "selection of the replay's rows (so each row depends on its input row and the recorded state only), column names "
    "are the recorded ones, a replay on the training frame reproduces the fitted matrix and leaves the spec unchanged "
    "(so any sequence of follow-ups behaves like independent replays), and __getstate__ keeps exactly the dataclass "
    "fields, on which alone a replay depends. The model is tied to the code by a differential correspondence on every run."
)
LEVEL_NOTE = (
    "Partial: the pickle byte stream / wrapt proxies are exercised (real pickle round trips in the correspondence), not "
    "modelled; numpy routines enter as deterministic parameters; float rounding not modelled (1e-9); missing values and "
    "`lag` are outside (C06 / excluded)."
)
