"""C04 — A model spec replays the recorded encoding row by row on any data.

Correspondence stream `c04`: the real `model_matrix(formula, train)` followed by a SEQUENCE of
follow-up materialisations of the attached spec (`spec.get_model_matrix(df)`, `model_matrix(spec, df)`,
`model_matrix(mm, df)`, a pickled-and-restored spec, the spec of a pickled-and-restored matrix) against
`Model.Replay.materialize` (fit on the training rows, then the fitted spec — also through
`getstate`/`restore` — on every follow-up).  Training data and follow-ups are selections of rows
(subsets, duplications, permutations, single rows, rows whose levels are absent elsewhere) of one
common POOL, so the expected output row of every follow-up row is known.

Parameters of the model (CPython / numpy side, taken from the implementation per case): what each factor
expression computes (the harness generates the formula from atoms whose meaning it knows), the normal form
of every stateful call text (`format_expr`), `numpy.sqrt` (recorded scales / sqrt(norms2)), quantile knots
(read from the recorded state), the matrices F (`_get_natural_f/_get_cyclic_f` on the recorded knots) and
Q2 (`numpy.linalg.qr` of the recorded constraints), values of the elementwise functions at the pool values.
Values are compared with tolerance 1e-9*max(1,|v|) (the model computes in exact rationals).

Further streams: `index` (row labels: non-default pandas index, terms of several single-column factors), `session`
(two specs, ONE materializer object, a history of calls some of which raise: `Mat.run`), `dict` / `sparse` (the
decorator called directly), and follow-ups outside the property's domain (other output type, missing column, column
of the other kind, hand-edited recorded categories) that are compared with the model only.

Oracle (implementation only, metamorphic): replay on the training data equals the matrix; names and order
identical on every follow-up; every follow-up row equals the output of the one-row frame of the same pool row
(and the fitted matrix row when the pool row is a training row); pickled specs give the same; nothing raises
on in-domain data; the recorded state does not change.
"""
from __future__ import annotations

import copy
import math
import pickle
import warnings
from fractions import Fraction

import numpy
import pandas

PROPERTY = "C04"
ENGINE = "c04"
REQUIRED_THEOREMS = [
    "apply_after_fit",
    "apply_rowwise",
    "select_of_rowwise",
    "scale_lawful",
    "poly_lawful",
    "bs_lawful",
    "cs_lawful",
    "cat_lawful",
    "cat_select",
    "callDict_lawful",
    "callCols_lawful",
    "wrapper_replays",
    "wrapper_fit_then_replay",
    "state_key_normalised",
    "fit_ready",
    "replay_reproduces",
    "replay_names",
    "replay_names_nodup",
    "replay_select",
    "replay_rowwise",
    "replay_state_unchanged",
    "pickle_fields",
    "evalFactors_through_cache",
    "materializer_call_is_pure",
    "materializer_history",
    "call_binding",
    "center_delegates",
    "live_signatures",
    "structured_parts_ready",
]
TRUSTED = [
    "parameters of the model, taken from the implementation per case and not verified: the meaning of each factor "
    "expression (CPython eval of the atoms the generator emits), ast.parse/ast.unparse (normal form of a stateful call "
    "text), numpy.sqrt, numpy.nanquantile/nanpercentile, scipy solve_banded / numpy.linalg.solve (F), numpy.linalg.qr "
    "(Q2), numpy log/exp; each is a FUNCTION in the model (same input, same output), i.e. determinism of these "
    "routines is assumed",
    "pickle's byte stream, wrapt proxies and dataclass unpickling are not modelled: the model of __getstate__ works on "
    "the LIVE instance __dict__ keys reported per case (which keys survive; compared with the real __getstate__, "
    "pickle.loads(dumps), copy.copy and copy.deepcopy), the round trips through real pickle/copy are exercised by the "
    "correspondence",
    "float rounding is not modelled; agreement at 1e-9*max(1,|v|), or 1e-16 of the largest entry of the column (cancellation dust in products with large factors)",
    "missing values (NaN rows, extrapolation='na', null categories, na_action) are property C06 and outside this model; "
    "`lag` is excluded by the property",
    "the set `factors` of get_model_matrix is iterated in hash order; the model evaluates factors in formula order "
    "(the recorded state does not depend on the order: every key is fitted once, on the same data; when several factors "
    "fail on out-of-domain data the order decides between FactorEvaluationError and FactorEncodingError, which agree() "
    "does not distinguish for such follow-ups)",
    "the statistics of a scale-family call on a 2-D array (numpy arrays in the recorded state; a 0-d value applies to "
    "every column) are kept column by column in the model (TState.arr); recorded arrays whose length is not the width "
    "of the data (numpy broadcasting) are outside the model",
    "get_model_matrix on a ModelSpecs is modelled part by part under the pooled transform state (materializeParts: the "
    "pool is built by materialising the parts in order; the code evaluates the union of the factors once); contr.poly "
    "(orthonormal polynomial coding) has no semantics in this model: such cases are checked by the oracle only; the "
    "dtype of a categorical column at replay (declared order, ordered flag) is not an input of the model",
    "pandas row labels are not part of the model (a frame is a list of rows): outputs are compared by position, so any "
    "influence of labels on values is a disagreement",
    "C(A, levels=[…]): the nominated levels are modelled as categories declared for the column (in the code they also "
    "override recorded categories; a fit records exactly these levels, so both coincide on every fitted spec)",
    "`hashed(v, levels=L)` is modelled as the categorical (treatment) coding, over the nominated levels 0..L-1, of the column "
    "of per-cell buckets; md5 and the text of a cell (`str` of the cell's own value) are parameters computed by the harness "
    "cell by cell, independently of the library; the levels live in the encoder's closure, not in encoder_state (the model's "
    "entry for such a factor is not compared); cases with null cells, and hashed factors that do not span the intercept under "
    "ensure_full_rank, are outside the model (oracle only); the storage dtype / container of a column is not an input of the model",
    "bs/cr/cc/poly of a dict-valued or 2-D argument (dict of dicts, dict of arrays), sympy/polars paths, back-quoted "
    "variable names inside stateful calls (aliases of sanitize_variable_names) are outside the model",
]
ASSUMPTIONS = [
    "replay_select / replay_rowwise / replay_state_unchanged assume Ready env spec (every stateful call of every factor "
    "finds a recorded state that is ready for the shape of its argument — all three statistics for the scale family, a "
    "state recorded by some fit for poly, a complete entry for every visible key of a dict-valued argument, one "
    "complete state per column of a 2-D argument; the shape is computed from the recorded states alone — and every "
    "categorical factor finds its recorded levels) and a non-empty recorded structure; fit_ready proves both for every "
    "spec attached to a fitted matrix, and replay_reproduces has no such hypothesis",
    "a replay may raise instead (bs/cr with extrapolation='raise' on a row outside the recorded bounds): the theorems "
    "speak about replays that succeed and show that success on a frame implies success on every selection of its rows",
    "materializer_call_is_pure / materializer_history model the materializer object by its factor_cache (the encoded "
    "and encoder-state caches are keyed by the same factor expressions); with DataMismatchWarning promoted to an error "
    "the outcome is that error or the pure result",
]
RULE = (
    "pool of 4-12 rows (numeric columns over small integers / dyadics, a positive column, 1-2 categorical columns "
    "with 2-4 levels as object dtype or declared Categorical incl. unused levels, string or int labels; 30%: pandas "
    "index shuffled / offset / strings / duplicated / negative / float); training = random selection of pool rows "
    "(80%: contains the extremes of every numeric column); formula of 1-4 terms, each an interaction of 1-3 atoms: "
    "plain columns, I()/{} arithmetic, log/exp/np.log, center/scale/standardize (arguments incl. given center / scale "
    "values, odd spacing), poly (degrees 1-3, raw), bs (df / knots / degree / include_intercept / clip, zero, extend, "
    "raise), cr/cs/cc (df / constraints='center'), nested calls (center(bs()), scale(cr()), scale(poly()) — nested "
    "per-key / per-column state —, a mapped call of a mapped call, I() around them, poly(center()), center(center()), "
    "repeated identical calls inside one factor), C(A, contr.*), C(A, levels=[…]), literals; x ensure_full_rank x output "
    "pandas/numpy/sparse/default x cluster_by; then 3-7 follow-ups (subset, duplication, permutation, single row, whole "
    "pool, training rows again) through 12 routes (spec, model_matrix(spec|mm), pickle of spec / matrix, copy / deepcopy "
    "of spec / matrix, attr overrides), plus 0-2 follow-ups outside the domain (other / unregistered output type, "
    "missing column, column of the other kind, hand-edited recorded categories: model only). Stream `index`: terms of "
    "several single-column factors (two-level categorical x raw columns, A*x, A:x:y, C(A):x, x:y, A:center(x)) under "
    "non-default row labels, follow-ups by .iloc incl. the complement of the training rows. Stream `session`: two specs "
    "with shared factor expressions fitted on two folds, ONE materializer object, 2-4 calls of which some raise (bs "
    "out of range, unseen level with warnings as errors, missing column), each compared with the call on a new object. "
    "Stream `parts`: STRUCTURED formulas (`lhs ~ a | b`, 1-3 right-hand parts, stateful left-hand sides) whose factors "
    "contain NESTED stateful calls (bs(center(x)), poly(scale(x)), cr(center(y)), I(center(x) * 2), I(scale(x) + scale(y)), "
    "exp(center(x)), scale(bs(x))), fitted jointly, replayed on other rows through the joint ModelSpecs, one part's spec "
    "alone, pickled copies; oracle: every part's transform_state has an entry for every stateful call found in the syntax "
    "tree of its factor expressions, and every part replays row by row. Stream `dtype` (+35% of ordinary follow-ups): the "
    "same cell values with the categorical columns stored as a Categorical over the recorded levels DECLARED in another "
    "order (sorted by astype('category'), reversed, rotated, ordered) or as text, for every coding incl. contr.poly and "
    "interactions; oracle: equal to the dtype-blind twin (columns given as plain text) and to the expected rows. "
    "Streams `dict` / `sparse`: the decorator called directly on dicts of columns / scipy.sparse matrices. "
    "Stream `cells`: `hashed(v, levels=2..9[, spans_intercept=True])` (alone, `:x`, next to center / scale / standardize / "
    "poly / bs / cr / C(a)) over a column stored as int64 / int32 / Int64 / Int32 / UInt8 (pandas masked) / int64[pyarrow] / "
    "float64 / text, nulls in 60% of the nullable storages, in a pandas frame or a pyarrow table, fitted on all 4-9 rows, "
    "replayed (spec / pickle / sugar / mm / deepcopy) on the EMPTY subset, one-row subsets, the null-free rows, the null rows, "
    "mixed subsets, duplications, permutations; oracle: every row replayed alone equals its row of the fitted matrix and every "
    "follow-up is the concatenation of the rows of its subset (0 rows for the empty one); cc() is left out (C12). "
    "non-trivial = a stateful transform or a categorical factor and at least one follow-up that is not the training "
    "frame (session: both specs called); distinct by canonical JSON"
)
TOL = 1e-9
ORACLE_TOL = 1e-11

# ----------------------------------------------------------------------------- helpers


def fs(q) -> str:
    q = Fraction(q)
    return f"{q.numerator}/{q.denominator}"


def ffs(v) -> str:
    v = float(v)
    return "0/1" if not math.isfinite(v) else fs(Fraction(v))


def fl(s) -> float:
    return float(Fraction(s))


def close(a, b, tol=TOL):
    return abs(a - b) <= tol * max(1.0, abs(a), abs(b))


# ----------------------------------------------------------------------------- expression atoms (source + meaning)

def col(v):
    return {"op": "col", "v": v}


def binc(f, a, c):
    return {"op": "binc", "f": f, "a": a, "c": fs(c)}


def bin_(f, a, b):
    return {"op": "bin", "f": f, "a": a, "b": b}


def elem(fn, a):
    return {"op": "elem", "fn": fn, "a": a}


def call(text, tr, a, fn=None, pos=(), kw=None):
    """a stateful call node.  `fn`, `pos`, `kw`: the call AS WRITTEN (function name, positional and keyword arguments
    after the data argument) — the model binds them against the live signature table (Gen/StatefulTable.lean) and
    derives the transform description itself; `tr` (the generator's own resolution) is only used by the streams that
    call a transform directly."""
    d = {"op": "call", "text": text, "tr": tr, "a": a}
    if fn is not None:
        d.update(fn=fn, pos=[pylit(v) for v in pos], kw=[[k, pylit(v)] for k, v in (kw or {}).items()])
    return d


def pylit(v):
    if v is None:
        return None
    if isinstance(v, bool):
        return v
    if isinstance(v, str):
        return {"s": v}
    return fs(Fraction(v))


def sp(rng):
    """random insignificant spacing (exercises the normalisation of the call text)"""
    return rng.choice(["", "", "", " "])


def gen_exact(rng, nums, depth=0):
    """stateless numeric expression with an exactly representable value: (src, expr)"""
    v = rng.choice(nums)
    r = rng.random()
    if r < 0.5 or depth > 0:
        return v, col(v)
    if r < 0.7:
        c = rng.choice([1, 2, 3, -1])
        return f"({v} + {c})", binc("add", col(v), c)
    if r < 0.85:
        c = rng.choice([2, 4, -2])
        return f"({v} * {c})", binc("mul", col(v), c)
    w = rng.choice(nums)
    op, sym = rng.choice([("add", "+"), ("sub", "-"), ("mul", "*")])
    if w == v and op == "sub":
        op, sym = "add", "+"  # `x - x` is a constant column: degenerate for every transform
    return f"({v} {sym} {w})", bin_(op, col(v), col(w))


def strip_par(s):
    return s[1:-1] if s.startswith("(") and s.endswith(")") else s


def gen_scale_call(rng, inner_src, inner):
    """a scale-family call around `inner`"""
    s1, s2 = sp(rng), sp(rng)
    arg = strip_par(inner_src)
    k = rng.random()
    if k < 0.35:
        return (f"center({s1}{arg}{s2})",
                call(None, dict(kind="scale", center=True, scale=False, ddof="1/1"), inner, fn="center"))
    if k < 0.55:
        return (f"scale({s1}{arg}{s2})",
                call(None, dict(kind="scale", center=True, scale=True, ddof="1/1"), inner, fn="scale"))
    if k < 0.65:
        return (f"scale({arg},{s1}ddof=0)",
                call(None, dict(kind="scale", center=True, scale=True, ddof="0/1"), inner, fn="scale", kw=dict(ddof=0)))
    if k < 0.70:
        return (f"scale({arg}, center=False)",
                call(None, dict(kind="scale", center=False, scale=True, ddof="1/1"), inner, fn="scale", kw=dict(center=False)))
    if k < 0.75:  # positional arguments
        return (f"scale({arg}, False, True, 0)",
                call(None, dict(kind="scale", center=False, scale=True, ddof="0/1"), inner, fn="scale", pos=(False, True, 0)))
    if k < 0.82:
        c = rng.choice([1, 2, Fraction(1, 2)])
        return (f"scale({arg}, center={float(c)!r}, scale=False)",
                call(None, dict(kind="scale", center=fs(c), scale=False, ddof="1/1"), inner, fn="scale",
                     kw=dict(center=c, scale=False)))
    if k < 0.88:  # a given scale (`numpy.array(scale)`), with or without centring
        d = rng.choice([2, 4, Fraction(1, 2)])
        cen = rng.random() < 0.5
        return (f"scale({arg}, center={cen}, scale={float(d)!r})",
                call(None, dict(kind="scale", center=cen, scale=fs(d), ddof="1/1"), inner, fn="scale",
                     kw=dict(center=cen, scale=d)))
    if k < 0.94:
        return (f"standardize({s1}{arg})",
                call(None, dict(kind="scale", center=True, scale=True, ddof="0/1"), inner, fn="standardize"))
    return (f"standardize({arg}, rescale=False, ddof=1)",
            call(None, dict(kind="scale", center=True, scale=False, ddof="1/1"), inner, fn="standardize",
                 kw=dict(rescale=False, ddof=1)))


def gen_poly_call(rng, inner_src, inner):
    arg = strip_par(inner_src)
    d = rng.choice([1, 2, 2, 3])
    if rng.random() < 0.15:
        return (f"poly({arg}, {d}, raw=True)",
                call(None, dict(kind="poly", degree=d, raw=True), inner, fn="poly", pos=(d,), kw=dict(raw=True)))
    if rng.random() < 0.3:
        return (f"poly({arg}, degree={d})",
                call(None, dict(kind="poly", degree=d, raw=False), inner, fn="poly", kw=dict(degree=d)))
    if d == 1 and rng.random() < 0.5:
        return f"poly({arg})", call(None, dict(kind="poly", degree=1, raw=False), inner, fn="poly")
    return f"poly({arg},{sp(rng)}{d})", call(None, dict(kind="poly", degree=d, raw=False), inner, fn="poly", pos=(d,))


def gen_bs_call(rng, inner_src, inner):
    arg = strip_par(inner_src)
    degree = rng.choice([1, 2, 3, 3])
    intercept = rng.random() < 0.3
    mode = rng.choice(["raise", "raise", "clip", "zero", "extend"])
    tr = dict(kind="bs", df=None, knots=None, degree=degree, intercept=intercept, lower=None, upper=None, mode=mode)
    args = []
    kw = {}
    if rng.random() < 0.8:
        tr["df"] = degree + (1 if intercept else 0) + rng.choice([0, 1, 1, 2])
        args.append(f"df={tr['df']}")
        kw["df"] = tr["df"]
    if degree != 3:
        args.append(f"degree={degree}")
        kw["degree"] = degree
    if intercept:
        args.append("include_intercept=True")
        kw["include_intercept"] = True
    if mode != "raise":
        args.append(f"extrapolation='{mode}'")
        kw["extrapolation"] = mode
    src = f"bs({arg}" + "".join(", " + a for a in args) + ")"
    return src, call(None, tr, inner, fn="bs", kw=kw)


def gen_cs_call(rng, inner_src, inner):
    arg = strip_par(inner_src)
    fn = rng.choice(["cr", "cr", "cs", "cc"])
    cyclic = fn == "cc"
    cons = "center" if rng.random() < 0.3 else None
    mode = rng.choice(["extend", "extend", "clip", "zero", "raise"])
    df = rng.choice([2, 3, 3, 4]) if not cyclic else rng.choice([2, 3, 3])
    tr = dict(kind="cs", df=df, knots=None, lower=None, upper=None, constraints=cons, cyclic=cyclic, mode=mode)
    args = [f"df={df}"]
    kw = dict(df=df)
    if cons:
        args.append("constraints='center'")
        kw["constraints"] = "center"
    if mode != "extend":
        args.append(f"extrapolation='{mode}'")
        kw["extrapolation"] = mode
    return f"{fn}({arg}, " + ", ".join(args) + ")", call(None, tr, inner, fn=fn, kw=kw)


def set_text(src, e):
    e["text"] = src
    return src, e


def gen_numeric_atom(rng, nums, pos):
    """(factor source as written in the formula, expr)"""
    r = rng.random()
    if r < 0.12:
        v = rng.choice(nums)
        return v, col(v)
    if r < 0.2:
        s, e = gen_exact(rng, nums)
        if e["op"] == "col":
            return s, e
        return rng.choice([f"I{s}", "{" + strip_par(s) + "}"]), e
    if r < 0.3:
        fn = rng.choice(["log", "log", "exp", "np.log", "log2", "exp2"])
        if fn in ("log", "np.log", "log2"):
            inner_s, inner = (pos, col(pos)) if rng.random() < 0.7 else (f"({pos} + 1)", binc("add", col(pos), 1))
        else:
            v = rng.choice(nums)
            inner_s, inner = f"({v} / 8)" if False else (v, col(v))
        return f"{fn}({strip_par(inner_s)})", elem(fn.replace("np.", ""), inner)
    if r < 0.52:
        return set_text(*gen_scale_call(rng, *gen_exact(rng, nums)))
    if r < 0.62:
        return set_text(*gen_poly_call(rng, *gen_exact(rng, nums)))
    if r < 0.74:
        return set_text(*gen_bs_call(rng, *gen_exact(rng, nums)))
    if r < 0.84:
        return set_text(*gen_cs_call(rng, *gen_exact(rng, nums)))
    # nested
    k = rng.random()
    if k < 0.12:  # scale family over an elementwise function
        inner_s, inner = f"log({pos})", elem("log", col(pos))
        return set_text(*gen_scale_call(rng, inner_s, inner))
    if k < 0.52:
        # scale family over a multi-column value: a spline (a dict: the decorator maps over the keys, nested per-key
        # state) or a polynomial basis (a 2-D array: numpy statistics along axis 0, arrays in the state); sometimes
        # twice (the mapped call returns a plain dict / array again), sometimes wrapped in I()
        r2 = rng.random()
        g = gen_poly_call if r2 < 0.3 else rng.choice([gen_bs_call, gen_cs_call])
        inner_s, inner = set_text(*g(rng, *gen_exact(rng, nums, 1)))
        src, e = set_text(*gen_scale_call(rng, inner_s, inner))
        if rng.random() < 0.2:
            src, e = set_text(*gen_scale_call(rng, src, e))
        if rng.random() < 0.15:
            src = f"I({src})"
        return src, e
    if k < 0.64:  # poly of a centred / scaled variable
        inner_s, inner = set_text(*gen_scale_call(rng, *gen_exact(rng, nums, 1)))
        return set_text(*gen_poly_call(rng, inner_s, inner))
    if k < 0.76:  # scale of scale
        inner_s, inner = set_text(*gen_scale_call(rng, *gen_exact(rng, nums, 1)))
        return set_text(*gen_scale_call(rng, inner_s, inner))
    if k < 0.88:  # arithmetic of two stateful calls inside I()
        a_s, a = set_text(*gen_scale_call(rng, *gen_exact(rng, nums, 1)))
        b_s, b = set_text(*gen_scale_call(rng, *gen_exact(rng, nums, 1)))
        op, sym = rng.choice([("add", "+"), ("sub", "-"), ("mul", "*")])
        return f"I({a_s} {sym} {b_s})", bin_(op, a, b)
    # the SAME stateful call twice in one factor (second copy written with other spacing)
    v = rng.choice(nums)
    fn = rng.choice(["center", "scale"])
    tr = dict(kind="scale", center=True, scale=(fn == "scale"), ddof="1/1")
    a = call(f"{fn}({v})", tr, col(v), fn=fn)
    b = call(f"{fn}( {v} )", dict(tr), col(v), fn=fn)
    op, sym = rng.choice([("mul", "*"), ("add", "+")])
    return f"I({fn}({v}) {sym} {fn}( {v} ))", bin_(op, a, b)


CONTRASTS = ["treatment", "sum", "helmert", "SAS", "diff", "base"]


def gen_levels_atom(rng, v, ci):
    """`C(v, levels=[…])`: the nominated levels are the column's levels in another order, sometimes with one more"""
    lv = list(ci["levels"])
    rng.shuffle(lv)
    if rng.random() < 0.3:
        lv.insert(rng.randrange(len(lv) + 1), "zz" if isinstance(lv[0], str) else 99)
    cn = rng.choice([None, None, "sum", "treatment"])
    src = f"C({v}, " + (f"contr.{cn}, " if cn else "") + f"levels={lv!r})"
    return src, dict(k="cat", var=v, contrast=dict(c=cn or "treatment", base=None), viaC=True, levels=[lab(x) for x in lv])


def gen_cat_atom(rng, cats, cinfo):
    v = rng.choice(cats)
    r = rng.random()
    if r < 0.08:
        return gen_levels_atom(rng, v, cinfo[v])
    if r < 0.5:
        return v, dict(k="cat", var=v, contrast=dict(c="treatment", base=None), viaC=False)
    if r < 0.6:
        return f"C({v})", dict(k="cat", var=v, contrast=dict(c="treatment", base=None), viaC=True)
    c = rng.choice(CONTRASTS)
    if c == "base":
        lv = rng.choice(cinfo[v]["train_levels"])
        return (f"C({v}, contr.treatment({lv!r}))",
                dict(k="cat", var=v, contrast=dict(c="treatment", base=lab(lv)), viaC=True))
    con = dict(c=c, base=None)
    if c == "helmert":
        con.update(reverse=True, scale=False)
    if c == "diff":
        con.update(backward=True)
    return f"C({v}, contr.{c})", dict(k="cat", var=v, contrast=con, viaC=True)


def lab(v):
    return {"s": v} if isinstance(v, str) else {"i": int(v)}


# ----------------------------------------------------------------------------- generator

LEVEL_POOLS = [["a", "b", "c", "d"], ["u", "v", "w", "z"], ["lo", "mid", "hi", "top"], [1, 2, 3, 4], ["a b", "c-d", "e.f", "g"]]


def gen_pool(rng, tier):
    n = rng.randint(5, 9 if tier == "quick" else 12)
    kind = rng.choice(["int", "int", "dy"])
    num = {}
    for name in ["x", "y"]:
        if kind == "int":
            vals = [Fraction(rng.randint(-8, 12)) for _ in range(n)]
        else:
            vals = [Fraction(rng.randint(-24, 40), 4) for _ in range(n)]
        if len(set(vals)) < n and rng.random() < 0.8:  # mostly distinct values (splines / polynomials need them)
            vals = rng.sample([Fraction(k, 1 if kind == "int" else 4) for k in range(-24, 44)], n)
        num[name] = [fs(v) for v in vals]
    num["p"] = [fs(Fraction(rng.randint(1, 64), 4)) for _ in range(n)]
    # training selection
    k = rng.randint(max(4, n - 3), n)
    train = sorted(rng.sample(range(n), k))
    if rng.random() < 0.8:
        for name in num:  # training rows contain the extremes
            vals = [Fraction(v) for v in num[name]]
            for i in (vals.index(min(vals)), vals.index(max(vals))):
                if i not in train:
                    train.append(i)
        train = sorted(train)
    if rng.random() < 0.3:
        rng.shuffle(train)
    cat = {}
    for name in ["A", "B"][: rng.choice([1, 2, 2])]:
        pool = rng.choice(LEVEL_POOLS)
        nl = rng.randint(2, 4)
        levels = pool[:nl] if rng.random() < 0.7 else rng.sample(pool, nl)
        declared = rng.random() < 0.4
        codes = [None] * n
        for i in train:
            codes[i] = rng.randrange(nl)
        if rng.random() < 0.3:
            for i in train:  # leave the last level unused in the training rows
                if codes[i] == nl - 1:
                    codes[i] = 0
        used = sorted({codes[i] for i in train})
        for i in range(n):
            if codes[i] is None:  # follow-up-only rows: a level of the training domain
                codes[i] = rng.choice(list(range(nl)) if declared else used)
        cat[name] = dict(levels=levels, codes=codes, declared=declared,
                         train_levels=[levels[c] for c in (range(nl) if declared else used)])
    return n, num, cat, train


# how the spec reaches the follow-up call; the second list goes through ModelSpec.__getstate__ (pickle, copy.copy and
# copy.deepcopy of a dataclass instance all use __reduce_ex__ -> __getstate__ and `__dict__.update(state)`)
ROUTES = ["spec", "spec", "sugar", "mm", "pickle", "pickle", "pickle_mm", "copy", "deepcopy", "copy_mm", "deepcopy_mm",
          "overrides"]
GETSTATE_ROUTES = ("pickle", "pickle_mm", "copy", "deepcopy", "deepcopy_mm")


def gen_followups(rng, n, train):
    fus = [dict(rows=list(train), route="spec")]
    kinds = ["subset", "dup", "perm", "single", "pool", "train", "single", "subset"]
    for _ in range(rng.randint(2, 6)):
        k = rng.choice(kinds)
        if k == "subset":
            rows = sorted(rng.sample(range(n), rng.randint(1, n)))
        elif k == "dup":
            rows = [rng.randrange(n) for _ in range(rng.randint(2, n + 2))]
        elif k == "perm":
            rows = list(range(n))
            rng.shuffle(rows)
        elif k == "single":
            rows = [rng.randrange(n)]
        elif k == "pool":
            rows = list(range(n))
        else:
            rows = list(train)
        fus.append(dict(rows=rows, route=rng.choice(ROUTES)))
    return fus


def add_option_followups(rng, case):
    """follow-ups OUTSIDE the property's domain, for the error / enforcement branches of the replay mechanism:
    another output type (`get_model_matrix(data, output=…)`, also an unregistered one), data lacking a column, a column
    of the other kind (strings for numbers, numbers for categories: the kind check against `encoder_state`), a spec
    whose recorded categories were edited by hand (`_enforce_structure`: too many / too few / imputed columns)."""
    n, train = case["n"], case["train"]
    cols = list(case["num"]) + list(case["cat"])
    cat_srcs = [s_ for s_, sem in case["atoms"].items() if sem.get("k") == "cat"]
    for _ in range(rng.choice([0, 0, 1, 1, 2])):
        rows = sorted(rng.sample(range(n), rng.randint(1, n))) if rng.random() < 0.7 else list(train)
        fu = dict(rows=rows, route=rng.choice(["spec", "spec", "pickle", "copy", "deepcopy"]))
        k = rng.random()
        if k < 0.3:
            fu["output"] = rng.choice(["numpy", "sparse", "pandas", "bogus"])
        elif k < 0.5:
            fu["drop"] = rng.choice(cols)
        elif k < 0.7:
            fu["swap"] = rng.choice(cols)
        elif cat_srcs:
            src_ = rng.choice(cat_srcs)
            # an explicit reference level must stay among the edited categories: the model computes both rank variants
            # of a C(...) factor eagerly, the code only the one the recorded structure asks for, so an error of the
            # unused variant (base not in levels) would be reported by the model alone
            explicit_base = (case["atoms"][src_].get("contrast") or {}).get("base") is not None
            if case["atoms"][src_].get("levels"):
                continue  # nominated levels override recorded categories in the code (the model reads them as declared)
            fu["edit"] = dict(src=src_, op=rng.choice(["reverse", "add"] if explicit_base else
                                                      ["drop_last", "drop_first", "keep_one", "reverse", "add"]))
        else:
            fu["output"] = rng.choice(["numpy", "sparse", "bogus"])
        case["followups"].append(fu)
    return case


REDECLARE = ["sorted", "reversed", "rotated", "ordered_reversed", "text"]


def add_redeclared_followups(rng, case, p=0.35):
    """follow-up data whose categorical columns hold the same values under another dtype: a Categorical over the same
    levels declared in another order (sorted by `.astype('category')`, reversed, rotated, ordered), or plain text"""
    if not case["cat"]:
        return case
    for fu in list(case["followups"]):
        if in_domain(fu) and not fu.get("output") and rng.random() < p:
            cols = [k for k in case["cat"] if rng.random() < 0.8] or [sorted(case["cat"])[0]]
            case["followups"].append(dict(rows=fu["rows"], route=rng.choice(["spec", "spec", "pickle", "sugar", "deepcopy"]),
                                          redeclare={k: rng.choice(REDECLARE) for k in cols}))
    return case


def in_domain(fu):
    """does the property speak about this follow-up? (a valid output override is in; the rest is not)"""
    return not (fu.get("drop") or fu.get("swap") or fu.get("edit") or fu.get("output") == "bogus")


def gen_case(rng, tier):
    n, num, cat, train = gen_pool(rng, tier)
    nums = ["x", "y"]
    atoms = {}
    terms = []
    seen = set()
    for _ in range(rng.randint(1, 4)):
        k = rng.choice([1, 1, 1, 2, 2, 3])
        fac = []
        for _ in range(k):
            if cat and rng.random() < 0.35:
                s, sem = gen_cat_atom(rng, sorted(cat), cat)
            else:
                s, e = gen_numeric_atom(rng, nums, "p")
                sem = dict(k="num", e=e)
            if s not in fac:
                fac.append(s)
                atoms[s] = sem
        if frozenset(fac) in seen:
            continue
        seen.add(frozenset(fac))
        if rng.random() < 0.12:
            fac.insert(rng.randrange(len(fac) + 1), rng.choice(["2", "0.5", "3"]))
        terms.append(":".join(fac))
    icpt = rng.choice(["", "", "", "0 + ", "-1 + "])
    return dict(
        kind="replay", n=n, num=num, cat={k: dict(v) for k, v in cat.items()}, train=train,
        formula=icpt + " + ".join(terms), atoms=atoms,
        efr=rng.random() < 0.75, output=rng.choice(["pandas", "pandas", "numpy", "sparse"]),
        cluster=rng.random() < 0.15,
        followups=gen_followups(rng, n, train),
    )


INDEX_KINDS = ["shuffled", "offset", "str", "dup", "strdup", "neg", "float", "default"]


def gen_index(rng, n):
    """row labels of the pool: anything but the default 0..n-1 most of the time"""
    k = rng.choice(INDEX_KINDS)
    if k == "shuffled":
        lab = list(range(n))
        rng.shuffle(lab)
    elif k == "offset":
        o = rng.choice([1, 7, 100])
        lab = [o + 2 * i for i in range(n)]
    elif k == "str":
        lab = [f"r{i}" for i in range(n)]
        rng.shuffle(lab)
    elif k == "dup":  # repeated integer labels, among them labels that are valid positions
        lab = [rng.randrange(max(2, n // 2)) for _ in range(n)]
    elif k == "strdup":
        lab = [rng.choice(["a", "b", "c"]) for _ in range(n)]
    elif k == "neg":
        lab = [-(i + 1) for i in range(n)]
    elif k == "float":
        lab = [i + 0.5 for i in range(n)]
    else:
        return None
    return lab


def gen_index_case(rng, tier):
    """REPLAY UNDER ARBITRARY ROW LABELS.  Terms made of several single-column factors (a categorical reduced to one
    column times raw data columns: `A*x`, `A:x:y`, `C(A):x`, `x:y`, a centred column times a categorical), fitted on a
    frame whose pandas index is not 0..n-1, replayed on reorderings / subsets / duplications / the complement of the
    training rows made with `.iloc` (labels are carried along, duplicated, reordered).  Output rows are compared BY
    POSITION: row labels must never influence values."""
    n, num, cat, train = gen_pool(rng, tier)
    # categorical columns with exactly two levels in the training rows (one column once the rank is reduced)
    for name, ci in cat.items():
        if rng.random() < 0.8:
            ci["levels"] = ci["levels"][:2]
            ci["codes"] = [c % 2 for c in ci["codes"]]
            if len({ci["codes"][i] for i in train}) < 2:
                ci["codes"][train[0]], ci["codes"][train[-1]] = 0, 1
            ci["train_levels"] = list(ci["levels"]) if ci["declared"] else \
                [ci["levels"][k] for k in sorted({ci["codes"][i] for i in train})]
    cats = sorted(cat)
    atoms = {}

    def raw():
        v = rng.choice(["x", "y", "p"])
        atoms[v] = dict(k="num", e=col(v))
        return v

    def catf():
        v = rng.choice(cats)
        r = rng.random()
        if r < 0.15:
            src, sem = gen_levels_atom(rng, v, cat[v])
        elif r < 0.6:
            src, sem = v, dict(k="cat", var=v, contrast=dict(c="treatment", base=None), viaC=False)
        elif r < 0.8:
            src, sem = f"C({v})", dict(k="cat", var=v, contrast=dict(c="treatment", base=None), viaC=True)
        else:
            cn = rng.choice(["sum", "treatment", "SAS"])
            src, sem = f"C({v}, contr.{cn})", dict(k="cat", var=v, contrast=dict(c=cn, base=None), viaC=True)
        atoms[src] = sem
        return src

    def stateful():
        v = rng.choice(["x", "y"])
        src, e = set_text(*gen_scale_call(rng, v, col(v)))
        atoms[src] = dict(k="num", e=e)
        return src

    terms = []
    for _ in range(rng.randint(1, 3)):
        shape = rng.choice(["cat*raw", "cat*raw", "cat:raw:raw", "raw:raw", "cat:stateful", "cat:cat:raw", "raw:stateful"])
        if shape == "cat*raw":
            a, z = catf(), raw()
            t = rng.choice([f"{a}*{z}", f"{a}:{z}", f"{a} + {a}:{z}", f"{z}*{a}"])
        elif shape == "cat:raw:raw":
            t = ":".join([catf(), raw(), raw()])
        elif shape == "raw:raw":
            t = f"{raw()}:{raw()}"
        elif shape == "cat:stateful":
            t = rng.choice(["{0}:{1}", "{0}*{1}"]).format(catf(), stateful())
        elif shape == "cat:cat:raw":
            t = ":".join([catf(), catf(), raw()])
        else:
            t = f"{raw()}:{stateful()}"
        if t not in terms:
            terms.append(t)
    if rng.random() < 0.3:  # something multi-column next to them
        s_, e = gen_numeric_atom(rng, ["x", "y"], "p")
        atoms[s_] = dict(k="num", e=e)
        terms.append(s_)
    fus = gen_followups(rng, n, train)
    rest = [i for i in range(n) if i not in train]
    if rest:
        fus.append(dict(rows=rest, route=rng.choice(["spec", "sugar", "pickle"])))  # the other side of a train/test split
    fus.append(dict(rows=list(reversed(range(n))), route="spec"))
    return dict(
        kind="replay", n=n, num=num, cat={k: dict(v) for k, v in cat.items()}, train=train,
        formula=rng.choice(["", "", "", "0 + "]) + " + ".join(terms), atoms=atoms,
        efr=rng.random() < 0.85, output=rng.choice(["pandas", "pandas", "pandas", "numpy", "sparse"]),
        cluster=rng.random() < 0.1, followups=fus, index=gen_index(rng, n),
    )


def gen_session_case(rng, tier):
    """FAULT-THEN-REUSE: two specs with shared factor expressions but different recorded state (fitted on two folds
    of the pool), ONE materializer object for the follow-up data, a history of 2-4 `get_model_matrix(spec_i)` calls on
    it, some of which raise after some (or all) factors have been evaluated: a value outside the range recorded by a
    `bs(..)` with extrapolation='raise' (during factor evaluation), a level the fold of that spec has not seen with
    DataMismatchWarning promoted to an error (during encoding, after every factor has been evaluated), a column the
    data lack.  Every call must behave like the same call on a new object."""
    n, num, cat, _ = gen_pool(rng, tier)
    for ci in cat.values():
        if len(ci["levels"]) < 3 and rng.random() < 0.7:  # room for a level that one fold does not see
            pool_ = next(pl for pl in LEVEL_POOLS if ci["levels"][0] in pl)
            ci["levels"] = list(ci["levels"]) + [x for x in pool_ if x not in ci["levels"]][:1]
            for i in range(n):
                if rng.random() < 0.3:
                    ci["codes"][i] = len(ci["levels"]) - 1
    # fold 1 (wide): the extremes of every numeric column and every level; fold 0 (narrow): a subset without some of them
    wide = list(range(n))
    if rng.random() < 0.5 and n > 5:
        drop = rng.randrange(n)
        wide = [i for i in wide if i != drop]
    for name in num:
        vals = [Fraction(v) for v in num[name]]
        for i in (vals.index(min(vals)), vals.index(max(vals))):
            if i not in wide:
                wide.append(i)
    wide = sorted(wide)
    for ci in cat.values():
        ci["declared"] = ci["declared"] and rng.random() < 0.5
        ci["train_levels"] = None  # per fold
    cv = rng.choice(sorted(cat))  # the categorical column of the formulas
    yv = [Fraction(v) for v in num["y"]]
    order = sorted(range(n), key=lambda i: yv[i])
    k = rng.randint(4, max(4, n - 2))
    lo = rng.randint(0, n - k)
    mode = rng.choice(["range", "range", "level", "level", "random", "same"])
    narrow = sorted(order[lo: lo + k])  # an interval of y: rows outside it are out of range for a recorded bs(y)
    if mode == "level":
        # every numeric extreme stays in the fold, one level of one categorical column does not: the other rows are
        # in range but carry a level this fold has not seen
        name = cv
        ci = cat[name]
        nl = len(ci["levels"])
        if nl >= 3:
            L = rng.randrange(nl)
            keep = [j for j in range(nl) if j != L]
            ext = set()
            for nm in num:
                vals = [Fraction(v) for v in num[nm]]
                ext |= {vals.index(min(vals)), vals.index(max(vals))}
            for i in range(n):
                if i in ext and ci["codes"][i] == L:
                    ci["codes"][i] = rng.choice(keep)
            if not any(cd == L for cd in ci["codes"]):
                ci["codes"][rng.choice([i for i in range(n) if i not in ext] or [0])] = L
            for j in keep:  # both remaining levels occur
                if j not in ci["codes"]:
                    cand = [i for i in range(n) if ci["codes"][i] != L]
                    ci["codes"][rng.choice(cand)] = j
            ci["declared"] = False
            narrow = [i for i in range(n) if ci["codes"][i] != L]
            wide = list(range(n))
    elif mode == "random":
        narrow = sorted(rng.sample(range(n), k))
    elif mode == "same":
        narrow = list(wide)
    folds = [narrow, wide]
    if rng.random() < 0.25:
        folds.reverse()
    # atoms shared by the two formulas
    atoms = {}
    pool_atoms = []
    v = rng.choice(["x", "y"])
    src, e = set_text(*gen_scale_call(rng, v, col(v)))
    pool_atoms.append((src, dict(k="num", e=e)))
    deg = rng.choice([1, 2, 3])
    dfv = deg + rng.choice([0, 1, 2])
    bs_src = f"bs(y, df={dfv}" + (f", degree={deg}" if deg != 3 else "") + ")"
    pool_atoms.append((bs_src, dict(k="num", e=call(bs_src, dict(kind="bs", df=dfv, knots=None, degree=deg, intercept=False,
                                                                 lower=None, upper=None, mode="raise"), col("y"), fn="bs",
                                                    kw=dict(df=dfv, **({"degree": deg} if deg != 3 else {}))))))
    if rng.random() < 0.6:
        pool_atoms.append((cv, dict(k="cat", var=cv, contrast=dict(c="treatment", base=None), viaC=False)))
    else:
        cn = rng.choice(["sum", "treatment", "helmert"])
        con = dict(c=cn, base=None)
        if cn == "helmert":
            con.update(reverse=True, scale=False)
        pool_atoms.append((f"C({cv}, contr.{cn})", dict(k="cat", var=cv, contrast=con, viaC=True)))
    extra = rng.choice(["poly", "raw", "scale2", "nested", None])
    if extra == "poly":
        ps, pe = set_text(*gen_poly_call(rng, "x", col("x")))
        pool_atoms.append((ps, dict(k="num", e=pe)))
    elif extra == "raw":
        pool_atoms.append(("p", dict(k="num", e=col("p"))))
    elif extra == "scale2":
        ss, se = set_text(*gen_scale_call(rng, "p", col("p")))
        pool_atoms.append((ss, dict(k="num", e=se)))
    elif extra == "nested":
        ns, ne = set_text(*gen_scale_call(rng, bs_src, pool_atoms[1][1]["e"]))
        pool_atoms.append((ns, dict(k="num", e=ne)))
    fits = []
    for j in range(2):
        if j == 0 or rng.random() < 0.5:
            chosen = list(pool_atoms)
        else:
            chosen = [pool_atoms[0]] + [a for a in pool_atoms[1:] if rng.random() < 0.6]
        rng.shuffle(chosen)
        terms = []
        used = []
        i = 0
        while i < len(chosen):
            if i + 1 < len(chosen) and rng.random() < 0.25:
                terms.append(chosen[i][0] + ":" + chosen[i + 1][0])
                used += [chosen[i], chosen[i + 1]]
                i += 2
            else:
                terms.append(chosen[i][0])
                used.append(chosen[i])
                i += 1
        for a, sem in used:
            atoms[a] = sem
        fits.append(dict(formula=rng.choice(["", "", "0 + "]) + " + ".join(terms), train=folds[j],
                         efr=rng.random() < 0.8, output=rng.choice(["pandas", "pandas", "numpy", "sparse"]),
                         cluster=False))
    if rng.random() < 0.6:
        fits[1]["output"] = fits[0]["output"]
    rows = sorted(rng.sample(range(n), rng.randint(2, n))) if rng.random() < 0.6 else \
        [rng.randrange(n) for _ in range(rng.randint(2, n + 1))]
    ncalls = rng.randint(2, 4)
    calls = [dict(spec=rng.randrange(2), strict=rng.random() < 0.5) for _ in range(ncalls)]
    if all(cl["spec"] == calls[0]["spec"] for cl in calls):
        calls[-1]["spec"] = 1 - calls[0]["spec"]
    if mode == "level" and rng.random() < 0.8:
        # the spec of the fold that lacks a level, with warnings as errors, somewhere before a call of the other spec
        nidx = folds.index(narrow) if narrow in folds else 0
        pos = rng.randrange(len(calls) - 1)
        calls[pos] = dict(spec=nidx, strict=True)
        calls[-1] = dict(spec=1 - nidx, strict=calls[-1]["strict"])
    return dict(kind="session", n=n, num=num, cat={k2: dict(v2) for k2, v2 in cat.items()}, atoms=atoms, fits=fits,
                rows=rows, calls=calls, via=rng.choice(["get_materializer", "class"]),
                dropcol=(rng.choice(["p", "x"]) if rng.random() < 0.08 else None),
                index=gen_index(rng, n) if rng.random() < 0.4 else None)


def gen_sparse_case(rng):
    """a scale-family transform called on a scipy.sparse matrix (its `singledispatch` registration): one column is
    scaled like the dense vector, with the same recorded state; any other width raises ValueError"""
    n = rng.randint(2, 8)
    ncols = rng.choice([1, 1, 1, 2, 3])
    cols = [[fs(Fraction(rng.randint(-12, 20), rng.choice([1, 1, 2, 4])) if rng.random() < 0.7 else 0) for _ in range(n)]
            for _ in range(ncols)]
    _, e = gen_scale_call(rng, "x", col("x"))
    fus = [[rng.randrange(n) for _ in range(rng.randint(1, n + 2))] for _ in range(rng.randint(1, 3))]
    return dict(kind="sparse", n=n, cols=cols, tr=e["tr"], followups=fus)


def gen_dtype_case(rng, tier):
    """CATEGORICAL DTYPE IS NOT AN INPUT OF A REPLAY: a categorical column (3-4 levels; declared in the training frame
    in a non-sorted order, or plain text there), every built-in coding, alone and in interactions; every follow-up stores
    the same cell values as a Categorical over the same levels declared in ANOTHER order (or as text)."""
    n, num, cat, train = gen_pool(rng, tier)
    for name, ci in cat.items():
        pool_ = next(pl for pl in LEVEL_POOLS if ci["levels"][0] in pl)
        while len(ci["levels"]) < 3:
            ci["levels"] = list(ci["levels"]) + [x for x in pool_ if x not in ci["levels"]][:1]
        nl = len(ci["levels"])
        for k, i in enumerate(train):  # every level occurs in the training rows
            if k < nl:
                ci["codes"][i] = k
        ci["codes"] = [cd if cd < nl else rng.randrange(nl) for cd in ci["codes"]]
        if rng.random() < 0.6:
            ci["declared"] = True
            lv = list(ci["levels"])
            perm = list(range(nl))
            rng.shuffle(perm)  # declared order of the training frame: not the sorted one most of the time
            ci["levels"] = [lv[k] for k in perm]
            inv = {old: new for new, old in enumerate(perm)}
            ci["codes"] = [inv[cd] for cd in ci["codes"]]
        ci["train_levels"] = list(ci["levels"]) if ci["declared"] else \
            [ci["levels"][k] for k in sorted({ci["codes"][i] for i in train})]
    atoms = {}
    terms = []
    for _ in range(rng.randint(1, 3)):
        v = rng.choice(sorted(cat))
        cn = rng.choice(["bare", "treatment", "sum", "helmert", "poly", "SAS", "diff"])
        if cn == "bare":
            src, sem = v, dict(k="cat", var=v, contrast=dict(c="treatment", base=None), viaC=False)
        else:
            con = dict(c=cn, base=None)
            if cn == "helmert":
                con.update(reverse=True, scale=False)
            if cn == "diff":
                con.update(backward=True)
            src, sem = f"C({v}, contr.{cn})", dict(k="cat", var=v, contrast=con, viaC=True)
        atoms[src] = sem
        r = rng.random()
        if r < 0.45:
            t = src
        elif r < 0.75:
            z = rng.choice(["x", "y", "p"])
            atoms[z] = dict(k="num", e=col(z))
            t = rng.choice([f"{src}:{z}", f"{src}*{z}"])
        else:
            zs, ze = set_text(*gen_scale_call(rng, "x", col("x")))
            atoms[zs] = dict(k="num", e=ze)
            t = f"{src}:{zs}"
        if t not in terms:
            terms.append(t)
    fus = [dict(rows=list(train), route="spec")]
    for _ in range(rng.randint(3, 5)):
        k = rng.random()
        rows = sorted(rng.sample(range(n), rng.randint(2, n))) if k < 0.5 else \
            ([rng.randrange(n) for _ in range(rng.randint(2, n))] if k < 0.8 else list(train))
        fus.append(dict(rows=rows, route=rng.choice(["spec", "spec", "pickle", "pickle", "sugar", "mm", "deepcopy"]),
                        redeclare={kk: rng.choice(REDECLARE) for kk in cat}))
    return dict(kind="replay", n=n, num=num, cat={k: dict(v) for k, v in cat.items()}, train=train,
                formula=rng.choice(["", "", "0 + "]) + " + ".join(terms), atoms=atoms, efr=rng.random() < 0.8,
                output=rng.choice(["pandas", "pandas", "numpy", "sparse"]), cluster=False, followups=fus,
                index=gen_index(rng, n) if rng.random() < 0.3 else None)


def gen_nested_atom(rng):
    """a factor in which a stateful call is NESTED inside a larger expression: (source, expr, modelled?)"""
    v = rng.choice(["x", "y"])
    inner_s, inner = set_text(*gen_scale_call(rng, v, col(v)))
    k = rng.random()
    if k < 0.25:
        dg = rng.choice([1, 2, 3])
        df_ = dg + rng.choice([0, 1, 2])
        src = f"bs({inner_s}, df={df_}" + (f", degree={dg}" if dg != 3 else "") + ", extrapolation='clip')"
        e = call(src, dict(kind="bs", df=df_, knots=None, degree=dg, intercept=False, lower=None, upper=None, mode="clip"),
                 inner, fn="bs", kw=dict(df=df_, extrapolation="clip", **({"degree": dg} if dg != 3 else {})))
        return src, e
    if k < 0.4:
        return set_text(*gen_poly_call(rng, inner_s, inner))
    if k < 0.5:
        df_ = rng.choice([2, 3, 4])
        src = f"cr({inner_s}, df={df_})"
        return src, call(src, dict(kind="cs", df=df_, knots=None, lower=None, upper=None, constraints=None, cyclic=False,
                                   mode="extend"), inner, fn="cr", kw=dict(df=df_))
    if k < 0.65:
        c_ = rng.choice([2, 3, -1])
        op, sym = rng.choice([("mul", "*"), ("add", "+")])
        return f"I({inner_s} {sym} {c_})", binc(op, inner, c_)
    if k < 0.8:
        w = "y" if v == "x" else "x"
        other_s, other = set_text(*gen_scale_call(rng, w, col(w)))
        op, sym = rng.choice([("mul", "*"), ("add", "+"), ("sub", "-")])
        return f"I({inner_s} {sym} {other_s})", bin_(op, inner, other)
    if k < 0.9:  # a function of a centred column: its values are not supplied to the model (oracle only)
        fn = rng.choice(["exp", "np.exp"])
        return f"{fn}({inner_s})", elem("exp", inner)
    g = rng.choice([gen_bs_call, gen_poly_call])  # a mapped call over a multi-column value
    ms, me = set_text(*g(rng, v, col(v)))
    return set_text(*gen_scale_call(rng, ms, me))


def gen_parts_case(rng, tier):
    """STRUCTURED formulas (`lhs ~ a | b`: the spec is a ModelSpecs) whose factors contain NESTED stateful calls;
    fitted on one frame, then the attached specs replayed on other rows — through the joint ModelSpecs, through one
    part's spec alone, through pickled copies.  Every part must apply the statistics recorded at fit time: its
    transform_state has an entry for every stateful call its factors contain, nested ones included."""
    n, num, cat, train = gen_pool(rng, tier)
    atoms = {}

    def side(nterms):
        ts = []
        for _ in range(nterms):
            r = rng.random()
            if r < 0.6:
                s_, e = gen_nested_atom(rng)
                atoms[s_] = dict(k="num", e=e)
            elif r < 0.75 and cat:
                s_, sem = gen_cat_atom(rng, sorted(cat), cat)
                if sem.get("levels"):
                    continue
                atoms[s_] = sem
            elif r < 0.9:
                s_, e = set_text(*gen_scale_call(rng, "p", col("p")))
                atoms[s_] = dict(k="num", e=e)
            else:
                s_ = rng.choice(["x", "y", "p"])
                atoms[s_] = dict(k="num", e=col(s_))
            if s_ not in ts:
                ts.append(s_)
        return " + ".join(ts) if ts else "x"

    r = rng.random()
    if r < 0.4:
        lhs = "y"
        atoms["y"] = dict(k="num", e=col("y"))
    elif r < 0.8:
        lhs, e = set_text(*gen_scale_call(rng, "y", col("y")))
        atoms[lhs] = dict(k="num", e=e)
    else:
        lhs, e = gen_nested_atom(rng)
        atoms[lhs] = dict(k="num", e=e)
    nparts = rng.choice([1, 1, 2, 2, 3])
    rhs = " | ".join(side(rng.randint(1, 2)) for _ in range(nparts))
    if "x" in rhs.split(" + ") or rhs == "x":
        atoms.setdefault("x", dict(k="num", e=col("x")))
    atoms.setdefault("x", dict(k="num", e=col("x")))
    fus = [dict(rows=list(train), part=None, pickle=False)]
    rest = [i for i in range(n) if i not in train]
    for _ in range(rng.randint(3, 6)):
        k = rng.random()
        if k < 0.35 and rest:
            rows = list(rest)
            rng.shuffle(rows)
        elif k < 0.7:
            rows = rng.sample(range(n), rng.randint(1, n))
        else:
            rows = [rng.randrange(n) for _ in range(rng.randint(1, n))]
        fus.append(dict(rows=rows, part=rng.choice([None, None, 0, 1, nparts]), pickle=rng.random() < 0.4))
    return dict(kind="parts", n=n, num=num, cat={k: dict(v) for k, v in cat.items()}, train=train,
                formula=f"{lhs} ~ {rhs}", atoms=atoms, efr=rng.random() < 0.8,
                output=rng.choice(["pandas", "pandas", "numpy", "sparse"]), cluster=False, followups=fus,
                index=gen_index(rng, n) if rng.random() < 0.3 else None)


def gen_dict_case(rng):
    """the decorator's loop over dict-valued data, called directly (`center` / `scale` on a dict of columns)"""
    n = rng.randint(2, 8)
    nkeys = rng.randint(1, 4)
    keys = rng.sample([1, 2, 3, 4, 0, "a", "b", "col"], nkeys)
    cols = [[k, [fs(Fraction(rng.randint(-12, 20), rng.choice([1, 1, 2, 4]))) for _ in range(n)]] for k in keys]
    if rng.random() < 0.5:
        cols.insert(rng.randrange(len(cols) + 1), ["__meta", [fs(rng.randint(0, 5)) for _ in range(n)]])
    _, e = gen_scale_call(rng, "x", col("x"))
    fus = []
    for _ in range(rng.randint(1, 4)):
        fus.append([rng.randrange(n) for _ in range(rng.randint(1, n + 2))])
    return dict(kind="dict", n=n, cols=cols, tr=e["tr"], followups=fus)


# ----------------------------------------------------------------------------- stream `cells`: storage of the cells

CELL_G = ["int64", "int32", "Int64", "Int32", "UInt8", "arrow_int64", "float64", "str"]
CELL_X = ["float64", "int64", "Int64", "arrow_int64", "arrow_float64"]
CELL_NULLABLE = {"Int64", "Int32", "UInt8", "arrow_int64", "arrow_float64", "float64", "str"}


def gen_cells_case(rng, tier):
    """EVERY BUILT-IN TRANSFORM IS ROW BY ROW WHATEVER THE STORAGE: `hashed(...)` (and center / scale / poly / bs / cr /
    C()) over integer, nullable-integer (pandas masked), Arrow-backed, float and text columns — in a pandas frame or a
    pyarrow table —, fitted on all pool rows, replayed on the EMPTY subset, on one-row subsets, on the null-free rows of
    a column that holds nulls, on subsets that contain the nulls, on duplications and permutations."""
    n = rng.randint(4, 9)
    gs, xs = rng.choice(CELL_G), rng.choice(CELL_X)
    g = [rng.randint(0, 6) for _ in range(n)]
    x = rng.sample(range(-4, 12), n)
    a = [rng.choice(["u", "v", "w"]) for _ in range(n)]
    a[0], a[1] = "u", "v"
    if gs in CELL_NULLABLE and rng.random() < 0.6:
        for i in rng.sample(range(n), rng.randint(1, 2)):
            g[i] = None
    if xs in CELL_NULLABLE and rng.random() < 0.25:
        x[rng.randrange(n)] = None
    atoms = {}

    def hashed_atom():
        v = rng.choice(["g", "g", "g", "a"])
        lv = rng.randint(2, 9)
        spans = rng.random() < 0.35
        src = f"hashed({v}, levels={lv}" + (", spans_intercept=True" if spans else "") + ")"
        atoms[src] = dict(k="hashed", var=v, levels=lv, spans=spans)
        return src

    def other_atom():
        r = rng.random()
        if r < 0.15:
            src, e = "x", col("x")
        elif r < 0.45:
            src, e = set_text(*gen_scale_call(rng, "x", col("x")))
        elif r < 0.58:
            src, e = set_text(*gen_poly_call(rng, "x", col("x")))
        elif r < 0.7:
            src = "bs(x, df=4, extrapolation='clip')"
            e = call(src, dict(kind="bs", df=4, knots=None, degree=3, intercept=False, lower=None, upper=None, mode="clip"),
                     col("x"), fn="bs", kw=dict(df=4, extrapolation="clip"))
        elif r < 0.8:
            src = "cr(x, df=3)"
            e = call(src, dict(kind="cs", df=3, knots=None, lower=None, upper=None, constraints=None, cyclic=False,
                               mode="extend"), col("x"), fn="cr", kw=dict(df=3))
        else:
            src, sem = rng.choice([
                ("a", dict(k="cat", var="a", contrast=dict(c="treatment", base=None), viaC=False)),
                ("C(a)", dict(k="cat", var="a", contrast=dict(c="treatment", base=None), viaC=True)),
                ("C(a, contr.sum)", dict(k="cat", var="a", contrast=dict(c="sum", base=None), viaC=True))])
            atoms[src] = sem
            return src
        atoms[src] = dict(k="num", e=e)
        return src

    h = hashed_atom()
    terms = [h if rng.random() < 0.75 else f"{h}:x"]
    if ":x" in terms[0]:
        atoms["x"] = dict(k="num", e=col("x"))
    for _ in range(rng.choice([0, 1, 1, 2])):
        t = other_atom() if rng.random() < 0.8 else hashed_atom()
        if t not in terms:
            terms.append(t)
    nulls = [i for i in range(n) if g[i] is None or x[i] is None]
    clean = [i for i in range(n) if i not in nulls]
    fus = [[], [rng.randrange(n)], list(range(n))]
    if nulls:
        fus += [list(clean), list(nulls), [rng.choice(nulls)] + rng.sample(clean, min(2, len(clean)))]
    for _ in range(rng.randint(1, 3)):
        k = rng.random()
        fus.append(sorted(rng.sample(range(n), rng.randint(1, n))) if k < 0.5 else [rng.randrange(n) for _ in range(rng.randint(1, n + 2))])
    rng.shuffle(fus)
    return dict(kind="cells", n=n, container=rng.choice(["pandas", "pandas", "arrow"]), g=dict(storage=gs, vals=g),
                x=dict(storage=xs, vals=x), a=a, train=list(range(n)), formula=rng.choice(["", "", "0 + "]) + " + ".join(terms),
                atoms=atoms, efr=rng.random() < 0.7, output=rng.choice(["pandas", "numpy", "sparse"]),
                na_action="drop" if any(v is None for v in x) or rng.random() < 0.6 else "ignore",
                followups=[dict(rows=r, route=rng.choice(["spec", "spec", "pickle", "sugar", "mm", "deepcopy"])) for r in fus])


def cells_text(c, var, i):
    """the text a cell is hashed as — the cell's own `str`, whatever the storage of the column and whatever the other
    rows hold (None: a null cell, whose text is the container's business)"""
    if var == "a":
        return c["a"][i]
    v = c["g"]["vals"][i]
    if v is None:
        return None
    st = c["g"]["storage"]
    return f"k{v}" if st == "str" else (repr(float(v)) if st == "float64" else str(int(v)))


def cells_bucket(c, sem, i):
    import hashlib

    t = cells_text(c, sem["var"], i)
    return None if t is None else int(hashlib.md5(t.encode()).hexdigest(), 16) % sem["levels"]


def cells_data(c):
    import pyarrow

    def pa_type(st):
        return {"int64": pyarrow.int64(), "int32": pyarrow.int32(), "Int64": pyarrow.int64(), "Int32": pyarrow.int32(),
                "UInt8": pyarrow.uint8(), "arrow_int64": pyarrow.int64(), "float64": pyarrow.float64(),
                "arrow_float64": pyarrow.float64(), "str": pyarrow.string()}[st]

    def vals(d):
        if d["storage"] == "str":
            return [None if v is None else f"k{v}" for v in d["vals"]]
        if "float" in d["storage"]:
            return [None if v is None else float(v) for v in d["vals"]]
        return list(d["vals"])

    if c["container"] == "arrow":
        return pyarrow.table({"g": pyarrow.array(vals(c["g"]), type=pa_type(c["g"]["storage"])),
                              "x": pyarrow.array(vals(c["x"]), type=pa_type(c["x"]["storage"])),
                              "a": pyarrow.array(c["a"], type=pyarrow.string())})

    def pd_col(d):
        st, v = d["storage"], vals(d)
        if st in ("int64", "int32"):
            return numpy.array(v, dtype=st)
        if st in ("Int64", "Int32", "UInt8"):
            return pandas.array(v, dtype=st)
        if st.startswith("arrow_"):
            return pandas.array(v, dtype=pandas.ArrowDtype(pa_type(st)))
        if st == "float64":
            return numpy.array([numpy.nan if t is None else t for t in v], dtype=float)
        return pandas.Series(v, dtype=object)

    return pandas.DataFrame({"g": pd_col(c["g"]), "x": pd_col(c["x"]), "a": pandas.Series(c["a"], dtype=object)})


def cells_take(c, data, rows):
    if c["container"] == "arrow":
        import pyarrow

        return data.take(pyarrow.array(rows, type=pyarrow.int64()))
    return data.iloc[rows]


def impl_cells(c):
    from formulaic import Formula, model_matrix
    from formulaic.utils.code import format_expr

    warnings.simplefilter("ignore")
    data = cells_data(c)
    out = {}
    exprs = {}
    for src in c["atoms"]:
        exprs[src] = list(Formula("0 + " + src))[0].factors[0].expr
    out["exprs"] = exprs
    calls = []
    for sem in c["atoms"].values():
        if sem.get("k") == "num":
            walk_calls(sem["e"], calls)
    out["norm"] = sorted({(e["text"], format_expr(e["text"])) for e in calls})
    out["elem"] = []
    try:
        with numpy.errstate(all="ignore"):
            mm = model_matrix(c["formula"], cells_take(c, data, c["train"]), ensure_full_rank=c["efr"], output=c["output"],
                              na_action=c["na_action"])
    except Exception as e:
        return dict(out, fit=dict(error=type(e).__name__, msg=str(e)[:300]))
    spec = mm.model_spec
    out["terms"] = [[dict(x=f.expr, m=f.eval_method.value) for f in t.factors] for t in spec.formula]
    fit = mat_obs(mm, c["output"])
    fit["spec"] = spec_obs(spec)
    out["fit"] = fit
    roots = []
    for st in spec.transform_state.values():
        _roots_of(st, roots)
    out["roots"] = [ffs(r) for r in roots if math.isfinite(r)]
    out["params"] = {k: node_params(st) for k, st in spec.transform_state.items()}
    before = repr(spec_obs(spec))
    ref = []
    for i in range(c["n"]):
        try:
            with numpy.errstate(all="ignore"):
                r = mat_obs(spec.get_model_matrix(cells_take(c, data, [i])), c["output"])
            ref.append(dict(names=r["names"], row=r["rows"][0] if r["rows"] else None, nrows=r["shape"][0]))
        except Exception as e:
            ref.append(dict(error=type(e).__name__, msg=str(e)[:200]))
    out["ref"] = ref
    cache, reps = {}, []
    for fu in c["followups"]:
        try:
            with numpy.errstate(all="ignore"):
                m2 = replay_route(fu["route"], mm, spec, cells_take(c, data, fu["rows"]), cache)
            o2 = mat_obs(m2, c["output"])
            o2["spec_same"] = repr(spec_obs(m2.model_spec)) == before
            reps.append(o2)
        except Exception as e:
            reps.append(dict(error=type(e).__name__, msg=str(e)[:200]))
    out["replays"] = reps
    out["edits"] = [None] * len(reps)
    out["state_unchanged"] = repr(spec_obs(spec)) == before
    return out


def cells_as_replay(c):
    """the case as the model sees it (a `replay` case): `hashed(v, levels=L)` is the categorical coding, over the
    nominated levels 0..L-1, of the column of per-cell buckets (md5 of the cell's own text, computed by the harness).
    None: outside the model (null cells are C06's; a hashed factor that does not span the intercept under
    ensure_full_rank has no counterpart among the model's categorical factors) — oracle only."""
    if any(v is None for v in c["g"]["vals"] + c["x"]["vals"]):
        return None
    hs = {src: sem for src, sem in c["atoms"].items() if sem["k"] == "hashed"}
    if c["efr"] and any(not sem["spans"] for sem in hs.values()):
        return None
    lv = sorted(set(c["a"]))
    cat = {"a": dict(levels=lv, codes=[lv.index(t) for t in c["a"]], declared=False)}
    atoms = {}
    for src, sem in c["atoms"].items():
        if sem["k"] == "hashed":
            name = f"__h{len(cat)}"
            cat[name] = dict(levels=list(range(sem["levels"])), codes=[cells_bucket(c, sem, i) for i in range(c["n"])], declared=False)
            atoms[src] = dict(k="cat", var=name, contrast=dict(c="treatment", base=None), viaC=True,
                              levels=[lab(k) for k in range(sem["levels"])])
        else:
            atoms[src] = sem
    return dict(kind="replay", n=c["n"], num={"x": [fs(v) for v in c["x"]["vals"]]}, cat=cat, train=c["train"],
                formula=c["formula"], atoms=atoms, efr=c["efr"], output=c["output"], cluster=False, followups=c["followups"])


def oracle_cells(c, o):
    fit = o.get("fit")
    if fit is None or "error" in fit:
        return None  # fitting is C02/C06/C12/C13's business; nothing to replay
    if any(not math.isfinite(v) for r in fit["rows"] for v in r):
        return None
    names, ref = fit["names"], o["ref"]
    for i, r in enumerate(ref):
        if "error" in r:
            return f"the one-row subset (training row {i}) raised {r['error']}: {r.get('msg', '')[:120]}"
        if r["names"] != names:
            return f"one-row subset (training row {i}): column names {r['names']} differ from the fitted {names}"
        if r["nrows"] > 1:
            return f"one-row subset (training row {i}) gave {r['nrows']} rows"
    kept = [i for i in c["train"] if ref[i]["nrows"] == 1]
    if fit["shape"][0] != len(kept):
        return (f"the fitted matrix has {fit['shape'][0]} rows, but {len(kept)} of the training rows yield a row when "
                f"replayed alone ({kept})")
    for k, i in enumerate(kept):
        if not _rows_close(ref[i]["row"], fit["rows"][k]):
            return (f"training row {i} (g={c['g']['vals'][i]!r} stored as {c['g']['storage']}, x={c['x']['vals'][i]!r} as "
                    f"{c['x']['storage']}, {c['container']}): replayed alone it gives {ref[i]['row']}, its row in the fitted "
                    f"matrix is {fit['rows'][k]} [an output row depends on the other rows of the column]")
    for k, (fu, rp) in enumerate(zip(c["followups"], o["replays"])):
        what = f"follow-up {k} via {fu['route']} on the subset {fu['rows']} of the training rows"
        if "error" in rp:
            return f"{what} raised {rp['error']}: {rp.get('msg', '')[:160]}"
        if rp["names"] != names:
            return f"{what}: column names {rp['names']} differ from the fitted {names}"
        want = [ref[i]["row"] for i in fu["rows"] if ref[i]["nrows"] == 1]
        if rp["shape"][0] != len(want):
            return f"{what}: {rp['shape'][0]} rows, the rows of the subset yield {len(want)}"
        if rp["shape"][1] != len(names):
            return f"{what}: {rp['shape'][1]} columns for {len(names)} names"
        for j, (ra, rb) in enumerate(zip(rp["rows"], want)):
            if not _rows_close(ra, rb):
                return f"{what}: output row {j} is {ra}, the corresponding row of the fitted matrix is {rb}"
        if not rp.get("spec_same", True):
            return f"{what}: the spec attached to the result differs from the fitted spec"
    if not o.get("state_unchanged", True):
        return "the recorded state of the spec changed during the follow-ups"
    return None


def cases(rng, tier):
    n = {"quick": 200, "thorough": 4000, "search": 120}[tier]
    for _ in range(n):
        c = gen_case(rng, tier)
        if rng.random() < 0.3:
            c["index"] = gen_index(rng, c["n"])
        if rng.random() < 0.1:
            c["output"] = None  # the materializer's default output (`_prepare_model_specs`)
        yield add_option_followups(rng, add_redeclared_followups(rng, c))
    for _ in range(max(40, n // 5)):
        yield add_option_followups(rng, add_redeclared_followups(rng, gen_index_case(rng, tier)))
    for _ in range(max(30, n // 6)):
        yield gen_dtype_case(rng, tier)
    for _ in range(max(30, n // 6)):
        yield gen_parts_case(rng, tier)
    for _ in range(max(40, n // 5)):
        yield gen_session_case(rng, tier)
    for _ in range(max(20, n // 6)):
        yield gen_dict_case(rng)
    for _ in range(max(12, n // 12)):
        yield gen_sparse_case(rng)
    for _ in range(max(60, n // 4)):
        yield gen_cells_case(rng, tier)


def describe(c):
    if c["kind"] == "cells":
        return f"cells:{c['container']},g={c['g']['storage']},x={c['x']['storage']}"
    if c["kind"] == "dict":
        return "dict-valued data"
    if c["kind"] == "sparse":
        return f"sparse matrix, {len(c['cols'])} column(s)"
    if c["kind"] == "parts":
        return "structured formula, nested stateful calls"
    if c["kind"] == "session":
        return "session:" + "".join(("S" if cl["strict"] else "s") + str(cl["spec"]) for cl in c["calls"])
    f = c["formula"]
    import re

    tags = [t for t in ("center", "scale", "standardize", "poly", "bs(", "cr(", "cs(", "cc(", "C(", "log", "exp") if t in f]
    if re.search(r"(center|scale|standardize)\(\s*(bs|cr|cs|cc)\(", f):
        tags.append("NESTED-DICT")
    if re.search(r"(center|scale|standardize)\(\s*poly\(", f):
        tags.append("NESTED-ARRAY")
    return ",".join(tags)[:80] or "plain"


def nontrivial(c):
    if c["kind"] == "cells":
        return True
    if c["kind"] == "dict":
        return len(c["cols"]) > 1
    if c["kind"] == "sparse":
        return True
    if c["kind"] == "session":
        return len({cl["spec"] for cl in c["calls"]}) > 1
    if c["kind"] == "parts":
        return any(fu["rows"] != c["train"] for fu in c["followups"])
    stateful = any(t in c["formula"] for t in ("center", "scale", "standardize", "poly", "bs(", "cr(", "cs(", "cc(")) or bool(c["cat"])
    return stateful and any(fu["rows"] != c["train"] for fu in c["followups"])


# ----------------------------------------------------------------------------- implementation side


def make_pool(c):
    cols = {}
    for k, v in c["num"].items():
        cols[k] = numpy.array([fl(x) for x in v], dtype=float)
    for k, ci in c["cat"].items():
        vals = [ci["levels"][i] for i in ci["codes"]]
        if ci["declared"]:
            cols[k] = pandas.Categorical(vals, categories=ci["levels"])
        else:
            cols[k] = pandas.Series(vals, dtype=object)
    df = pandas.DataFrame(cols)
    if c.get("index") is not None:
        df.index = pandas.Index(c["index"])  # row labels: never an input of the model (rows are positions)
    return df


def mat_obs(mm, output):
    spec = mm.model_spec
    if output == "pandas":
        names = [str(x) for x in mm.columns]
        arr = numpy.asarray(mm, dtype=float).reshape((len(mm), len(names)))
    else:
        names = [str(x) for x in spec.column_names]
        arr = mm.toarray() if hasattr(mm, "toarray") else numpy.asarray(mm)
        arr = numpy.asarray(arr, dtype=float)
        if arr.ndim != 2:
            arr = arr.reshape((arr.shape[0] if arr.ndim else 0, -1))
    return dict(names=names, rows=[[float(v) for v in r] for r in arr], shape=[int(arr.shape[0]), int(arr.shape[1])])


def _scale_state(st):
    out = {}
    for k in ("ddof", "center", "scale"):
        if k not in st:
            out[k] = "absent"
        elif st[k] is None:
            out[k] = None
        else:
            a = numpy.asarray(st[k], dtype=float)
            out[k] = float(a.item()) if a.ndim == 0 else "array"
    return out


def _field_cols(st, k):
    """one statistic of a scale-family state as a list per column (None: Python None; "absent"; a float: 0-d)"""
    if k not in st:
        return "absent"
    if st[k] is None:
        return None
    a = numpy.asarray(st[k], dtype=float)
    return float(a.item()) if a.ndim == 0 else [float(v) for v in a.ravel()]


def _is_arr_state(st):
    return any(isinstance(st.get(k), numpy.ndarray) and numpy.asarray(st[k]).ndim == 1 for k in ("center", "scale"))


def state_obs(st):
    """canonical form of one entry of transform_state"""
    if not isinstance(st, dict):
        return dict(kind="?")
    if ("ddof" in st or "center" in st or "scale" in st) and _is_arr_state(st):
        return dict(kind="arr", fields={k: _field_cols(st, k) for k in ("ddof", "center", "scale")})
    if "alpha" in st or "norms2" in st:
        al, n2 = st.get("alpha") or {}, st.get("norms2") or {}
        return dict(kind="poly", alpha=[float(al[k]) for k in sorted(al)], norms2=[float(n2[k]) for k in sorted(n2)])
    if "cyclic" in st:
        carr = st.get("constraints")
        return dict(kind="cs", lower=float(st["lower_bound"]), upper=float(st["upper_bound"]),
                    knots=[float(k) for k in st["knots"]], cyclic=bool(st["cyclic"]),
                    constraints=None if carr is None or isinstance(carr, str) else [[float(v) for v in r] for r in numpy.atleast_2d(carr)])
    if "knots" in st:
        return dict(kind="bs", lower=float(st["lower_bound"]), upper=float(st["upper_bound"]), knots=[float(k) for k in st["knots"]])
    if "ddof" in st or "center" in st or "scale" in st:
        return dict(kind="scale", state=_scale_state(st))
    if st and all(isinstance(v, dict) for v in st.values()):
        return dict(kind="keyed", states=[[str(k), _scale_state(v)] for k, v in st.items()])
    return dict(kind="empty") if not st else dict(kind="?")


def spec_obs(spec):
    return dict(
        structure=[
            dict(term=[f.expr for f in s.term.factors],
                 scoped=[dict(factors=[[sf.factor.expr, bool(sf.reduced)] for sf in st.factors], scale=fs(Fraction(st.scale)))
                         for st in s.scoped_terms],
                 columns=[str(x) for x in s.columns])
            for s in (spec.structure or [])
        ],
        tstate={k: state_obs(v) for k, v in spec.transform_state.items()},
        estate={k: [lab(x) for x in v[1].get("categories", [])] for k, v in spec.encoder_state.items() if "categories" in v[1]},
        output=spec.output,
    )


def _roots_of(st, out):
    if not isinstance(st, dict):
        return
    if "norms2" in st and st["norms2"]:
        with numpy.errstate(all="ignore"):
            out.extend(float(numpy.sqrt(v)) for v in st["norms2"].values())
    if "scale" in st and st["scale"] is not None:
        a = numpy.asarray(st["scale"], dtype=float)
        if a.ndim == 0:
            out.append(float(a))
        elif a.ndim == 1:
            out.extend(float(v) for v in a)
    for v in st.values():
        if isinstance(v, dict) and ("scale" in v or "center" in v):
            _roots_of(v, out)


def node_params(st):
    """external-routine results for one stateful call, from its recorded state"""
    import formulaic.transforms.cubic_spline as CS

    p = dict(quant=[], F=[], Q2=[])
    if not isinstance(st, dict):
        return p
    if "cyclic" in st and "knots" in st:
        knots = numpy.array(st["knots"], dtype=float)
        p["quant"] = [ffs(k) for k in st["knots"][1:-1]]
        with numpy.errstate(all="ignore"):
            F = CS._get_cyclic_f(knots) if st["cyclic"] else CS._get_natural_f(knots)
        p["F"] = [[ffs(v) for v in row] for row in numpy.asarray(F, dtype=float)]
        carr = st.get("constraints")
        if carr is not None and not isinstance(carr, str):
            carr = numpy.atleast_2d(numpy.asarray(carr, dtype=float))
            q, _ = numpy.linalg.qr(numpy.transpose(carr), mode="complete")
            p["Q2"] = [[ffs(v) for v in colv] for colv in q[:, carr.shape[0]:].T]
    elif "knots" in st:
        p["knots_all"] = [ffs(k) for k in st["knots"]]
    return p


def walk_calls(e, out):
    if not isinstance(e, dict):
        return
    if e.get("op") == "call":
        out.append(e)
    for k in ("a", "b"):
        if k in e:
            walk_calls(e[k], out)


def exact_value(e, data):
    """Fractions of a stateless exact expression on the pool (None when it is not one)"""
    if e["op"] == "col":
        return [Fraction(v) for v in data[e["v"]]]
    if e["op"] == "binc":
        a = exact_value(e["a"], data)
        if a is None:
            return None
        c = Fraction(e["c"])
        return [{"add": x + c, "sub": x - c, "mul": x * c}[e["f"]] for x in a]
    if e["op"] == "bin":
        a, b = exact_value(e["a"], data), exact_value(e["b"], data)
        if a is None or b is None:
            return None
        return [{"add": x + y, "sub": x - y, "mul": x * y}[e["f"]] for x, y in zip(a, b)]
    return None


def elem_table(c):
    from formulaic.transforms import TRANSFORMS

    tab = []

    def rec(e):
        if not isinstance(e, dict):
            return
        if e.get("op") == "elem":
            vals = exact_value(e["a"], c["num"])
            if vals is not None:
                with numpy.errstate(all="ignore"):
                    ys = TRANSFORMS[e["fn"]](numpy.array([float(v) for v in vals], dtype=float))
                for x, y in zip(vals, ys):
                    if math.isfinite(float(y)) and Fraction(float(x)) == x:
                        tab.append([e["fn"], fs(x), ffs(y)])
        for k in ("a", "b"):
            if k in e:
                rec(e[k])

    for sem in c["atoms"].values():
        if sem.get("k") == "num":
            rec(sem["e"])
    return tab


def route_spec(route, mm, spec, cache):
    """the spec object a route hands to the follow-up call"""
    if route in ("spec", "sugar", "mm", "overrides"):
        return spec
    if route == "pickle":
        if "spec" not in cache:
            cache["spec"] = pickle.loads(pickle.dumps(spec))
        return cache["spec"]
    if route == "pickle_mm":
        if "mm" not in cache:
            cache["mm"] = pickle.loads(pickle.dumps(mm))
        return cache["mm"].model_spec
    if route == "copy":
        _ = spec.column_names
        return copy.copy(spec)
    if route == "deepcopy":
        _ = spec.column_names
        return copy.deepcopy(spec)
    if route == "copy_mm":
        return copy.copy(mm).model_spec
    if route == "deepcopy_mm":
        return copy.deepcopy(mm).model_spec
    raise ValueError(route)


def apply_edit(sp, expr, op):
    """a hand-edited spec: the recorded categories of one categorical factor changed; returns (spec, new categories)"""
    st = dict(sp.encoder_state)
    kind, es = st[expr]
    cats = list(es["categories"])
    if op == "drop_last":
        new = cats[:-1]
    elif op == "drop_first":
        new = cats[1:]
    elif op == "keep_one":
        new = cats[:1]
    elif op == "reverse":
        new = cats[::-1]
    else:  # add a level
        new = cats + (["zzz"] if all(isinstance(x, str) for x in cats) else [max(cats) + 1])
    st[expr] = (kind, dict(es, categories=new))
    return sp.update(encoder_state=st), new


def redeclared(series, how, levels):
    """the same cell values, stored as a pandas Categorical over the same set of levels DECLARED in another order
    (or as plain text): nothing a replay may depend on"""
    vals = list(series)
    if how == "text":
        return pandas.Series(vals, index=series.index, dtype=object)
    if how == "sorted":  # re-read as text, then `.astype("category")`: categories sorted
        return pandas.Series(vals, index=series.index, dtype=object).astype("category")
    lv = list(levels)
    order = {"reversed": lv[::-1], "rotated": lv[1:] + lv[:1], "ordered_reversed": lv[::-1]}[how]
    return pandas.Series(pandas.Categorical(vals, categories=order, ordered=(how == "ordered_reversed")), index=series.index)


def followup_frame(c, fu, pool, twin=False):
    df = pool.iloc[fu["rows"]]
    if fu.get("redeclare"):
        df = df.copy()
        for col_, how in fu["redeclare"].items():
            ci = c["cat"][col_]
            # exactly the recorded set of levels (those of the training column) whenever the rows carry no other
            base = ci.get("train_levels") or ci["levels"]
            if any(v not in base for v in df[col_]):
                base = ci["levels"]
            df[col_] = redeclared(df[col_], "text" if twin else how, base)
    if fu.get("drop"):
        df = df.drop(columns=[fu["drop"]])
    if fu.get("swap"):
        col_ = fu["swap"]
        df = df.copy()
        if col_ in c["num"]:  # strings where numbers were
            df[col_] = pandas.Series([f"s{i}" for i in range(len(df))], index=df.index, dtype=object)
        else:  # numbers where categories were
            df[col_] = numpy.arange(len(df), dtype=float) + 100.5
    return df


def run_followup(c, fu, mm, spec, pool, cache, info, twin=False):
    from formulaic import model_matrix

    df = followup_frame(c, fu, pool, twin=twin)
    route = fu["route"]
    plain = not (fu.get("edit") or fu.get("output"))
    if plain and route == "sugar":
        return model_matrix(spec, df)
    if plain and route == "mm":
        return model_matrix(mm, df)
    if plain and route == "overrides":
        return spec.get_model_matrix(df, output=spec.output)
    sp = route_spec(route, mm, spec, cache)
    if fu.get("edit"):
        sp, new = apply_edit(sp, info["exprs"][fu["edit"]["src"]], fu["edit"]["op"])
        info["edits"].append([lab(x) for x in new])
    else:
        info["edits"].append(None)
    kw = {"output": fu["output"]} if fu.get("output") else {}
    return sp.get_model_matrix(df, **kw)


def replay_route(route, mm, spec, df, cache):
    from formulaic import model_matrix

    if route == "spec":
        return spec.get_model_matrix(df)
    if route == "sugar":
        return model_matrix(spec, df)
    if route == "mm":
        return model_matrix(mm, df)
    if route == "pickle":
        if "spec" not in cache:
            cache["spec"] = pickle.loads(pickle.dumps(spec))
        return cache["spec"].get_model_matrix(df)
    if route == "pickle_mm":
        if "mm" not in cache:
            cache["mm"] = pickle.loads(pickle.dumps(mm))
        return cache["mm"].model_spec.get_model_matrix(df)
    if route == "copy":
        _ = spec.column_names  # a cached property in the instance __dict__: must not travel with the copy
        return copy.copy(spec).get_model_matrix(df)
    if route == "deepcopy":
        _ = spec.column_names
        return copy.deepcopy(spec).get_model_matrix(df)
    if route == "copy_mm":  # ModelMatrix.__copy__: the wrapped matrix is copied, the spec is shared
        return copy.copy(mm).model_spec.get_model_matrix(df)
    if route == "deepcopy_mm":  # ModelMatrix.__deepcopy__: deep copy of the spec
        return copy.deepcopy(mm).model_spec.get_model_matrix(df)
    if route == "overrides":  # get_model_matrix(**attr_overrides): spec.update(...) first (dataclasses.replace)
        return spec.get_model_matrix(df, output=spec.output)
    raise ValueError(route)


def _tr_call(tr):
    """the real callable and keyword arguments of a scale-family transform description"""
    from formulaic.transforms import TRANSFORMS

    def arg(a):
        return a if isinstance(a, bool) else fl(a)

    return TRANSFORMS["scale"], dict(center=arg(tr["center"]), scale=arg(tr["scale"]), ddof=fl(tr["ddof"]))


def _dict_state(st):
    return [[str(k), _scale_state(v)] for k, v in st.items()]


def impl_dict(c):
    f, kw = _tr_call(c["tr"])
    data = {k: numpy.array([fl(v) for v in colv], dtype=float) for k, colv in c["cols"]}
    st = {}
    try:
        with numpy.errstate(all="ignore"):
            res = f(data, _state=st, **kw)
    except Exception as e:
        return dict(fit=dict(error=type(e).__name__, msg=str(e)[:200]))
    out = dict(fit=dict(res=[[str(k), [float(v) for v in numpy.asarray(a, dtype=float)]] for k, a in res.items()],
                        state=_dict_state(st), plain_dict=type(res) is dict))
    roots = []
    for v in st.values():
        _roots_of(v, roots)
    out["roots"] = [ffs(r) for r in roots if math.isfinite(r)]
    reps = []
    for rows in c["followups"]:
        d2 = {k: a[rows] for k, a in data.items()}
        st2 = copy.deepcopy(st)
        try:
            with numpy.errstate(all="ignore"):
                r2 = f(d2, _state=st2, **kw)
            reps.append(dict(res=[[str(k), [float(v) for v in numpy.asarray(a, dtype=float)]] for k, a in r2.items()],
                             state=_dict_state(st2)))
        except Exception as e:
            reps.append(dict(error=type(e).__name__))
    out["replays"] = reps
    return out


def _fit_obs(c, atoms, fit, pool):
    """fit one formula; returns (mm | None, observables incl. the parser / normaliser parameters of the atoms used)"""
    from formulaic import Formula, model_matrix
    from formulaic.utils.code import format_expr

    out = {}
    try:
        out["terms"] = [[dict(x=f.expr, m=f.eval_method.value) for f in t.factors] for t in Formula(fit["formula"])]
    except Exception as e:
        return None, dict(error="formula:" + type(e).__name__, msg=str(e)[:200])
    try:
        with numpy.errstate(all="ignore"):
            mm = model_matrix(fit["formula"], pool.iloc[fit["train"]], ensure_full_rank=fit["efr"], output=fit["output"],
                              cluster_by="numerical_factors" if fit["cluster"] else "none")
    except Exception as e:
        return None, dict(out, fit=dict(error=type(e).__name__, msg=str(e)[:300]))
    spec = mm.model_spec
    out["terms"] = [[dict(x=f.expr, m=f.eval_method.value) for f in t.factors] for t in spec.formula]
    fo = mat_obs(mm, fit["output"])
    fo["spec"] = spec_obs(spec)
    out["fit"] = fo
    roots = []
    for st in spec.transform_state.values():
        _roots_of(st, roots)
    out["roots"] = [ffs(r) for r in roots if math.isfinite(r)]
    out["params"] = {k: node_params(st) for k, st in spec.transform_state.items()}
    return mm, out


def impl_session(c):
    from formulaic import Formula
    from formulaic.errors import DataMismatchWarning
    from formulaic.materializers import PandasMaterializer
    from formulaic.utils.code import format_expr

    warnings.simplefilter("ignore")
    pool = make_pool(c)
    out = {}
    exprs = {}
    for src in c["atoms"]:
        try:
            exprs[src] = list(Formula("0 + " + src))[0].factors[0].expr
        except Exception as e:
            return dict(error="atom:" + type(e).__name__, msg=str(e)[:200])
    out["exprs"] = exprs
    calls_ = []
    for sem in c["atoms"].values():
        if sem.get("k") == "num":
            walk_calls(sem["e"], calls_)
    out["norm"] = sorted({(e["text"], format_expr(e["text"])) for e in calls_})
    out["elem"] = elem_table(c)
    mms, fits = [], []
    for fit in c["fits"]:
        mm, fo = _fit_obs(c, c["atoms"], fit, pool)
        mms.append(mm)
        fits.append(fo)
    out["fits"] = fits
    if any(m is None for m in mms):
        return out
    data = pool.iloc[c["rows"]]
    if c.get("dropcol"):
        data = data.drop(columns=[c["dropcol"]])
    specs = [m.model_spec for m in mms]
    before = [repr(spec_obs(sp)) for sp in specs]

    def one(fn, cl):
        with warnings.catch_warnings():
            warnings.simplefilter("ignore")
            if cl["strict"]:
                warnings.simplefilter("error", DataMismatchWarning)
            try:
                with numpy.errstate(all="ignore"):
                    m2 = fn()
                o2 = mat_obs(m2, c["fits"][cl["spec"]]["output"])
                o2["spec"] = spec_obs(m2.model_spec)
                return o2
            except BaseException as e:  # a Warning raised as an error is an Exception as well
                if isinstance(e, (KeyboardInterrupt, SystemExit)) or type(e).__name__ == "CaseTimeout":
                    raise
                return dict(error=type(e).__name__, msg=str(e)[:200])

    mat = specs[0].get_materializer(data) if c["via"] == "get_materializer" else PandasMaterializer(data)
    hist, fresh = [], []
    for cl in c["calls"]:
        sp = specs[cl["spec"]]
        hist.append(one(lambda: mat.get_model_matrix(sp), cl))
        fresh.append(one(lambda: sp.get_model_matrix(data), cl))
    out["calls"] = hist
    out["fresh"] = fresh
    out["state_unchanged"] = [repr(spec_obs(sp)) == b for sp, b in zip(specs, before)]
    return out


def impl_sparse(c):
    import scipy.sparse as spsparse

    f, kw = _tr_call(c["tr"])
    dense = numpy.array([[fl(v) for v in colv] for colv in c["cols"]], dtype=float).T
    st = {}

    def one(rows, state):
        try:
            with numpy.errstate(all="ignore"):
                r = f(spsparse.csc_matrix(dense[rows]), _state=state, **kw)
            a = numpy.asarray(r, dtype=float)
            return dict(res=[float(v) for v in a.ravel()], ndim=int(a.ndim), state=_scale_state(state))
        except Exception as e:
            return dict(error=type(e).__name__, msg=str(e)[:120], state=_scale_state(state))

    out = dict(fit=one(list(range(c["n"])), st))
    roots = []
    _roots_of(st, roots)
    out["roots"] = [ffs(r) for r in roots if math.isfinite(r)]
    out["replays"] = [one(rows, copy.deepcopy(st)) for rows in c["followups"]]
    return out


def stateful_keys_of(expr):
    """the transform_state keys of the stateful calls that occur in a factor expression, nested ones included (found in
    the Python syntax tree of the expression, independently of the library's own walk)"""
    import ast

    from formulaic.transforms import TRANSFORMS
    from formulaic.utils.code import format_expr

    keys = []
    try:
        tree = ast.parse(expr, mode="eval")
    except SyntaxError:
        return keys
    for node in ast.walk(tree):
        if isinstance(node, ast.Call):
            f = TRANSFORMS.get(ast.unparse(node.func))
            if getattr(f, "__is_stateful_transform__", False):
                keys.append(format_expr(node).replace('"', r'\\\\"'))
    return sorted(set(keys))


def impl_parts(c):
    from formulaic import Formula, model_matrix
    from formulaic.utils.code import format_expr

    warnings.simplefilter("ignore")
    pool = make_pool(c)
    out = {}
    exprs = {}
    for src in c["atoms"]:
        try:
            exprs[src] = list(Formula("0 + " + src))[0].factors[0].expr
        except Exception as e:
            return dict(error="atom:" + type(e).__name__, msg=str(e)[:200])
    out["exprs"] = exprs
    calls_ = []
    for sem in c["atoms"].values():
        if sem.get("k") == "num":
            walk_calls(sem["e"], calls_)
    out["norm"] = sorted({(e["text"], format_expr(e["text"])) for e in calls_})
    out["elem"] = elem_table(c)
    outp = c["output"] or "pandas"
    try:
        with numpy.errstate(all="ignore"):
            mms = model_matrix(c["formula"], pool.iloc[c["train"]], ensure_full_rank=c["efr"], output=c["output"])
    except Exception as e:
        return dict(out, fit=dict(error=type(e).__name__, msg=str(e)[:300]))
    specs = mms.model_spec
    flat_m = list(mms._flatten())
    flat_s = list(specs._flatten())

    def part_obs(m, sp):
        o = mat_obs(m, outp)
        o["spec"] = spec_obs(sp)
        o["tstate_keys"] = sorted(sp.transform_state)
        o["expected_keys"] = sorted({k for t in sp.formula for f in t.factors for k in stateful_keys_of(f.expr)})
        return o

    out["terms"] = [[[dict(x=f.expr, m=f.eval_method.value) for f in t.factors] for t in sp.formula] for sp in flat_s]
    out["fit"] = dict(parts=[part_obs(m, sp) for m, sp in zip(flat_m, flat_s)])
    roots = []
    for sp in flat_s:
        for st in sp.transform_state.values():
            _roots_of(st, roots)
    out["roots"] = [ffs(r) for r in roots if math.isfinite(r)]
    params = {}
    for sp in flat_s:
        for k, st in sp.transform_state.items():
            params.setdefault(k, node_params(st))
    out["params"] = params
    before = [repr(spec_obs(sp)) for sp in flat_s]

    def replay(rows, part, pickled):
        df = pool.iloc[rows]
        ss = pickle.loads(pickle.dumps(specs)) if pickled else specs
        with numpy.errstate(all="ignore"):
            if part is None:
                r = ss.get_model_matrix(df)
                return [part_obs(m, m.model_spec) for m in r._flatten()]
            sp = list(ss._flatten())[part]
            m = sp.get_model_matrix(df)
            return [part_obs(m, m.model_spec)]

    ref = []
    for i in range(c["n"]):
        try:
            ref.append(dict(parts=[dict(names=p["names"], row=p["rows"][0] if p["rows"] else None, nrows=p["shape"][0])
                                   for p in replay([i], None, False)]))
        except Exception as e:
            ref.append(dict(error=type(e).__name__, msg=str(e)[:120]))
    out["ref"] = ref
    reps = []
    for fu in c["followups"]:
        part = fu["part"]
        if part is not None and part >= len(flat_s):
            part = len(flat_s) - 1
        try:
            reps.append(dict(part=part, parts=replay(fu["rows"], part, fu["pickle"])))
        except Exception as e:
            reps.append(dict(part=part, error=type(e).__name__, msg=str(e)[:200]))
    out["replays"] = reps
    out["state_unchanged"] = [repr(spec_obs(sp)) == b for sp, b in zip(flat_s, before)]
    return out


def impl(c):
    if c["kind"] == "cells":
        return impl_cells(c)
    if c["kind"] == "parts":
        return impl_parts(c)
    if c["kind"] == "dict":
        return impl_dict(c)
    if c["kind"] == "sparse":
        return impl_sparse(c)
    if c["kind"] == "session":
        return impl_session(c)
    from formulaic import Formula, model_matrix
    from formulaic.utils.code import format_expr

    warnings.simplefilter("ignore")
    pool = make_pool(c)
    out = {}
    # parser / normaliser parameters: the factor expression of every atom, the key of every stateful call
    exprs = {}
    for src in c["atoms"]:
        try:
            exprs[src] = list(Formula("0 + " + src))[0].factors[0].expr
        except Exception as e:
            return dict(error="atom:" + type(e).__name__, msg=str(e)[:200])
    out["exprs"] = exprs
    calls = []
    for sem in c["atoms"].values():
        if sem.get("k") == "num":
            walk_calls(sem["e"], calls)
    out["norm"] = sorted({(e["text"], format_expr(e["text"])) for e in calls})
    out["elem"] = elem_table(c)
    train = pool.iloc[c["train"]]
    try:
        out["terms"] = [[dict(x=f.expr, m=f.eval_method.value) for f in t.factors] for t in Formula(c["formula"])]
    except Exception as e:
        return dict(error="formula:" + type(e).__name__, msg=str(e)[:200])
    try:
        with numpy.errstate(all="ignore"):
            mm = model_matrix(c["formula"], train, ensure_full_rank=c["efr"], output=c["output"],
                              cluster_by="numerical_factors" if c["cluster"] else "none")
    except Exception as e:
        return dict(out, fit=dict(error=type(e).__name__, msg=str(e)[:300]))
    spec = mm.model_spec
    out["terms"] = [[dict(x=f.expr, m=f.eval_method.value) for f in t.factors] for t in spec.formula]
    fit = mat_obs(mm, c["output"] or "pandas")
    fit["spec"] = spec_obs(spec)
    out["fit"] = fit
    roots = []
    for st in spec.transform_state.values():
        _roots_of(st, roots)
    out["roots"] = [ffs(r) for r in roots if math.isfinite(r)]
    out["params"] = {k: node_params(st) for k, st in spec.transform_state.items()}
    before = repr(spec_obs(spec))
    dict_keys_before = sorted(spec.__dict__)
    # reference rows: the one-row frame of every pool row
    ref = []
    for i in range(c["n"]):
        try:
            with numpy.errstate(all="ignore"):
                r = mat_obs(spec.get_model_matrix(pool.iloc[[i]]), c["output"] or "pandas")
            ref.append(dict(names=r["names"], row=r["rows"][0] if r["rows"] else None, nrows=r["shape"][0]))
        except Exception as e:
            ref.append(dict(error=type(e).__name__))
    out["ref"] = ref
    cache = {}
    reps = []
    info = dict(exprs=exprs, edits=[])
    for fu in c["followups"]:
        n_ed = len(info["edits"])
        try:
            with numpy.errstate(all="ignore"):
                m2 = run_followup(c, fu, mm, spec, pool, cache, info)
            o2 = mat_obs(m2, fu.get("output") or c["output"] or "pandas")
            o2["spec_same"] = repr(spec_obs(m2.model_spec)) == before
            if fu.get("redeclare"):
                # dtype-blind twin: the same cell values with the categorical columns given as plain text
                try:
                    with numpy.errstate(all="ignore"):
                        t2 = run_followup(c, dict(fu, route="spec"), mm, spec, pool, {}, dict(exprs=exprs, edits=[]), twin=True)
                    o2["twin"] = mat_obs(t2, fu.get("output") or c["output"] or "pandas")
                except Exception as e:
                    o2["twin"] = dict(error=type(e).__name__, msg=str(e)[:200])
            reps.append(o2)
        except Exception as e:
            reps.append(dict(error=type(e).__name__, msg=str(e)[:200]))
        if len(info["edits"]) == n_ed:
            info["edits"].append(None)
    out["replays"] = reps
    out["edits"] = info["edits"]
    out["state_unchanged"] = repr(spec_obs(spec)) == before
    # which attributes of the instance survive pickling
    try:
        _ = spec.column_names, spec.column_indices, spec.term_indices
        restored = pickle.loads(pickle.dumps(spec))
        out["pickle_keys"] = dict(before=list(spec.__dict__), after=sorted(restored.__dict__),
                                  after_copy=sorted(copy.copy(spec).__dict__),
                                  after_deepcopy=sorted(copy.deepcopy(spec).__dict__),
                                  getstate=list(spec.__getstate__()),
                                  fields=sorted(type(spec).__dataclass_fields__))
    except Exception as e:
        out["pickle_keys"] = dict(error=type(e).__name__ + ": " + str(e)[:100])
    return out


# ----------------------------------------------------------------------------- request


def cell_json(v):
    return {"null": True} if v is None else lab(v)


def fill_params(e, o):
    """attach the external-routine results to every call node (keyed by the normalised call text)"""
    from_norm = dict(o.get("norm", []))

    def rec(x):
        if not isinstance(x, dict):
            return x
        y = dict(x)
        for k in ("a", "b"):
            if k in y:
                y[k] = rec(y[k])
        if y.get("op") == "call":
            key = from_norm.get(y["text"], y["text"])
            p = dict(o.get("params", {}).get(key) or dict(quant=[], F=[], Q2=[]))
            if "knots_all" in p:
                d = y["tr"].get("degree", 3)
                ka = p.pop("knots_all")
                p["quant"] = ka[d + 1: len(ka) - d - 1]
            y["params"] = p
        return y

    return rec(e)


def _env_json(c, o, fo):
    """factor semantics with the external-routine results of ONE fit attached to the call nodes"""
    by_expr = {}
    view = dict(norm=o.get("norm", []), params=fo.get("params", {}))
    for src, sem in c["atoms"].items():
        s2 = dict(sem)
        if s2.get("k") == "num":
            s2["e"] = fill_params(s2["e"], view)
        by_expr[o["exprs"][src]] = s2
    for t in fo.get("terms", []):
        for f in t:
            if f["m"] == "literal":
                by_expr.setdefault(f["x"], dict(k="lit", v=fs(Fraction(f["x"]))))
    return [dict(expr=expr, sem=sem) for expr, sem in by_expr.items()]


def request_session(c, o):
    if "harness_exception" in o or "error" in o or any("fit" not in fo or "error" in fo["fit"] for fo in o.get("fits", [{}])):
        return dict(op="noop")
    columns = [k for k in list(c["num"]) + list(c["cat"]) if k != c.get("dropcol")]
    allcols = list(c["num"]) + list(c["cat"])
    pool = []
    for i in range(c["n"]):
        row = [c["num"][k][i] for k in c["num"]]
        for k, ci in c["cat"].items():
            row.append(cell_json(ci["levels"][ci["codes"][i]]))
        pool.append(row)
    roots = sorted({r for fo in o["fits"] for r in fo.get("roots", [])})
    declared = [[k, [lab(x) for x in ci["levels"]]] for k, ci in c["cat"].items() if ci["declared"]]
    common_ = dict(norm=[list(p) for p in o.get("norm", [])], elem=o.get("elem", []), roots=roots)
    fits = []
    for fit, fo in zip(c["fits"], o["fits"]):
        fits.append(dict(terms=[[f["x"] for f in t] for t in fo["terms"]], efr=fit["efr"], output=fit["output"],
                         cluster=fit["cluster"], train=fit["train"], factors=_env_json(c, o, fo), **common_))
    # the semantics used during the history: a replay reads recorded state only (no quantile routine); formulas of this
    # stream contain no cr/cc (whose replay would need F / Q2 per recorded knot vector)
    merged = {}
    for ft in fits:
        for fj in ft["factors"]:
            merged.setdefault(fj["expr"], fj)
    return dict(op="session", columns=allcols, present=columns, pool=pool, declared=declared, fits=fits,
                factors=list(merged.values()), rows=c["rows"], calls=c["calls"], **common_)


def _fu_json(c, o, k, fu):
    d = dict(rows=fu["rows"], pickle=fu["route"] in GETSTATE_ROUTES)
    if fu.get("output"):
        d["output"] = fu["output"]
    if fu.get("drop"):
        d["drop"] = fu["drop"]
    if fu.get("swap"):
        d["swap"] = fu["swap"]
    ed = (o.get("edits") or [None] * (k + 1))[k] if k < len(o.get("edits") or []) else None
    if fu.get("edit") and ed is not None:
        d["edit"] = dict(factor=o["exprs"][fu["edit"]["src"]], categories=ed)
    elif fu.get("edit"):
        d["edit_failed"] = True
    return d


def request_parts(c, o):
    if "harness_exception" in o or "error" in o or "terms" not in o or "error" in o.get("fit", {}):
        return dict(op="noop")
    columns = list(c["num"]) + list(c["cat"])
    pool = []
    for i in range(c["n"]):
        row = [c["num"][k][i] for k in c["num"]]
        for k, ci in c["cat"].items():
            row.append(cell_json(ci["levels"][ci["codes"][i]]))
        pool.append(row)
    fo = dict(params=o.get("params", {}), terms=[t for part in o["terms"] for t in part])
    fus = []
    nparts = len(o["terms"])
    for fu in c["followups"]:
        part = fu["part"]
        if part is not None and part >= nparts:
            part = nparts - 1
        fus.append(dict(rows=fu["rows"], part=part, pickle=fu["pickle"]))
    return dict(op="parts", columns=columns, pool=pool,
                declared=[[k, [lab(x) for x in ci["levels"]]] for k, ci in c["cat"].items() if ci["declared"]],
                factors=_env_json(c, o, fo), norm=[list(p) for p in o.get("norm", [])], elem=o.get("elem", []),
                roots=o.get("roots", []), parts=[[[f["x"] for f in t] for t in part] for part in o["terms"]],
                efr=c["efr"], output=c["output"], cluster=c["cluster"], train=c["train"], followups=fus)


def request(c, o):
    if c["kind"] == "cells":
        c2 = cells_as_replay(c)
        if c2 is None or "harness_exception" in o or "error" in o.get("fit", {"error": 1}):
            return dict(op="noop")
        return request(c2, o)
    if c["kind"] == "parts":
        return request_parts(c, o)
    if c["kind"] == "sparse":
        return dict(op="sparse", tr=c["tr"], roots=o.get("roots", []), cols=c["cols"], followups=c["followups"])
    if c["kind"] == "session":
        return request_session(c, o)
    if c["kind"] == "dict":
        return dict(op="dict", tr=c["tr"], roots=o.get("roots", []),
                    cols=[[dict(t=str(k), s=isinstance(k, str)), colv] for k, colv in c["cols"]],
                    followups=c["followups"])
    if "harness_exception" in o or "error" in o or "terms" not in o:
        return dict(op="noop", columns=[], pool=[], train=[], followups=[], terms=[], factors=[], norm=[], elem=[], roots=[])
    columns = list(c["num"]) + list(c["cat"])
    pool = []
    for i in range(c["n"]):
        row = [c["num"][k][i] for k in c["num"]]
        for k, ci in c["cat"].items():
            row.append(cell_json(ci["levels"][ci["codes"][i]]))
        pool.append(row)
    by_expr = {}
    for src, sem in c["atoms"].items():
        s = dict(sem)
        if s.get("k") == "num":
            s["e"] = fill_params(s["e"], o)
        by_expr[o["exprs"][src]] = s
    factors = []
    for t in o["terms"]:
        for f in t:
            if f["m"] == "literal":
                by_expr.setdefault(f["x"], dict(k="lit", v=fs(Fraction(f["x"]))))
    for expr, sem in by_expr.items():
        factors.append(dict(expr=expr, sem=sem))
    return dict(
        op="replay", columns=columns, pool=pool, train=c["train"],
        declared=[[k, [lab(x) for x in ci["levels"]]] for k, ci in c["cat"].items() if ci["declared"]],
        followups=[_fu_json(c, o, k, fu) for k, fu in enumerate(c["followups"])],
        terms=[[f["x"] for f in t] for t in o["terms"]],
        factors=factors, norm=[list(p) for p in o.get("norm", [])], elem=o.get("elem", []), roots=o.get("roots", []),
        efr=c["efr"], output=c["output"], cluster=c["cluster"],
        inst_keys=(o.get("pickle_keys") or {}).get("before", []),
    )


# ----------------------------------------------------------------------------- model vs implementation


def _skip(err):
    return isinstance(err, str) and (err.startswith("not-modelled") or err == "nonfinite")


def _cmp_matrix(io, mo, what):
    mn = [e["name"] for e in mo["columns"]]
    if io["names"] != mn:
        return f"{what}: column names {io['names']} vs model {mn}"
    ncols = len(mn)
    for j, e in enumerate(mo["columns"]):
        if len(e["values"]) != io["shape"][0]:
            return f"{what}: column {e['name']} has {io['shape'][0]} rows vs model {len(e['values'])}"
        # a cell that is an exact 0 in the model (cancellation inside a spline basis) times large factors comes out of
        # float arithmetic as dust proportional to the COLUMN's magnitude: the tolerance is relative to the larger of
        # the cell and 1e-7 of the column's largest entry (seen in a thorough run: -1.7e-9 vs 0 in a column of 4e13)
        colmax = max([abs(fl(v)) for v in e["values"]] or [0.0])
        for i, v in enumerate(e["values"]):
            a = io["rows"][i][j]
            if not (isinstance(a, float) and math.isfinite(a)) or not (
                close(a, fl(v)) or abs(a - fl(v)) <= TOL * 1e-7 * colmax
            ):
                return f"{what}: [{i}, {e['name']}] = {a!r} vs model {fl(v)!r}"
    if io["shape"][1] != ncols:
        return f"{what}: {io['shape'][1]} columns vs model {ncols}"
    return None


def _cmp_scale_state(a, b, what, keys=("ddof", "center", "scale")):
    for k in keys:
        u, v = a.get(k), b.get(k)
        if isinstance(u, str) or isinstance(v, str) and v == "absent":
            if u != v:
                return f"{what}[{k}]: {u!r} vs model {v!r}"
            continue
        if (u is None) != (v is None):
            return f"{what}[{k}]: {u!r} vs model {v!r}"
        if u is not None and not close(float(u), fl(v)):
            return f"{what}[{k}]: {u!r} vs model {fl(v)!r}"
    return None


def _cmp_arr_state(fields, states, what):
    """numpy's arrays of statistics (or 0-d / None / absent, which apply to every column) against the model's
    one state per column"""
    for k in ("ddof", "center", "scale"):
        u = fields.get(k)
        if isinstance(u, list) and len(u) != len(states):
            return f"{what}[{k}]: {len(u)} recorded entries vs model {len(states)} columns"
        for j, stj in enumerate(states):
            uj = u[j] if isinstance(u, list) else u
            w = _cmp_scale_state({k: uj}, {k: stj.get(k)}, f"{what}[column {j}]", keys=(k,))
            if w:
                return w
    return None


def _cmp_list(a, b, what):
    if len(a) != len(b):
        return f"{what}: length {len(a)} vs model {len(b)}"
    for i, (u, v) in enumerate(zip(a, b)):
        if not close(float(u), fl(v)):
            return f"{what}[{i}]: {u!r} vs model {fl(v)!r}"
    return None


def _cmp_spec(isp, msp, what):
    ms = [dict(term=s["term"], scoped=[dict(factors=st["factors"], scale=fs(Fraction(st["scale"]))) for st in s["scoped"]],
               columns=s["columns"]) for s in (msp["structure"] or [])]
    if ms != isp["structure"]:
        return f"{what}: structure differs: model {ms} vs impl {isp['structure']}"
    mt = {k: v for k, v in msp["tstate"]}
    if sorted(mt) != sorted(isp["tstate"]):
        return f"{what}: transform_state keys {sorted(isp['tstate'])} vs model {sorted(mt)}"
    for k, a in isp["tstate"].items():
        b = mt[k]
        if a["kind"] == "empty":
            continue  # a transform that records nothing (poly raw): `{}`
        if b["kind"] == "arr" and a["kind"] in ("arr", "scale"):
            # a 2-D argument: numpy records arrays (or 0-d values that apply to every column)
            fields = a["fields"] if a["kind"] == "arr" else a["state"]
            w = _cmp_arr_state(fields, b["states"], f"{what}: state[{k}]")
            if w:
                return w
            continue
        if a["kind"] != b["kind"]:
            return f"{what}: state of {k} is {a['kind']} vs model {b['kind']}"
        if a["kind"] == "scale":
            w = _cmp_scale_state(a["state"], b["state"], f"{what}: state[{k}]")
        elif a["kind"] == "keyed":
            w = None
            if [x[0] for x in a["states"]] != [x[0] for x in b["states"]]:
                w = f"{what}: nested keys of {k}: {[x[0] for x in a['states']]} vs model {[x[0] for x in b['states']]}"
            for x, y in zip(a["states"], b["states"]):
                w = w or _cmp_scale_state(x[1], y[1], f"{what}: state[{k}][{x[0]}]")
        elif a["kind"] == "poly":
            w = _cmp_list(a["alpha"], b["alpha"] or [], f"{what}: state[{k}].alpha") or \
                _cmp_list(a["norms2"], b["norms2"] or [], f"{what}: state[{k}].norms2")
        else:
            w = None
            for kk in ("lower", "upper"):
                if not close(a[kk], fl(b[kk])):
                    w = f"{what}: state[{k}].{kk}: {a[kk]} vs model {fl(b[kk])}"
            w = w or _cmp_list(a["knots"], b["knots"], f"{what}: state[{k}].knots")
            if a["kind"] == "cs":
                if (a["constraints"] is None) != (b["constraints"] is None):
                    w = w or f"{what}: state[{k}].constraints present on one side only"
                elif a["constraints"] is not None:
                    for r1, r2 in zip(a["constraints"], b["constraints"]):
                        w = w or _cmp_list(r1, r2, f"{what}: state[{k}].constraints")
        if w:
            return w
    me = {k: v for k, v in msp["estate"]}
    if me != isp["estate"]:
        return f"{what}: encoder categories {isp['estate']} vs model {me}"
    return None


def _cmp_dict_result(a, b, what, visible_only=False):
    if [x[0] for x in a["res"]] != [x[0]["t"] for x in b["res"]]:
        return f"{what}: result keys {[x[0] for x in a['res']]} vs model {[x[0]['t'] for x in b['res']]}"
    for (k, u), (_, v) in zip(a["res"], b["res"]):
        w = _cmp_list(u, v, f"{what}: result[{k}]")
        if w:
            return w
    if [x[0] for x in a["state"]] != [x[0]["t"] for x in b["state"]]:
        return f"{what}: state keys {[x[0] for x in a['state']]} vs model {[x[0]['t'] for x in b['state']]}"
    for (k, u), (_, v) in zip(a["state"], b["state"]):
        w = _cmp_scale_state(u, v, f"{what}: state[{k}]")
        if w:
            return w
    return None


def agree_dict(c, o, m):
    of, mf = o.get("fit", {}), m.get("fit", {})
    if "error" in mf and _skip(mf["error"]):
        return None
    if "error" in of or "error" in mf:
        return None if of.get("error") == mf.get("error") else f"fit: implementation {of.get('error', 'ok')} vs model {mf.get('error', 'ok')}"
    if any(not math.isfinite(v) for _, colv in of["res"] for v in colv):
        return None  # zero variance: nan, outside the model
    w = _cmp_dict_result(of, mf, "fit")
    if w:
        return w
    for i, (io, mo) in enumerate(zip(o["replays"], m["replays"])):
        if "error" in mo and _skip(mo["error"]):
            continue
        if "error" in io or "error" in mo:
            if io.get("error") != mo.get("error"):
                return f"follow-up {i}: implementation {io.get('error', 'ok')} vs model {mo.get('error', 'ok')}"
            continue
        w = _cmp_dict_result(io, mo, f"follow-up {i}")
        if w:
            return w
    return None


def agree_session(c, o, m):
    if "error" in o or "fits" not in o:
        return None
    if any("fit" not in fo or "error" in fo.get("fit", {}) for fo in o["fits"]):
        return None  # nothing fitted, nothing to replay
    if "fits" not in m:
        return "model returned no fits: " + str(m)[:200]
    for j, (fo, mf) in enumerate(zip(o["fits"], m["fits"])):
        if "error" in mf:
            if _skip(mf["error"]):
                return None
            return f"fit {j}: implementation ok vs model {mf['error']}"
        w = _cmp_matrix(fo["fit"], mf, f"fit {j}") or _cmp_spec(fo["fit"]["spec"], mf["spec"], f"fit {j}")
        if w:
            return w
    if len(m["calls"]) != len(o["calls"]):
        return f"model answered {len(m['calls'])} calls of {len(o['calls'])}"
    for k, (cl, io, mo) in enumerate(zip(c["calls"], o["calls"], m["calls"])):
        what = f"call {k} (spec {cl['spec']}{', warnings as errors' if cl['strict'] else ''}) of the history on one materializer"
        if "error" in mo and _skip(mo["error"]):
            continue
        if "error" in io or "error" in mo:
            if io.get("error") != mo.get("error"):
                return f"{what}: implementation {io.get('error', 'ok')} ({io.get('msg', '')[:100]}) vs model {mo.get('error', 'ok')}"
            continue
        w = _cmp_matrix(io, mo, what) or _cmp_spec(o["fits"][cl["spec"]]["fit"]["spec"], mo["spec"], what + " spec afterwards")
        if w:
            return w
    return None


def _same_obs(a, b):
    if ("error" in a) != ("error" in b):
        return False
    if "error" in a:
        return a["error"] == b["error"]
    if a["names"] != b["names"] or a["shape"] != b["shape"]:
        return False
    for r1, r2 in zip(a["rows"], b["rows"]):
        for u, v in zip(r1, r2):
            if (math.isfinite(u) != math.isfinite(v)) or (math.isfinite(u) and abs(u - v) > ORACLE_TOL * max(1.0, abs(u), abs(v))):
                return False
    return a.get("spec") == b.get("spec")


def oracle_session(c, o):
    if "error" in o or "calls" not in o:
        return None
    for k, (cl, h, f) in enumerate(zip(c["calls"], o["calls"], o["fresh"])):
        if not _same_obs(h, f):
            prev = [f"spec {p['spec']}: {'raised ' + q['error'] if 'error' in q else 'ok'}" for p, q in zip(c["calls"][:k], o["calls"][:k])]
            return (f"call {k} (spec {cl['spec']}) on the reused materializer object gave "
                    f"{'error ' + h['error'] if 'error' in h else 'a matrix'} but the same call on a new object gave "
                    f"{'error ' + f['error'] if 'error' in f else 'a different matrix' if 'error' not in h else 'a matrix'}; "
                    f"earlier calls on the object: {prev}; rows {c['rows']}")
    if not all(o.get("state_unchanged", [True])):
        return "the recorded state of a spec changed during the history of calls"
    return None


def agree_parts(c, o, m):
    if "error" in o or "fit" not in o or "error" in o["fit"]:
        return None
    mf = m.get("fit")
    if mf is None:
        return "model returned no fit: " + str(m)[:200]
    if "error" in mf:
        return None if _skip(mf["error"]) else f"fit: implementation ok vs model {mf['error']}"
    if len(mf["parts"]) != len(o["fit"]["parts"]):
        return f"fit: {len(o['fit']['parts'])} parts vs model {len(mf['parts'])}"
    for j, (ip, mp) in enumerate(zip(o["fit"]["parts"], mf["parts"])):
        w = _cmp_matrix(ip, mp, f"fit, part {j}") or _cmp_spec(ip["spec"], mp["spec"], f"fit, part {j}")
        if w:
            return w
    for k, (fu, io, mo) in enumerate(zip(c["followups"], o["replays"], m["replays"])):
        what = f"follow-up {k} (rows {fu['rows']}, {'joint' if io['part'] is None else 'part ' + str(io['part'])}{', pickled' if fu['pickle'] else ''})"
        if "error" in mo and _skip(mo["error"]):
            continue
        if "error" in io or "error" in mo:
            if io.get("error") != mo.get("error"):
                return f"{what}: implementation {io.get('error', 'ok')} ({io.get('msg', '')[:100]}) vs model {mo.get('error', 'ok')}"
            continue
        idx = range(len(io["parts"])) if io["part"] is None else [io["part"]]
        for j, ip, mp in zip(idx, io["parts"], mo["parts"]):
            w = _cmp_matrix(ip, mp, f"{what}, part {j}") or _cmp_spec(o["fit"]["parts"][j]["spec"], mp["spec"], f"{what}, part {j} spec afterwards")
            if w:
                return w
    return None


def oracle_parts(c, o):
    if "error" in o or "fit" not in o or "error" in o["fit"]:
        return None
    parts = o["fit"]["parts"]
    if any(not math.isfinite(v) for p in parts for r in p["rows"] for v in r):
        return None
    if any(p["shape"][0] != len(c["train"]) for p in parts):
        return None
    # every part records a state for every stateful call of its own factors, nested ones included
    for j, p in enumerate(parts):
        missing = [k for k in p["expected_keys"] if k not in p["tstate_keys"]]
        if missing:
            return (f"part {j} of `{c['formula']}`: its spec records no transform state for {missing} although its factors contain "
                    f"these stateful calls (recorded keys: {p['tstate_keys']})")
    expected = {}
    for k, i in enumerate(c["train"]):
        expected.setdefault(i, [p["rows"][k] for p in parts])
    outside = set()  # non-training rows a spline with the default extrapolation='raise' legitimately refuses
    for i, r in enumerate(o["ref"]):
        if "error" in r:
            if i not in expected and "Some field values ext" in str(r.get("msg", "")):
                outside.add(i)
                continue
            return f"the one-row frame of pool row {i} raised {r['error']}: {r.get('msg', '')}"
        if i in expected:
            for j, (rp, ex) in enumerate(zip(r["parts"], expected[i])):
                if not _rows_close(rp["row"], ex):
                    return (f"pool row {i} is a training row: part {j} of its one-row replay is {rp['row']}, its row in the fitted "
                            f"part is {ex}")
        else:
            expected[i] = [rp["row"] for rp in r["parts"]]
    for k, (fu, rp) in enumerate(zip(c["followups"], o["replays"])):
        what = f"follow-up {k} on pool rows {fu['rows']} ({'joint specs' if rp['part'] is None else 'spec of part ' + str(rp['part']) + ' alone'}{', pickled' if fu['pickle'] else ''})"
        if outside & set(fu["rows"]):
            continue  # contains a row outside the recorded bounds: the refusal (or not) is C12's subject
        if "error" in rp:
            return f"{what} raised {rp['error']}: {rp.get('msg', '')[:120]}"
        idx = list(range(len(rp["parts"]))) if rp["part"] is None else [rp["part"]]
        for j, pp in zip(idx, rp["parts"]):
            if pp["names"] != parts[j]["names"]:
                return f"{what}: part {j} has column names {pp['names']}, fitted {parts[j]['names']}"
            if pp["shape"][0] != len(fu["rows"]):
                return f"{what}: part {j} has {pp['shape'][0]} rows for {len(fu['rows'])} input rows"
            for q, i in enumerate(fu["rows"]):
                if not _rows_close(pp["rows"][q], expected[i][j]):
                    return (f"{what}: part {j}, output row {q} (pool row {i}) is {pp['rows'][q]} but "
                            f"{'its row in the fitted part' if i in c['train'] else 'the output of its one-row frame'} is {expected[i][j]}"
                            f" [the statistics recorded at fit time are not the ones applied]")
            missing = [kk for kk in pp["expected_keys"] if kk not in pp["tstate_keys"]]
            if missing:
                return f"{what}: the spec attached to part {j} has no state for {missing}"
    if not all(o.get("state_unchanged", [True])):
        return "the recorded state of a part's spec changed during the follow-ups"
    return None


def agree(c, o, m):
    if "driver_error" in m:
        return "driver: " + m["driver_error"][:300]
    if c["kind"] == "cells":
        c2 = cells_as_replay(c)
        if c2 is None or "harness_exception" in o or not m or "fit" not in m or "error" in o.get("fit", {"error": 1}):
            return None  # outside the model: the oracle decides
        # the levels of a hashed factor live in the closure of its encoder, not in encoder_state
        hashed_exprs = {o["exprs"][src] for src, sem in c["atoms"].items() if sem["k"] == "hashed"}
        for part in [m["fit"]] + list(m.get("replays", [])):
            if isinstance(part.get("spec"), dict):
                part["spec"]["estate"] = [kv for kv in part["spec"]["estate"] if kv[0] not in hashed_exprs]
        c = c2
    if c["kind"] == "parts":
        return None if "harness_exception" in o else agree_parts(c, o, m)
    if c["kind"] == "session":
        if "harness_exception" in o:
            return None
        return agree_session(c, o, m)
    if c["kind"] == "sparse":
        if "harness_exception" in o:
            return None
        for what, io, mo in [("fit", o["fit"], m.get("fit", {}))] + [(f"follow-up {i}", a, b) for i, (a, b) in enumerate(zip(o["replays"], m.get("replays", [])))]:
            if "error" in mo and _skip(mo["error"]):
                continue
            if "res" in io and any(not math.isfinite(v) for v in io["res"]):
                continue  # zero variance: nan
            if "error" in io or "error" in mo:
                if io.get("error") != mo.get("error"):
                    return f"sparse {what}: implementation {io.get('error', 'ok')} ({io.get('msg', '')}) vs model {mo.get('error', 'ok')}"
                continue
            w = _cmp_list(io["res"], mo["res"], f"sparse {what}") or _cmp_scale_state(io["state"], mo["state"], f"sparse {what}: state")
            if w:
                return w
        return None
    if "harness_exception" in o or "error" in o:
        return None  # reported by the oracle
    if c["kind"] == "dict":
        return agree_dict(c, o, m)
    mf, of = m.get("fit"), o.get("fit")
    if mf is None:
        return "model returned no fit: " + str(m)[:200]
    if "error" in mf and _skip(mf["error"]):
        return None
    if "error" in of:
        return None  # nothing was fitted, nothing to replay (what a fit raises is C02/C12/C13's business)
    if "error" in of or "error" in mf:
        if of.get("error") == mf.get("error"):
            return None
        return f"fit: implementation {of.get('error', 'ok')} ({of.get('msg', '')[:120]}) vs model {mf.get('error', 'ok')}"
    w = _cmp_matrix(of, mf, "fit") or _cmp_spec(of["spec"], mf["spec"], "fit")
    if w:
        return w
    if mf["spec"]["column_names"] != [n for s in of["spec"]["structure"] for n in s["columns"]]:
        return "fit: model column_names differ from the implementation's structure"
    for i, (fu, io, mo) in enumerate(zip(c["followups"], o["replays"], m["replays"])):
        opts = {k: fu[k] for k in ("output", "drop", "swap", "edit") if fu.get(k)}
        what = f"follow-up {i} ({fu['route']}, rows {fu['rows']}{', ' + str(opts) if opts else ''})"
        if "error" in mo and _skip(mo["error"]):
            continue
        if fu.get("edit") and (o.get("edits") or [None] * (i + 1))[i] is None:
            continue  # the edit itself could not be applied (the route raised first)
        if "error" in io or "error" in mo:
            if io.get("error") != mo.get("error"):
                # several factors may read a missing / wrong-kind column; which of them is evaluated first (a set of
                # factors, iterated in hash order; the model follows formula order) decides between these two classes
                both = {io.get("error"), mo.get("error")}
                if (fu.get("swap") or fu.get("drop")) and both <= {"FactorEvaluationError", "FactorEncodingError"}:
                    continue
                return f"{what}: implementation {io.get('error', 'ok')} ({io.get('msg', '')[:100]}) vs model {mo.get('error', 'ok')}"
            continue
        w = _cmp_matrix(io, mo, what) or (None if fu.get("edit") else _cmp_spec(of["spec"], mo["spec"], what + " spec afterwards"))
        if w:
            return w
    # pickling: the model's notion of surviving keys against the real instance dictionaries
    pk = o.get("pickle_keys") or {}
    if "error" not in pk and pk:
        if pk["after"] != pk["fields"]:
            return f"pickle: restored __dict__ keys {pk['after']} differ from the dataclass fields {pk['fields']}"
        if sorted(m.get("field_names", pk["fields"])) != pk["fields"]:
            return f"pickle: model field names {m.get('field_names')} vs dataclass fields {pk['fields']}"
        # the model's __getstate__ on the LIVE instance dictionary (its keys in order, cached properties included)
        if "getstate_keys" in m:
            if m["getstate_keys"] != pk["getstate"]:
                return f"__getstate__ keeps {pk['getstate']} of {pk['before']}, the model keeps {m['getstate_keys']}"
            for how in ("after", "after_copy", "after_deepcopy"):
                if sorted(m["getstate_keys"]) != pk[how]:
                    return f"pickle/copy: instance keys {how} = {pk[how]} vs model {sorted(m['getstate_keys'])}"
    return None


# ----------------------------------------------------------------------------- oracle (implementation only)


def _rows_close(a, b):
    if a is None or b is None or len(a) != len(b):
        return False
    for u, v in zip(a, b):
        if not (math.isfinite(u) and math.isfinite(v)) or abs(u - v) > ORACLE_TOL * max(1.0, abs(u), abs(v)):
            return False
    return True


def _raise_mode_possible(c):
    """a follow-up may legitimately raise: bs/cr with extrapolation='raise' and a value outside the training range"""
    f = c["formula"]
    if "extrapolation='raise'" in f:
        return True
    import re

    for m in re.finditer(r"bs\(([^()]|\([^()]*\))*\)", f):
        if "extrapolation" not in m.group(0):
            return True
    return False


def oracle_dict(c, o):
    fit = o.get("fit", {})
    if "error" in fit:
        return f"a scale-family transform raised {fit['error']} on dict-valued data: {fit.get('msg', '')[:100]}"
    if any(not math.isfinite(v) for _, colv in fit["res"] for v in colv):
        return None
    keys = [str(k) for k, _ in c["cols"]]
    if [k for k, _ in fit["res"]] != keys:
        return f"result keys {[k for k, _ in fit['res']]} differ from the data keys {keys}"
    visible = [k for k in keys if not k.startswith("__")]
    if [k for k, _ in fit["state"]] != visible:
        return f"nested state keys {[k for k, _ in fit['state']]}, expected one state per visible key {visible}"
    base = dict(fit["res"])
    for i, (rows, rp) in enumerate(zip(c["followups"], o["replays"])):
        if "error" in rp:
            return f"follow-up {i} on rows {rows} raised {rp['error']}"
        if rp["state"] != fit["state"]:
            return f"follow-up {i}: the recorded per-key state changed"
        for k, colv in rp["res"]:
            want = [base[k][r] for r in rows]
            if not _rows_close(colv, want):
                return f"follow-up {i} on rows {rows}: column {k} is {colv}, the fitted rows are {want}"
    return None


def oracle(c, o):
    if "harness_exception" in o:
        return "harness could not run the implementation: " + o["harness_exception"]
    if c["kind"] == "cells":
        return oracle_cells(c, o)
    if c["kind"] == "dict":
        return oracle_dict(c, o)
    if c["kind"] == "session":
        return oracle_session(c, o)
    if c["kind"] == "parts":
        return oracle_parts(c, o)
    if c["kind"] == "sparse":
        # one column: every follow-up row equals the fitted row; the recorded state does not change
        fit = o["fit"]
        if "error" in fit or any(not math.isfinite(v) for v in fit["res"]):
            return None
        for i, (rows, rp) in enumerate(zip(c["followups"], o["replays"])):
            if "error" in rp:
                return f"sparse follow-up {i} on rows {rows} raised {rp['error']} after a successful fit"
            if not _rows_close(rp["res"], [fit["res"][r] for r in rows]):
                return f"sparse follow-up {i} on rows {rows}: {rp['res']}, the fitted rows are {[fit['res'][r] for r in rows]}"
            if rp["state"] != fit["state"]:
                return f"sparse follow-up {i}: the recorded state changed"
        return None
    if "error" in o:
        return None  # an atom the parser rejects: not a case
    fit = o["fit"]
    if "error" in fit:
        return None  # fitting is C02/C12/C13's business; nothing to replay
    if any(not math.isfinite(v) for r in fit["rows"] for v in r):
        return None  # NaN in the training matrix (degenerate statistics): outside the property's domain
    names = fit["names"]
    train = c["train"]
    if fit["shape"][0] != len(train):
        return None  # rows were dropped at fit time (nulls): C06
    may_raise = _raise_mode_possible(c)
    ref = o["ref"]
    # reference rows: one-row frames; for training rows they must be the fitted rows
    expected = {}
    for k, i in enumerate(train):
        expected.setdefault(i, fit["rows"][k])
    for i, r in enumerate(ref):
        if "error" in r:
            if i in expected or not may_raise:
                return f"the one-row frame of pool row {i} raised {r['error']}" + (" although it is a training row" if i in expected else "")
            continue
        if r["names"] != names:
            return f"one-row frame of pool row {i}: column names {r['names']} differ from the fitted {names}"
        if r["nrows"] != 1:
            return f"one-row frame of pool row {i} gave {r['nrows']} rows"
        if i in expected:
            if not _rows_close(r["row"], expected[i]):
                return (f"pool row {i} is a training row: its one-row replay {r['row']} differs from its row in the "
                        f"fitted matrix {expected[i]}")
        else:
            expected[i] = r["row"]
    for k, (fu, rp) in enumerate(zip(c["followups"], o["replays"])):
        if not in_domain(fu):
            continue  # outside the property (checked against the model only)
        what = f"follow-up {k} via {fu['route']} on pool rows {fu['rows']}"
        blocked = [i for i in fu["rows"] if "error" in ref[i]]
        if "error" in rp:
            if blocked and may_raise:
                continue
            return f"{what} raised {rp['error']}: {rp.get('msg', '')[:120]}"
        if blocked:
            continue  # a row whose one-row frame raises (extrapolation='raise'): nothing is claimed
        if rp["names"] != names:
            return f"{what}: column names {rp['names']} differ from the fitted {names}"
        if rp["shape"][0] != len(fu["rows"]):
            return f"{what}: {rp['shape'][0]} rows for {len(fu['rows'])} input rows"
        for j, i in enumerate(fu["rows"]):
            if not _rows_close(rp["rows"][j], expected[i]):
                src = "its row in the fitted matrix" if i in train else "the output of its one-row frame"
                return (f"{what}: output row {j} (pool row {i}) is {rp['rows'][j]} but {src} is {expected[i]}"
                        + (" [replay of the training data does not reproduce the matrix]" if fu["rows"] == train else ""))
        if "twin" in rp:
            tw = rp["twin"]
            if "error" in tw:
                return f"{what}: the same cell values given as plain text raised {tw['error']}"
            if tw["names"] != rp["names"]:
                return f"{what}: column names {rp['names']} but {tw['names']} when the same cell values are given as plain text"
            for j, (ra, rb) in enumerate(zip(rp["rows"], tw["rows"])):
                if not _rows_close(ra, rb):
                    return (f"{what}: with the categorical column(s) re-declared {fu['redeclare']} output row {j} is {ra}, but the "
                            f"same cell values given as plain text give {rb} [a row must depend on its cell values and the "
                            f"recorded state only, not on the order in which the dtype declares its categories]")
        if not rp.get("spec_same", True) and not fu.get("output"):
            return f"{what}: the spec attached to the result differs from the fitted spec"
    if not o.get("state_unchanged", True):
        return "the recorded state of the spec changed during the follow-ups"
    pk = o.get("pickle_keys") or {}
    if "error" in pk:
        return "pickling the spec failed: " + pk["error"]
    return None


def classify(c, o, why):
    return None


LEVEL_TEXT = (
    "Proof: Lean theorems (Props/C04.lean) about the executable model of the state-first protocol of stateful "
    "transforms (center/scale/standardize, poly, bs, cr/cc, categorical encoding with recorded levels; the laws are "
    "derived from the C13/C12/C11 models), the decorator's wrapper on every kind of argument (vector; dict-valued data "
    "with nested per-key state; 2-D arrays with one recorded state per column; scipy.sparse columns), stateful_eval's "
    "keying of state by normalised call text, get_model_matrix on a ModelSpec (factor evaluation, the spec.structure "
    "branch of _build_model_matrix with rehydration and _enforce_structure on top of C02's column model) and the "
    "materializer OBJECT with its factor cache: for ALL formulas over these transforms (nested ones included), all "
    "frames and all index lists, a replay of any selection of rows is the same selection of the replay's rows (so each "
    "row depends on its input row and the recorded state only), column names are the recorded ones, a replay on the "
    "training frame reproduces the fitted matrix and leaves the spec unchanged (so any sequence of follow-ups behaves "
    "like independent replays), every call of any history on one materializer object — failed calls included — is the "
    "pure function of its own spec, every part of a structured fit (`lhs ~ a | b`) carries the state of all its stateful "
    "calls, nested ones included, and replays on its own, and __getstate__ keeps exactly the dataclass fields, on which alone a replay "
    "depends. Which transform with which arguments a call denotes is computed by the model from the call as written, "
    "by Python's argument binding against the live signatures (Gen/StatefulTable.lean, regenerated every run). The "
    "model is tied to the code by a differential correspondence on every run."
)
LEVEL_NOTE = (
    "Partial: the pickle byte stream / wrapt proxies are exercised (real pickle/copy round trips in the correspondence), "
    "not modelled; numpy routines enter as deterministic parameters; float rounding not modelled (1e-9); missing values "
    "and `lag` are outside (C06 / excluded); bs/cr/poly of a multi-column argument and back-quoted names in stateful "
    "calls are outside the model; row labels are not modelled (comparison by position); `hashed` enters the model as a "
    "categorical coding of harness-computed buckets, its replay on null-containing / differently stored columns is checked "
    "by the oracle only."
)
