"""C09 — Reusing a spec on incompatible data fails loudly and never reshapes columns.

Correspondence stream `c09` (engine `Engines/C09.lean`, model `Model/Reuse.lean`): a training frame
is materialised by the REAL `model_matrix`; the recorded `ModelSpec`(s) (formula factors, structure,
encoder_state, transform_state, na_action, output) are read back from the live object ONCE, right after
the fit, and handed to the model together with each follow-up frame (cells + dtype label; the kind of a
dtype comes from the generated `Gen.kindTable`, column chosen by the input route: pandas materializer,
narwhals materializer on a pandas frame, narwhals materializer on a pyarrow table). The real
`spec.get_model_matrix(follow_up)` is then compared with `Model.Reuse.replay`: exception class | per
part: column names, values, DataMismatchWarning flag, the column names each term generated BEFORE
`_enforce_structure` (recorded by wrapping that method at run time; no hook in the source), and the
`encoder_state` the application leaves in the reused spec (`Model.Reuse.specAfter`).

Factors: bare names, `C(name)`, and `C(name, <contrasts>, levels=[…])` with every built-in contrast
(treatment/SAS with a base, sum, helmert, diff, poly with scores) and custom contrasts (dict literal,
array literal, `contr.custom(array|dict, names=…)`, and a matrix / names taken from the evaluation
context, which may CHANGE between the fit and the reuse). The model computes the coding (matrix, column
names, name format) itself; only the `1/sqrt(norms2)` normalisation of `contr.poly` enters as a
parameter (the live coding matrix per level count; its contract against the model's unnormalised
columns is checked per case).

Histories: between the fit and a reuse the recorded spec may be DERIVED — one part of a multi-part spec
used on its own (`mm[1].model_spec`), `ModelSpec.subset(terms)`, `ModelSpecs.subset(formula)`, a pickle
round trip, and combinations; the reuse call may carry `attr_overrides` (na_action / output /
ensure_full_rank). The derivation is performed on the live object; the model performs it itself on what
the fit recorded (`Model.Reuse.derive`), reports any field in which the live derived spec differs from its
own (terms, structure, encoder_state, transform_state, settings) and replays ITS derived spec
(`replayDerivedWith`). One recorded spec may be applied SEVERAL TIMES (a session: the shared live spec
and specs derived from it, to data sets whose unseen levels repeat, shrink or grow): every application
is compared with the model's replay of what the FIT recorded, and a deep snapshot of the fit specs'
state dictionaries is compared before/after every application. A reuse may also run on ONE
materializer object after an earlier call on that object (which may have failed after its factor
evaluation): the model's answer does not depend on that earlier call.

"Recorded" for the oracle means recorded by the FIT: the kind and levels of a factor are read from
the reused spec and, where the derivation did not hand them on, from the specs the fit produced (all
parts; a factor shared by several parts is evaluated and encoded once per fit). Only for a spec that
was hand-edited after the fit (the `tamper` stream) is the edited spec itself the record.

Oracle (implementation only): the clauses of the property on the outcome of EVERY application —
(1) a factor whose kind on the follow-up data differs from the recorded kind => an exception, and
    `FactorEncodingError` when nothing else is wrong with the case (all columns present, no
    na_action='raise' nulls, no failing contrast argument);
(2) otherwise a matrix whose names are the recorded names, where every column built from a recorded
    level that is absent from the follow-up column is all zero (dummy coded factors), and where the
    block of a contrast-coded main effect is, row by row, the row of the coding matrix the FIT recorded
    (`encoder_state[…]["contrasts"].get_coding_matrix`) for the cell's level — the zero row for a cell
    that is not a recorded level;
(3) a non-null value outside the nominated levels that survives row dropping => names unchanged and a
    DataMismatchWarning among the warnings raised — in every application of a session;
(4) no application changes the state dictionaries of the recorded spec.
"""
from __future__ import annotations

import math
import re
import warnings
from fractions import Fraction

import numpy
import pandas

PROPERTY = "C09"
ENGINE = "c09"
REQUIRED_THEOREMS = [
    "eval_spec_sees_recorded_kinds",
    "every_term_factor_is_evaluated",
    "kind_change_is_error",
    "kind_change_never_matrix",
    "enforce_never_broadcasts_kind_change",
    "replay_names_recorded",
    "pinned_levels_fix_columns",
    "absent_levels_zero_columns",
    "generated_names_data_independent",
    "consistent_spec_never_reshaped",
    "unseen_levels_no_reshape",
    "derived_spec_keeps_record",
    "derived_kind_change_never_matrix",
    "derived_kind_change_is_error",
    "derived_names_recorded",
    # contrasts other than the default treatment coding, explicit levels
    "coded_columns_fixed_by_levels",
    "builtin_contrasts_always_codable",
    "coded_cell_is_matrix_row",
    "contrast_coded_factor_on_reuse",
    "treatment_base_on_reuse",
    "generated_columns_are_products_of_encodings",
    "custom_names_mismatch_is_error",
    "bad_contrast_argument_never_matrix",
    # routes, overrides, one materializer object, sessions
    "replay_output_irrelevant",
    "override_keeps_record",
    "override_kind_change_never_matrix",
    "override_names_recorded",
    "no_overrides_is_plain_reuse",
    "materializer_history_irrelevant",
    "replay_order_irrelevant",
    "application_keeps_recorded_state",
    "session_repeats_replay",
]
TRUSTED = [
    "parameters of the model (results of the real code forwarded per case): the kind `_is_categorical` assigns to a dtype "
    "(generated table Gen/KindTable.lean — column chosen by the input route: pandas materializer, narwhals materializer on a pandas "
    "frame, narwhals materializer on a pyarrow table — cross-checked per case against the live method), the iteration order of the "
    "pooled `set` of factors (recorded by wrapping `_prepare_factor_evaluation_model_spec`; by `replay_order_irrelevant` it decides "
    "only WHICH error surfaces first), the recorded spec itself (read from the "
    "live ModelSpec ONCE, right after a real fit), and the `1/sqrt(norms2)` normalisation of `contr.poly` (the live coding matrix "
    "per level count; its contract `entry * sqrt(norms2[k]) = unnormalised entry` against the model's own columns is checked per case)",
    "the contrasts of a `C(name, contrasts, levels=...)` factor are handed to the model as the generator wrote them into the formula "
    "text (class, options, custom weights / names, context names resolved against the evaluation context of the application); Python's "
    "evaluation of that text (`contr.sum` vs `contr.sum()`, positional vs keyword `base`, dict / list literals) is exercised, not modelled; "
    "column-name formats and `PolyContrasts.NAME_ALIASES` are regenerated from the live classes (Gen/ContrastFormats.lean); the "
    "coding matrices of treatment / SAS / sum / helmert / diff / poly are the entry functions of Model/Contrasts.lean (C11)",
    "derivation histories: `ModelSpec.subset` is modelled as written (degree-stable re-ordering of the nominated terms, structure "
    "rows by term, every other field carried over by `update`) with the nominated terms given by position; `ModelSpecs.subset` with a "
    "formula of the specs' own layout (per part; one part too many is the IndexError the code raises); taking one part of a "
    "`ModelSpecs` and a pickle round trip are modelled as the identity on the dataclass fields; `attr_overrides` of the reuse call as "
    "`update` of na_action / output / ensure_full_rank; the live derived spec is compared field by field with the model's derivation on "
    "every application. Term matching by text in `subset` (`Formula.from_spec` of the term strings) and the pickle machinery are "
    "exercised, not modelled; nominating formulas of a DIFFERENT layout (ValueError / AttributeError of `ModelSpecs.subset`) are not generated",
    "modelled, not verified: pandas.unique / pandas.Categorical(categories=levels) / get_dummies / the sparse dummy encoder (a cell "
    "equal to a nominated level sets that level's dummy, anything else — unseen value or null — gives an all-zero row; nominated levels "
    "must be unique), `astype('category')` sorting, numpy / scipy products as exact rational arithmetic with NaN propagation (values are "
    "compared exactly, and with relative tolerance 1e-9 when a coding matrix has non-dyadic entries: diff, scaled helmert, poly)",
    "`_get_columns_for_term` is modelled through the base-class semantics (C02 fastpath_eq_base relates the pandas fast path to it)",
    "not modelled: WITHIN one application, a factor without recorded categories (hand-edited spec) that is encoded twice — full and "
    "reduced rank — finds the second time the categories its first encoding wrote back, and so announces a retained null "
    "(na_action='ignore'); the model encodes every use against the spec as it was handed over (such cases are not generated); "
    "the `encoded_cache` shared by the parts of a multi-part spec (unobservable unless two parts record different "
    "encoder state for one factor), what a FAILED application may already have written into the spec, stateful transforms other than "
    "C() (C04), numerical columns holding non-number cells (pandas `str` dtype, D8/C08: the model raises a sentinel TypeError there), "
    "a custom contrast array without rows (`[]`: its error class depends on the output route), the `contrasts` entry that "
    "`encode_contrasts` writes into the state for introspection (only its effect — none — on later encodings is observed)",
]
ASSUMPTIONS = [
    "absent_levels_zero_columns / unseen_levels_no_reshape speak about terms whose generated column names are distinct and equal, "
    "as a set, to the recorded ones (hypotheses on the recorded spec alone; every spec produced by a fit without printed-name "
    "collisions satisfies them — the correspondence reports the generated names of every term)",
    "application_keeps_recorded_state / session_repeats_replay: the parts agree on the kind they record for a factor, and every "
    "entry of a categorical factor records the levels the reuse nominates (its categories, equal to an explicit `levels=` if any) — "
    "the state every fit leaves; kernel-checked for the example spec",
    "level and column-name rendering: levels are strings or integers (str(level) is exact for those)",
]
RULE = (
    "training frame: 1-3 categorical columns (object / category dtype, declared categories incl. unused ones, string or integer "
    "levels, 1-5 levels), 1-2 float columns, an integer column, 3-8 rows, occasional nulls; formula: 1-4 terms over bare names, "
    "C(name), C(name, <contrast>[, levels=[...]][, spans_intercept=False]) with <contrast> one of contr.treatment/SAS (class, call, "
    "base by keyword or position), contr.sum, contr.helmert(reverse, scale), contr.diff(backward), contr.poly(scores), a dict or "
    "array literal, contr.custom(dict|array[, names=...]), a matrix / names taken from the evaluation context; interactions up to "
    "degree 3 with numeric and categorical partners, the same coded factor in several terms / parts, intercept on/off, optionally "
    "two-sided, optionally built from Factor objects with a declared kind; x ensure_full_rank x output pandas/numpy/sparse(/narwhals) "
    "x na_action x materializer pandas / narwhals (22%; follow-up data as a pandas frame or a pyarrow table); "
    "follow-up frame: per column one of same / lose levels / gain levels / both / categorical->float|int|bool / "
    "numeric->object|category / object->str dtype / object<->category / int<->float / nulls added / column missing; "
    "every categorical follow-up column may ALSO hold nulls whatever happened to its levels (so nulls meet lost / unseen levels "
    "under every na_action; more often under 'ignore'); a context-supplied custom contrast keeps its value or changes (other "
    "weights, a column more / only one column, a row more or fewer, names that no longer match, an empty dict, a ragged matrix); "
    "10% of the reuse calls carry attr_overrides (na_action / output / ensure_full_rank); "
    "histories between fit and reuse (42% of the applications): one part of a 2-3 part formula `p1 | p2 [| p3]` (optionally two-sided) "
    "used on its own — the parts share factors —, ModelSpec.subset of 1-3 nominated terms in arbitrary order (so a factor may "
    "survive only inside an interaction; 5% also nominate a term the spec does not have: ValueError), ModelSpecs.subset with a formula of the same layout (a prefix of the parts; 8% with one "
    "part too many), part then subset, a pickle round trip, and pickle after any of these; multi-part specs are also reused whole; "
    "14% of the cases are SESSIONS: the one fitted spec (and specs derived from the shared live object) applied 3-4 times, the first "
    "data set holding 1-2 unseen levels of one categorical column, the later ones the same set / a subset / a superset / none, with "
    "a deep snapshot of the fit specs' state dictionaries compared around every application; "
    "10% of the single applications run on ONE materializer object after an earlier get_model_matrix call on it (a fresh formula over "
    "the same factors; 75% of them end in an encoding-time ValueError — a treatment base that is no level — i.e. after every factor "
    "was evaluated), 60% of those with a categorical column of the fit arriving numeric; "
    "12% of the cases (never a `|` spec reused whole, never a session) hand-edit a copy of the (derived) spec after the fit (add/drop/"
    "rename a recorded column name, drop/add/duplicate/unpin recorded levels, remove or flip a recorded kind) to reach the padding, "
    "zero-fill and error branches of _enforce_structure, the duplicate-level and base-not-found errors, and the write-back of "
    "categories; non-trivial = formula with an interaction and a follow-up column that changes kind or levels; distinct by canonical JSON"
)

STR_POOLS = [["a", "b", "c", "d", "e"], ["u", "v", "w", "z"], ["lo", "mid", "hi", "top"], ["a b", "c-d", "e.f", "g"]]
NEW_STR = ["zz", "q", "new", "k9"]
INT_POOL = [1, 2, 3, 4, 5]
NEW_INT = [7, 8, 9]

# ----------------------------------------------------------------------------- value plumbing


def fstr(x) -> str:
    fr = Fraction(x)
    return str(fr.numerator) if fr.denominator == 1 else f"{fr.numerator}/{fr.denominator}"


def val_json(v):
    """python level / cell -> the model's `Val` JSON (None for null)"""
    if v is None:
        return None
    if isinstance(v, (bool, numpy.bool_)):
        return {"b": bool(v)}
    if isinstance(v, (int, numpy.integer)):
        return {"n": str(int(v))}
    if isinstance(v, (float, numpy.floating)):
        if math.isnan(v):
            return None
        return {"n": fstr(v)}
    if isinstance(v, str):
        return {"s": v}
    raise ValueError("unsupported level/cell " + repr(v))


def case_cell(dtype, v):
    """cell as written in the case JSON -> `Val` JSON"""
    if v is None:
        return None
    if dtype == "float64":
        return {"n": fstr(Fraction(v))}
    return val_json(v)


def make_series(col):
    dt, vals = col["dtype"], col["values"]
    if dt == "object":
        return pandas.Series(vals, dtype=object)
    if dt == "str":
        return pandas.Series(vals, dtype="str")
    if dt in ("category", "category[int]"):
        return pandas.Series(pandas.Categorical(vals, categories=col["categories"]))
    if dt == "int64":
        return pandas.Series(vals, dtype="int64")
    if dt == "float64":
        return pandas.Series([float("nan") if v is None else float(Fraction(v)) for v in vals], dtype="float64")
    if dt == "bool":
        return pandas.Series(vals, dtype=bool)
    raise ValueError(dt)


def make_frame(fr):
    n = fr["nrows"]
    return pandas.DataFrame({c["name"]: make_series(c) for c in fr["cols"]}, index=range(n))


def cell_out(v):
    """a matrix cell -> exact string / None for NaN / marker for a non-number"""
    if isinstance(v, (bool, numpy.bool_)):
        return "1" if v else "0"
    if isinstance(v, (int, numpy.integer)):
        return str(int(v))
    if isinstance(v, (float, numpy.floating)):
        return None if math.isnan(v) else fstr(v)
    return "obj:" + repr(v)


def py_lit(v) -> str:
    """a value as it is written inside a formula (the normal form `ast.unparse` prints)"""
    if isinstance(v, str):
        return repr(v)
    if isinstance(v, bool):
        return repr(v)
    if isinstance(v, int):
        return repr(v)
    if isinstance(v, list):
        return "[" + ", ".join(py_lit(x) for x in v) + "]"
    if isinstance(v, dict):
        return "{" + ", ".join(f"{py_lit(k)}: {py_lit(x)}" for k, x in v.items()) + "}"
    raise ValueError(v)


def num_lit(q: str) -> str:
    """a weight "p/q" (dyadic) as a Python literal"""
    fr = Fraction(q)
    return str(fr.numerator) if fr.denominator == 1 else repr(float(fr))


def num_py(q: str):
    fr = Fraction(q)
    return int(fr) if fr.denominator == 1 else float(fr)


# ----------------------------------------------------------------------------- generators


def gen_train(rng, nulls=True):
    nrows = rng.randint(3, 8)
    cols = []
    ncat = rng.randint(1, 3)
    for name in ["A", "B", "G"][:ncat]:
        if rng.random() < 0.25:
            pool, dt_int = INT_POOL, True
        else:
            pool, dt_int = rng.choice(STR_POOLS), False
        k = rng.randint(1, min(5, len(pool)))
        levels = pool[:k] if rng.random() < 0.6 else rng.sample(pool, k)
        vals = [rng.choice(levels) for _ in range(nrows)]
        if rng.random() < 0.6:  # make sure most levels occur
            for i, l in enumerate(levels[:nrows]):
                vals[i] = l
        if dt_int:
            if rng.random() < 0.5:
                cols.append(dict(name=name, dtype="category[int]", values=vals, categories=levels))
            else:
                cols.append(dict(name=name, dtype="int64", values=vals))  # only categorical through C()
        elif rng.random() < 0.5:
            cats = list(levels)
            if rng.random() < 0.3:
                cats = cats + [x for x in pool if x not in cats][:1]  # declared but unused level
            cols.append(dict(name=name, dtype="category", values=vals, categories=cats))
        else:
            if nulls and rng.random() < 0.15:
                vals[rng.randrange(nrows)] = None
            cols.append(dict(name=name, dtype="object", values=vals))
    for name in ["x", "z"][: rng.randint(1, 2)]:
        vals = [fstr(Fraction(rng.randint(-8, 12), rng.choice([1, 1, 2, 4]))) for _ in range(nrows)]
        if nulls and rng.random() < 0.1:
            vals[rng.randrange(nrows)] = None
        cols.append(dict(name=name, dtype="float64", values=vals))
    cols.append(dict(name="y", dtype="float64", values=[fstr(rng.randint(-3, 9)) for _ in range(nrows)]))
    return dict(nrows=nrows, cols=cols)


def is_cat_col(c):
    return c["dtype"] in ("object", "category", "category[int]", "str")


def col_levels(c):
    if "categories" in c:
        return list(c["categories"])
    out = []
    for v in c["values"]:
        if v is not None and v not in out:
            out.append(v)
    return out


def fit_levels(c):
    """the categories the fit records for training column `c` (declared order, else sorted distinct values)"""
    if "categories" in c:
        return list(c["categories"])
    return sorted(set(v for v in c["values"] if v is not None))


def mutate_col(rng, c, nrows, mode, null_p=0.0, new_pool=None):
    """the follow-up version of training column `c`; `null_p`: chance that a categorical column
    ALSO holds a null, whatever happened to its levels (same / lost / gained / both / only new)"""
    name = c["name"]
    lv = col_levels(c)
    ints = bool(lv) and all(isinstance(v, int) for v in lv)
    catlike = is_cat_col(c) or (c["dtype"] == "int64" and name in ("A", "B", "G"))
    if catlike:
        if new_pool is None:
            new_pool = NEW_INT if ints else NEW_STR
        if mode == "same":
            pool = lv
        elif mode == "lose":
            pool = rng.sample(lv, max(1, len(lv) - rng.randint(1, 2))) if len(lv) > 1 else lv
        elif mode == "gain":
            pool = lv + rng.sample(new_pool, min(len(new_pool), rng.randint(1, 2)))
        elif mode == "gainall":  # every value of `new_pool` occurs (sessions: a fixed set of unseen levels)
            pool = lv + list(new_pool)
        elif mode == "both":
            keep = rng.sample(lv, max(1, len(lv) - 1)) if len(lv) > 1 else lv
            pool = keep + rng.sample(new_pool, min(len(new_pool), rng.randint(1, 2)))
        elif mode == "onlynew":
            pool = rng.sample(new_pool, min(len(new_pool), rng.randint(1, 2)))
        else:
            pool = lv
        vals = [rng.choice(pool) for _ in range(nrows)]
        put = rng.randrange(nrows) if nrows else 0
        if mode in ("gain", "both") and nrows:
            vals[put] = pool[-1]
        if mode == "gainall":
            for i, v in enumerate(list(new_pool)[:nrows]):
                vals[i] = v
        if nrows > 1 and c["dtype"] != "int64" and rng.random() < null_p:
            for _ in range(rng.choice([1, 1, 2])):
                at = rng.randrange(nrows)
                if at != put:
                    vals[at] = None
        if mode == "tofloat":
            return dict(name=name, dtype="float64", values=[fstr(Fraction(rng.randint(-4, 9), rng.choice([1, 2]))) for _ in range(nrows)])
        if mode == "toint":
            return dict(name=name, dtype="int64", values=[rng.randint(0, 6) for _ in range(nrows)])
        if mode == "tobool":
            return dict(name=name, dtype="bool", values=[rng.random() < 0.5 for _ in range(nrows)])
        if mode == "tostr" and not ints:
            return dict(name=name, dtype="str", values=[pool[0] if v is None else v for v in vals])
        if c["dtype"] == "int64":
            # integer column used through C(): may arrive as float or as text
            r = rng.random()
            if mode == "flip" and r < 0.5:
                return dict(name=name, dtype="float64", values=[fstr(v) for v in vals])
            if mode == "flip":
                return dict(name=name, dtype="object", values=[None if v is None else str(v) for v in vals])
            return dict(name=name, dtype="int64", values=vals)
        dt = c["dtype"]
        if mode == "flip":
            dt = "object" if dt.startswith("category") else ("category[int]" if ints else "category")
        if dt.startswith("category"):
            cats = []
            for v in vals:
                if v is not None and v not in cats:
                    cats.append(v)
            extra = [x for x in lv if x not in cats]
            if rng.random() < 0.5:
                cats = cats + extra[:1]
            rng.shuffle(cats)
            return dict(name=name, dtype=dt, values=vals, categories=cats)
        if mode == "nulls" and nrows:
            vals[rng.randrange(nrows)] = None
        return dict(name=name, dtype="object", values=vals)
    # numeric training column
    if mode in ("tocat", "tocatdtype"):
        pool = rng.sample(STR_POOLS[0], rng.randint(1, 3))
        vals = [rng.choice(pool) for _ in range(nrows)]
        if mode == "tocatdtype":
            return dict(name=name, dtype="category", values=vals, categories=sorted(set(vals)))
        return dict(name=name, dtype="object", values=vals)
    if mode == "flip":
        return dict(name=name, dtype="int64", values=[rng.randint(-5, 9) for _ in range(nrows)])
    vals = [fstr(Fraction(rng.randint(-8, 12), rng.choice([1, 1, 2, 4]))) for _ in range(nrows)]
    if mode == "nulls" and nrows:
        vals[rng.randrange(nrows)] = None
    return dict(name=name, dtype="float64", values=vals)


CAT_MODES = ["same", "lose", "gain", "both", "onlynew", "tofloat", "toint", "tobool", "tostr", "flip", "nulls"]
CAT_WEIGHTS = [3, 4, 4, 3, 1, 3, 2, 1, 2, 2, 2]
NUM_MODES = ["same", "tocat", "tocatdtype", "flip", "nulls"]
NUM_WEIGHTS = [6, 2, 1, 2, 2]


NULL_P = {"drop": 0.12, "raise": 0.04, "ignore": 0.4}


def arrow_safe(col):
    """a follow-up column as the pyarrow route can carry it with the SAME dtype label: an object column of
    python ints would become an arrow integer column (a different kind), an all-null object column has
    no arrow type"""
    if col["dtype"] == "object":
        nn = [v for v in col["values"] if v is not None]
        if not nn or any(not isinstance(v, str) for v in nn):
            vals = [0 if v is None else v for v in col["values"]]
            if all(isinstance(v, int) for v in vals):
                return dict(name=col["name"], dtype="int64", values=vals)
            return dict(name=col["name"], dtype="object", values=["a" if v is None else str(v) for v in col["values"]])
    return col


def gen_follow(rng, train, malformed, tampered=False, na_action="drop", arrow=False, force=None):
    nrows = rng.choice([0, 1, 2, 3, 4, 5, 6]) if rng.random() < 0.9 else train["nrows"]
    if arrow and nrows == 0:
        nrows = 2
    cols, modes = [], {}
    for c in train["cols"]:
        catlike = is_cat_col(c) or (c["dtype"] == "int64")
        mode = rng.choices(CAT_MODES, CAT_WEIGHTS)[0] if catlike else rng.choices(NUM_MODES, NUM_WEIGHTS)[0]
        if c["name"] == "y":
            mode = rng.choices(["same", "tocat"], [9, 1])[0]
        if tampered and catlike:
            # with hand-edited encoder state the levels may be re-derived from the data: keep them
            # strings or integers (float rendering and `str`-dtype cells are outside the model)
            if mode in ("tostr", "tofloat"):
                mode = "toint"
            if mode == "flip" and c["dtype"] == "int64":
                mode = "same"
        if force and c["name"] in force:
            mode = force[c["name"]]
        modes[c["name"]] = mode
        col = mutate_col(rng, c, nrows, mode, NULL_P[na_action])
        cols.append(arrow_safe(col) if arrow else col)
    if malformed and cols:
        drop = rng.randrange(len(cols))
        modes[cols[drop]["name"]] = "missing"
        cols.pop(drop)
    return dict(nrows=nrows, cols=cols), modes


# ---- contrasts of a C(...) atom

WEIGHTS = ["-2", "-1", "-1", "0", "0", "1", "1", "2", "3", "1/2", "-3/2"]


def gen_matrix(rng, nrows, ncols):
    return [[rng.choice(WEIGHTS) for _ in range(ncols)] for _ in range(nrows)]


def gen_custom_value(rng, n, as_dict=None):
    """a value for the `contrasts` argument: a dict (key -> weights over the n levels) or an array (n rows)"""
    k = rng.choice([1, 2, 2, 3])
    if as_dict is None:
        as_dict = rng.random() < 0.5
    if as_dict:
        keys = rng.sample(["p", "q", "r", "lin", "k 1"], k)
        return dict(dict=True, keys=keys, vectors=[[rng.choice(WEIGHTS) for _ in range(n)] for _ in range(k)])
    return dict(dict=False, keys=[], vectors=gen_matrix(rng, n, k))


def custom_ncols(v):
    return len(v["vectors"]) if v["dict"] else (len(v["vectors"][0]) if v["vectors"] else 0)


def custom_text(v):
    if v["dict"]:
        return "{" + ", ".join(f"{k!r}: [{', '.join(num_lit(x) for x in vec)}]" for k, vec in zip(v["keys"], v["vectors"])) + "}"
    return "[" + ", ".join("[" + ", ".join(num_lit(x) for x in row) + "]" for row in v["vectors"]) + "]"


def custom_py(v):
    if v["dict"]:
        return {k: [num_py(x) for x in vec] for k, vec in zip(v["keys"], v["vectors"])}
    return [[num_py(x) for x in row] for row in v["vectors"]]


def gen_contr(rng, col, ctx, ctx_names):
    """(argument text after the column name, descriptor) of one `C(col, …)` atom.
    descriptor: {"contr": null | {...}, "levels": null | [level…]}"""
    lv = fit_levels(col)
    args, levels = [], None
    if rng.random() < 0.18 and lv:
        # explicit levels: a re-ordering / a subset / one more than the data holds
        levels = rng.sample(lv, len(lv)) if rng.random() < 0.6 else rng.sample(lv, max(1, len(lv) - 1))
        if rng.random() < 0.25:
            levels = levels + [90 if isinstance(lv[0], int) else "xtra"]
        lv = levels
    n = len(lv)
    r = rng.random()
    contr = None
    if r < 0.30:
        contr = None
    elif r < 0.40:
        sas = rng.random() < 0.4
        base = rng.choice(lv) if (lv and rng.random() < 0.7) else None
        contr = dict(kind="treatment", sas=sas, base=base)
        nm = "contr.SAS" if sas else "contr.treatment"
        if base is None:
            args.append(nm if rng.random() < 0.5 else nm + "()")
        else:
            args.append(f"{nm}(base={py_lit(base)})" if rng.random() < 0.6 else f"{nm}({py_lit(base)})")
    elif r < 0.50:
        contr = dict(kind="sum")
        args.append(rng.choice(["contr.sum", "contr.sum()"]))
    elif r < 0.60:
        rev, sc = rng.random() < 0.6, rng.random() < 0.35
        contr = dict(kind="helmert", reverse=rev, scale=sc)
        opts = ([] if rev else ["reverse=False"]) + (["scale=True"] if sc else [])
        args.append("contr.helmert" + ("(" + ", ".join(opts) + ")" if opts or rng.random() < 0.3 else ""))
    elif r < 0.68:
        bw = rng.random() < 0.6
        contr = dict(kind="diff", backward=bw)
        args.append("contr.diff" + ("" if bw and rng.random() < 0.6 else ("()" if bw else "(backward=False)")))
    elif r < 0.76:
        scores = None
        if rng.random() < 0.4 and n:
            scores = sorted(rng.sample(range(0, 12), n))
        contr = dict(kind="poly", scores=scores)
        args.append("contr.poly" if scores is None else f"contr.poly(scores={py_lit(scores)})")
    else:
        # custom contrasts over the n fitted levels
        v = gen_custom_value(rng, max(n, 1))
        style = rng.choices(["literal", "ctor", "ctor_names", "ctx", "ctx_ctor"], [4, 2, 2, 2, 3])[0]
        if style == "literal":
            contr = dict(kind="custom", ctor=False, value=v, names=None)
            args.append(custom_text(v))
        elif style == "ctor":
            contr = dict(kind="custom", ctor=True, value=v, names=None)
            args.append(f"contr.custom({custom_text(v)})")
        elif style == "ctor_names":
            names = rng.sample(["u", "v", "w", "n1"], custom_ncols(v)) if custom_ncols(v) <= 4 else None
            contr = dict(kind="custom", ctor=True, value=v, names=names)
            args.append(f"contr.custom({custom_text(v)}, names={py_lit(names)})")
        else:
            mname = ctx_names.pop(0)
            ctx[mname] = v
            if style == "ctx":
                contr = dict(kind="custom", ctor=False, ctx=mname, names_ctx=None)
                args.append(mname)
            else:
                nname = None
                if rng.random() < 0.75:
                    nname = "N" + mname[1:]
                    ctx[nname] = rng.sample(["u", "v", "w", "n1"], custom_ncols(v))
                contr = dict(kind="custom", ctor=True, ctx=mname, names_ctx=nname)
                args.append(f"contr.custom({mname}" + (f", names={nname})" if nname else ")"))
    if levels is not None:
        args.append(f"levels={py_lit(levels)}")
    if rng.random() < 0.06:
        args.append("spans_intercept=False")
    return args, dict(contr=contr, levels=levels)


def mutate_ctx(rng, ctx):
    """the evaluation context of a reuse: usually the one of the fit; sometimes a custom contrast matrix
    or its names changed (other weights, a column more or fewer, a row more or fewer, names that no
    longer match, an empty dict)"""
    out, modes = {}, {}
    for k, v in ctx.items():
        if k.startswith("N"):
            continue
        names = ctx.get("N" + k[1:])
        mode = rng.choices(["same", "weights", "morecols", "onecol", "rows", "names", "empty", "ragged"],
                           [5, 2, 1.5, 1.5, 1.5, 5 if names is not None else 0, 0.5, 0.5])[0]
        nv = dict(v, vectors=[list(r) for r in v["vectors"]], keys=list(v["keys"]))
        n = len(v["vectors"][0]) if v["dict"] else len(v["vectors"])  # rows (levels)
        k_ = custom_ncols(v)
        if mode == "weights":
            nv["vectors"] = [[rng.choice(WEIGHTS) for _ in r] for r in v["vectors"]]
        elif mode == "morecols":
            if v["dict"]:
                nv["keys"].append("more")
                nv["vectors"].append([rng.choice(WEIGHTS) for _ in range(n)])
            else:
                nv["vectors"] = [r + [rng.choice(WEIGHTS)] for r in nv["vectors"]]
        elif mode == "onecol":
            if v["dict"]:
                nv["keys"], nv["vectors"] = nv["keys"][:1], nv["vectors"][:1]
            else:
                nv["vectors"] = [r[:1] for r in nv["vectors"]]
        elif mode == "rows":
            grow = rng.random() < 0.5 or n < 2  # (an array without any row is outside the model)
            if v["dict"]:
                nv["vectors"] = [r + ["1"] for r in nv["vectors"]] if grow else [r[:-1] for r in nv["vectors"]]
            else:
                nv["vectors"] = nv["vectors"] + [["1"] * k_] if grow else nv["vectors"][:-1]
        elif mode == "empty" and v["dict"]:  # `{}` (an array without rows is outside the model: its error class depends on the output route)
            nv["vectors"], nv["keys"] = [], []
        elif mode == "ragged" and len(nv["vectors"]) > 1:
            nv["vectors"][-1] = nv["vectors"][-1] + ["2"]
        if nv == v and mode != "names":
            mode = "same"
        out[k] = nv
        modes[k] = mode
        if names is not None:
            if mode == "names":
                names = names[:-1] if rng.random() < 0.5 else names + ["xn"]
            elif mode in ("morecols", "onecol") and rng.random() < 0.5:
                names = (names + ["xn"])[: custom_ncols(nv)]  # the caller adjusted the names as well
            out["N" + k[1:]] = names
    return out, modes


def gen_formula(rng, train, nparts=1, rich=True):
    cols = {c["name"]: c for c in train["cols"]}
    cats = [c["name"] for c in train["cols"] if c["name"] in ("A", "B", "G")]
    nums = [c["name"] for c in train["cols"] if c["name"] in ("x", "z")]
    direct_cat = [c["name"] for c in train["cols"] if c["name"] in cats and c["dtype"] != "int64"]
    atoms, ctx, ctx_names = {}, {}, ["M1", "M2", "M3", "M4", "M5", "M6"]
    made = {}

    def atom():
        r = rng.random()
        if r < 0.55 and cats:
            v = rng.choice(cats)
            if v in direct_cat and rng.random() < 0.5:
                return v
            if rich and rng.random() < 0.55 and ctx_names:
                if v in made and rng.random() < 0.6:
                    return made[v]  # the same coded factor again (in another term / part)
                args, desc = gen_contr(rng, cols[v], ctx, ctx_names)
                text = f"C({', '.join([v] + args)})"
                atoms[text] = dict(column=v, **desc)
                made[v] = text
                return text
            return f"C({v})"
        return rng.choice(nums) if nums else rng.choice(cats)

    def make_rhs():
        terms = []
        for _ in range(rng.randint(1, 4)):
            k = rng.choice([1, 1, 1, 2, 2, 3])
            fs = []
            for _ in range(k):
                a = atom()
                if a not in fs:
                    fs.append(a)
            op = ":" if rng.random() < 0.75 else "*"
            terms.append(op.join(fs))
        icpt = rng.choice(["", "", "", "0 + ", "-1 + "])
        return icpt + " + ".join(terms)

    rhs = make_rhs()
    if nparts > 1:
        # multi-part formula `p1 | p2 [| p3]`: the parts draw on the same few columns, so they share
        # factors (whose encoding is computed once and cached for the later parts)
        rhs = " | ".join([rhs] + [make_rhs() for _ in range(nparts - 1)])
        return dict(text=("y ~ " if rng.random() < 0.2 else "") + rhs, atoms=atoms, ctx=ctx)
    if rng.random() < 0.2:
        return dict(text="y ~ " + rhs, atoms=atoms, ctx=ctx)
    if rng.random() < 0.12 and not atoms:
        # hand-built factors with a declared kind (the first guard of _evaluate_factor)
        tl = []
        if rng.random() < 0.7:
            tl.append([{"expr": "1", "eval": "literal", "kind": None}])
        for _ in range(rng.randint(1, 2)):
            fs = []
            for _ in range(rng.choice([1, 1, 2])):
                r = rng.random()
                if r < 0.5 and cats:
                    v = rng.choice(cats)
                    kind = rng.choice(["categorical", "categorical", None])
                elif nums:
                    v = rng.choice(nums)
                    kind = rng.choice(["numerical", None, None])
                else:
                    continue
                if v not in [f["expr"] for f in fs]:
                    fs.append({"expr": v, "eval": "lookup", "kind": kind})
            if fs and sorted(f["expr"] for f in fs) not in [sorted(f["expr"] for f in t) for t in tl]:
                tl.append(fs)
        if len(tl) > (1 if tl and tl[0][0]["expr"] == "1" else 0):
            return {"terms": tl}
    return dict(text=rhs, atoms=atoms, ctx=ctx)


def gen_history(rng, multipart=False):
    """what happens to the recorded spec between the fit and its reuse (resolved against the live
    spec at run time: `i` modulo the number of parts, `picks` modulo the number of terms)"""
    r = rng.random()
    part = dict(op="part", i=rng.randrange(6))
    subset = dict(op="subset", picks=[rng.randrange(12) for _ in range(rng.choice([1, 1, 2, 2, 3]))])
    if rng.random() < 0.05:
        subset["bogus"] = rng.randrange(1, 9)
    if r < 0.58:
        steps = []
    elif r < 0.71:
        steps = [part]
    elif r < 0.87:
        steps = [subset]
    elif r < 0.93:
        steps = [part, subset]
    else:
        steps = [dict(op="pickle")]
    if multipart and rng.random() < 0.3:
        # ModelSpecs.subset with a formula of the same layout: per part, the nominated terms
        steps = [dict(op="subset_all", picks=[[rng.randrange(12) for _ in range(rng.choice([1, 2, 2, 3]))] for _ in range(4)],
                      extra=rng.random() < 0.08, keep=rng.choice([2, 3, 3, 3]))]
    if steps and steps[-1]["op"] != "pickle" and rng.random() < 0.15:
        steps.append(dict(op="pickle"))
    return steps


def gen_overrides(rng, materializer):
    if rng.random() >= 0.1:
        return None
    o = {}
    r = rng.random()
    if r < 0.45:
        o["na_action"] = rng.choice(["drop", "ignore", "raise"])
    elif r < 0.8:
        o["output"] = rng.choice(["pandas", "numpy", "sparse"])
    else:
        o["efr"] = rng.random() < 0.5
    return o


def cases(rng, tier):
    n = {"quick": 700, "thorough": 8000, "search": 300}[tier]
    for i in range(n):
        na_action = rng.choices(["drop", "raise", "ignore"], [7, 1, 2])[0]
        train = gen_train(rng, nulls=na_action != "raise")
        session = rng.random() < 0.14
        derive = gen_history(rng)
        has_part = any(st["op"] == "part" for st in derive)
        nparts = rng.choice([2, 2, 3]) if has_part and rng.random() < 0.9 else (2 if rng.random() < 0.08 else 1)
        if session and rng.random() < 0.5:
            nparts = rng.choice([2, 3])
        formula = gen_formula(rng, train, nparts)
        if any(d["contr"] and (d["contr"]["kind"] == "custom" or (d["contr"]["kind"] == "poly" and d["contr"]["scores"]))
               for d in formula.get("atoms", {}).values()):
            # weights / scores are written for the levels of the training column: no training row may be dropped
            for col in train["cols"]:
                fill = "0" if col["dtype"] == "float64" else next((v for v in col["values"] if v is not None), None)
                col["values"] = [fill if v is None else v for v in col["values"]]
        multi = "text" in formula and ("~" in formula["text"] or "|" in formula["text"])
        structured = "text" in formula and "|" in formula["text"]
        if multi and not has_part:
            if structured and rng.random() < 0.35:
                derive = gen_history(rng, multipart=True)
            if any(st["op"] == "subset" for st in derive):  # `subset` is a method of a single spec
                derive.insert(0, dict(op="part", i=rng.randrange(6)))
        malformed = rng.random() < 0.04
        tamper = []
        if rng.random() < 0.12 and not session:
            for _ in range(rng.choice([1, 1, 2])):
                tamper.append(dict(op=rng.choice(TAMPER_OPS), i=rng.randrange(6)))
        if na_action == "ignore":
            # a factor WITHOUT recorded categories that is encoded twice in one application (full and reduced rank)
            # finds, the second time, the categories its first encoding wrote back, and then announces a retained
            # null: the model encodes against the spec as it was handed over (TRUSTED) — not generated
            tamper = [dict(t, op="levels_drop") if t["op"] == "levels_none" else t for t in tamper]
        if tamper and "|" in formula.get("text", "") and not any(st["op"] == "part" for st in derive):
            # parts that share a factor also share its encoding within one call (`encoded_cache`, outside the
            # model): hand edits that make two parts record different state for one factor are not generated
            tamper = []
        materializer = "narwhals" if rng.random() < 0.22 else "pandas"
        output = rng.choice(["pandas", "pandas", "numpy", "sparse"] + (["narwhals"] if materializer == "narwhals" else []))
        ctx = formula.get("ctx", {})
        apps = []
        prior = None
        if session:
            # one recorded spec applied 3-4 times: the first application meets unseen levels; the later ones
            # meet the same set, a subset of it, or a superset
            catcols = [c for c in train["cols"] if is_cat_col(c) and c["name"] in ("A", "B", "G")]
            target = rng.choice(catcols) if catcols else None
            ints = target is not None and all(isinstance(v, int) for v in col_levels(target))
            pool = list(NEW_INT if ints else NEW_STR)
            rng.shuffle(pool)
            first = pool[: rng.choice([1, 2])]
            for j in range(rng.choice([3, 3, 4])):
                if j == 0:
                    unseen = first
                else:
                    kind = rng.choice(["same", "subset", "superset", "none"])
                    unseen = {"same": first, "subset": first[:1], "superset": first + pool[len(first): len(first) + 1], "none": []}[kind]
                arrow = materializer == "narwhals" and rng.random() < 0.4
                follow, modes = gen_follow(rng, train, False, na_action=na_action, arrow=arrow,
                                           force=None if target is None else {target["name"]: "same"})
                if target is not None and follow["nrows"] == 0:
                    follow, modes = gen_follow(rng, train, False, na_action=na_action, arrow=arrow, force={target["name"]: "same"})
                if target is not None and unseen and follow["nrows"]:
                    idx = [k for k, c in enumerate(follow["cols"]) if c["name"] == target["name"]][0]
                    col = mutate_col(rng, target, follow["nrows"], "gainall", NULL_P[na_action], new_pool=unseen)
                    follow["cols"][idx] = arrow_safe(col) if arrow else col
                    modes[target["name"]] = "gain"
                d = [] if j == 0 and rng.random() < 0.7 else gen_history(rng, multipart=structured and rng.random() < 0.5)
                if multi and any(st["op"] == "subset" for st in d) and not any(st["op"] == "part" for st in d):
                    d.insert(0, dict(op="part", i=rng.randrange(6)))
                if not multi:
                    d = [st for st in d if st["op"] not in ("part", "subset_all")]
                apps.append(dict(derive=d, follow=follow, modes=modes, ctx=ctx, follow_as="arrow" if arrow else "pandas"))
        else:
            arrow = materializer == "narwhals" and rng.random() < 0.45
            prior = None
            force = None
            if rng.random() < 0.1:
                # the reuse runs on a materializer OBJECT that already served another call: a fresh formula over the
                # same columns, usually one that fails at encoding time, i.e. after all its factors were evaluated;
                # often a categorical column of the fit arrives numeric
                prior = dict(fails=rng.random() < 0.75, col=rng.choice([c["name"] for c in train["cols"] if c["name"] != "y"]))
                catcols = [c["name"] for c in train["cols"] if is_cat_col(c) and c["name"] in ("A", "B", "G")]
                if catcols and rng.random() < 0.6:
                    force = {rng.choice(catcols): rng.choice(["tofloat", "toint"])}
            follow, modes = gen_follow(rng, train, malformed, tampered=bool(tamper), na_action=na_action, arrow=arrow, force=force)
            actx, cmodes = mutate_ctx(rng, ctx) if (ctx and rng.random() < 0.7) else (ctx, {})
            app = dict(derive=derive, follow=follow, modes=modes, ctx=actx, follow_as="arrow" if arrow else "pandas", tamper=tamper)
            if cmodes:
                app["ctx_modes"] = cmodes
            ov = gen_overrides(rng, materializer)
            if ov:
                app["overrides"] = ov
            apps.append(app)
        case = dict(
            formula=formula,
            train=train,
            apps=apps,
            materializer=materializer,
            output=output,
            na_action=na_action,
            efr=rng.random() < 0.75,
        )
        if not session and prior:
            case["prior"] = prior
        yield case


# hand edits of the recorded spec (a user may `spec.update(structure=…)` or supply encoder state):
# they reach the padding / zero-fill / error branches of `_enforce_structure` and the un-pinned path
TAMPER_OPS = ["cols_add", "cols_drop", "cols_rename", "levels_drop", "levels_add", "levels_none", "enc_remove", "kind_flip", "levels_dup"]


def apply_tamper(ms, ops):
    from formulaic.parser.types import Factor

    for op in ops:
        name, i = op["op"], op["i"]
        if name.startswith("cols"):
            if not ms.structure:
                continue
            cols = ms.structure[i % len(ms.structure)].columns
            if name == "cols_add":
                cols.append("EXTRA" if "EXTRA" not in cols else f"EXTRA{len(cols)}")  # names stay distinct
            elif name == "cols_drop" and cols:
                cols.pop()
            elif name == "cols_rename" and cols:
                cols[-1] = cols[-1] + "_r"
            continue
        keys = list(ms.encoder_state)
        if not keys:
            continue
        k = keys[i % len(keys)]
        kind, state = ms.encoder_state[k]
        if name == "enc_remove":
            del ms.encoder_state[k]
        elif name == "kind_flip":
            other = Factor.Kind.NUMERICAL if kind is Factor.Kind.CATEGORICAL else Factor.Kind.CATEGORICAL
            ms.encoder_state[k] = (other, state)
        elif isinstance(state, dict) and "categories" in state:
            cats = list(state["categories"])
            if name == "levels_drop" and cats:
                cats.pop()
            elif name == "levels_add":
                ints = bool(cats) and all(isinstance(x, (int, numpy.integer)) for x in cats)
                cats.append(90 + len(cats) if ints else f"NEW{len(cats)}")
            elif name == "levels_dup" and cats:
                cats.append(cats[0])
            if name == "levels_none":
                state = {k2: v for k2, v in state.items() if k2 != "categories"}
            else:
                state = dict(state, categories=cats)
            ms.encoder_state[k] = (kind, state)


def norm_case(c):
    """cases written before sessions existed hold one application at the top level"""
    if "apps" in c:
        return c
    app = dict(derive=c.get("derive", []), follow=c["follow"], modes=c.get("modes", {}), ctx={}, follow_as="pandas",
               tamper=c.get("tamper", []))
    out = {k: v for k, v in c.items() if k not in ("derive", "follow", "modes", "tamper")}
    out["apps"] = [app]
    out.setdefault("materializer", "pandas")
    return out


def formula_text(c):
    f = c["formula"]
    if "text" in f:
        return f["text"]
    return " + ".join(":".join(x["expr"] for x in t) for t in f["terms"])


def used_columns(c):
    f = c["formula"]
    text = formula_text(c)
    for a, d in f.get("atoms", {}).items():
        text = text.replace(a, " " + d["column"] + " ")
    return sorted(set(re.findall(r"[A-Za-z_]\w*", text)) - {"C"})


def describe(c):
    c = norm_case(c)
    used = used_columns(c)
    f = c["formula"]
    kinds = sorted({(d["contr"] or {}).get("kind", "default") + ("+levels" if d["levels"] is not None else "") for d in f.get("atoms", {}).values()})
    out = []
    for app in c["apps"]:
        ms = sorted({app["modes"].get(u, "?") for u in used})
        tam = "|tamper:" + "+".join(sorted({t["op"] for t in app["tamper"]})) if app.get("tamper") else ""
        der = "|derive:" + ">".join(st["op"] for st in app["derive"]) if app.get("derive") else ""
        cm = "|ctx:" + "+".join(sorted(set(app["ctx_modes"].values()) - {"same"})) if app.get("ctx_modes") else ""
        ov = "|override:" + "+".join(sorted(app["overrides"])) if app.get("overrides") else ""
        out.append(",".join(ms) + der + tam + cm + ov + ("|arrow" if app.get("follow_as") == "arrow" else ""))
    t = formula_text(c)
    return (" ; ".join(out) + ("|ix" if (":" in t or "*" in t) else "") + ("|contr:" + "+".join(kinds) if kinds else "")
            + ("|narwhals" if c.get("materializer") == "narwhals" else "") + ("|session" if len(c["apps"]) > 1 else "")
            + ("|prior" if c.get("prior") else ""))


def nontrivial(c):
    c = norm_case(c)
    t = formula_text(c)
    for a in c["formula"].get("atoms", {}):
        t = t.replace(a, "K")
    used = used_columns(c)
    return (":" in t or "*" in t) and any(app["modes"].get(u, "same") != "same" for app in c["apps"] for u in used)


# ----------------------------------------------------------------------------- the real code


def build_formula(f):
    from formulaic import Formula
    from formulaic.parser.types import Factor, Term

    if "text" in f:
        return f["text"]
    return Formula([Term([Factor(x["expr"], eval_method=x["eval"], kind=x["kind"]) for x in t]) for t in f["terms"]])


def ctx_py(ctx):
    """the evaluation context as Python objects"""
    return {k: (list(v) if isinstance(v, list) else custom_py(v)) for k, v in ctx.items()}


def factor_json(fa, atoms):
    em = fa.eval_method.value
    kind = None if fa.kind.value == "unknown" else fa.kind.value
    if em == "lookup":
        return dict(expr=fa.expr, via="lookup", column=fa.expr, declared=kind, value="0")
    if em == "literal":
        return dict(expr=fa.expr, via="literal", column="", declared=kind, value=fstr(Fraction(fa.expr)))
    if fa.expr in atoms:
        d = atoms[fa.expr]
        return dict(expr=fa.expr, via="cwrap", column=d["column"], declared=kind, value="0", desc=dict(contr=d["contr"], levels=d["levels"]))
    m = re.fullmatch(r"C\((\w+)\)", fa.expr)
    if not m:
        raise ValueError("unsupported python factor " + fa.expr)
    return dict(expr=fa.expr, via="cwrap", column=m.group(1), declared=kind, value="0", desc=dict(contr=None, levels=None))


def spec_json(ms, atoms):
    enc = []
    for expr, (kind, state) in ms.encoder_state.items():
        cats = state.get("categories") if isinstance(state, dict) else None
        enc.append(dict(expr=expr, kind=kind.value, levels=None if cats is None else [val_json(x) for x in cats]))
    return dict(
        terms=[[factor_json(fa, atoms) for fa in t.factors] for t in ms.formula],
        structure=[
            dict(
                scoped=[
                    dict(factors=[dict(expr=sf.factor.expr, reduced=bool(sf.reduced)) for sf in st.factors], scale=fstr(Fraction(st.scale)))
                    for st in s.scoped_terms
                ],
                columns=[str(x) for x in s.columns],
            )
            for s in ms.structure
        ],
        encoder_state=enc,
        transform_state=[[str(k), repr(v)[:60]] for k, v in ms.transform_state.items()],
        na_action=ms.na_action.value,
        efr=bool(ms.ensure_full_rank),
        output=ms.output,
    )


def flatten(x):
    from formulaic.utils.structured import Structured

    return list(x._flatten()) if isinstance(x, Structured) else [x]


def snap(x, depth=0):
    """a value-level snapshot of a state object (nested dicts included)"""
    from formulaic.transforms.contrasts import Contrasts, ContrastsState

    if isinstance(x, dict):
        return {"dict": [[snap(k, depth + 1), snap(v, depth + 1)] for k, v in x.items()]}
    if isinstance(x, (list, tuple)):
        return [snap(v, depth + 1) for v in x]
    if isinstance(x, ContrastsState):
        return {"ContrastsState": [snap(x.contrasts, depth + 1), snap(list(x.levels), depth + 1)]}
    if isinstance(x, Contrasts):
        return {type(x).__name__: [[k, snap(v, depth + 1)] for k, v in sorted(vars(x).items())]}
    if isinstance(x, numpy.ndarray):
        return {"ndarray": x.tolist()}
    if isinstance(x, (str, int, float, bool, type(None))):
        return repr(x)
    if hasattr(x, "value") and hasattr(x, "name"):  # enums (Factor.Kind)
        return str(x)
    return repr(x)[:80]


def state_snapshot(specs):
    return [dict(encoder_state=snap(ms.encoder_state), transform_state=snap(ms.transform_state),
                 structure=[[str(s.term), [str(c) for c in s.columns]] for s in (ms.structure or [])]) for ms in flatten(specs)]


def matrix_json(m, output):
    names = [str(x) for x in m.model_spec.column_names]
    native = getattr(m, "__wrapped__", m)
    if output == "narwhals":
        try:
            import pyarrow

            if isinstance(native, pyarrow.Table):
                native = native.to_pandas()
        except ImportError:  # pragma: no cover
            pass
        if hasattr(native, "to_native"):
            native = native.to_native()
        if isinstance(native, numpy.ndarray):
            arr, names2 = native, names
        else:
            names2 = [str(x) for x in native.columns]
            arr = native.to_numpy(dtype=object) if native.shape[1] else numpy.empty((native.shape[0], 0))
        names = names2
    elif output == "pandas":
        names = [str(x) for x in m.columns]
        arr = m.to_numpy(dtype=object) if m.shape[1] else numpy.empty((m.shape[0], 0))
    elif output == "sparse":
        arr = m.toarray()
    else:
        arr = numpy.asarray(m)
    ncols = int(arr.shape[1])
    values = [[cell_out(arr[i, j]) for i in range(arr.shape[0])] for j in range(ncols)]
    return dict(names=names, values=values, ncols=ncols, spec_names=[str(x) for x in m.model_spec.column_names])


def term_text(t):
    """a term as one writes it in a formula: its factors' source text joined by `:`. (NOT `str(term)`: the
    printed form back-quotes a factor whose text contains a colon — a dict literal inside `C(…)` — and a
    back-quoted name re-parses as the lookup of a data column of that name.)"""
    return ":".join(f.expr for f in t.factors)


class DeriveFailed(Exception):
    def __init__(self, cls, resolved):
        super().__init__(cls)
        self.cls, self.resolved = cls, resolved


def apply_derive(specs, steps, as_text):
    """the history between fit and reuse, on the LIVE spec object(s); returns the derived object
    and the steps with their indices resolved (what the model is told). A step the library refuses
    raises DeriveFailed(exception class, resolved steps up to and including it)."""
    import pickle

    from formulaic import Formula

    cur, resolved = specs, []
    for st in steps:
        parts = flatten(cur)
        try:
            if st["op"] == "part":  # one part of a multi-part spec, used on its own
                i = st["i"] % len(parts)
                resolved.append(dict(op="part", i=i))
                cur = parts[i]
            elif st["op"] == "subset":  # ModelSpec.subset(terms)
                if len(parts) != 1:
                    raise RuntimeError("generator discipline: subset needs a single spec")
                ms = parts[0]
                terms = list(ms.formula)
                if [str(r.term) for r in ms.structure] != [str(t) for t in terms]:
                    raise RuntimeError("structure rows are not in formula order")
                picks = []
                for p in st["picks"]:
                    if terms and p % len(terms) not in picks:
                        picks.append(p % len(terms))
                texts = [term_text(terms[i]) for i in picks]
                objs = [terms[i] for i in picks]
                if st.get("bogus"):  # a term the spec does not have: position "one past the last" for the model
                    from formulaic.parser.types import Factor, Term

                    at = st["bogus"] % (len(picks) + 1)
                    picks.insert(at, len(terms))
                    texts.insert(at, "no_such_column")
                    objs.insert(at, Term([Factor("no_such_column", eval_method="lookup")]))
                resolved.append(dict(op="subset", picks=picks))
                # the usual call nominates the terms by their text; hand-built factors (declared kinds)
                # are nominated as Term objects
                cur = ms.subset(texts if as_text else objs)
            elif st["op"] == "subset_all":  # ModelSpecs.subset(formula with the layout of the specs)
                if not hasattr(cur, "_flatten") or len(parts) < 2:
                    raise RuntimeError("generator discipline: subset_all needs a multi-part spec")
                has_lhs = "lhs" in cur._structure
                nrhs = len(parts) - (1 if has_lhs else 0)
                if nrhs < 2:
                    raise RuntimeError("generator discipline: subset_all needs at least two right-hand parts")
                keep = (1 if has_lhs else 0) + min(nrhs, max(2, st.get("keep", 3)))
                picks_all, texts = [], []
                for pi, ms in enumerate(parts[:keep]):
                    terms = list(ms.formula)
                    if [str(r.term) for r in ms.structure] != [str(t) for t in terms]:
                        raise RuntimeError("structure rows are not in formula order")
                    picks = []
                    for p in st["picks"][pi % len(st["picks"])]:
                        if terms and p % len(terms) not in picks:
                            picks.append(p % len(terms))
                    picks_all.append(picks)
                    texts.append([term_text(terms[i]) for i in picks])
                if st.get("extra") and keep == len(parts):  # one part more than the specs have
                    picks_all.append([0])
                    texts.append([texts[-1][0]] if texts[-1] else ["1"])
                if has_lhs:
                    f = Formula(lhs=texts[0], rhs=tuple(texts[1:]))
                else:
                    f = Formula(tuple(texts))
                resolved.append(dict(op="subset_all", picks=picks_all))
                cur = cur.subset(f)
            else:  # stored and loaded again
                resolved.append(dict(op="pickle"))
                cur = pickle.loads(pickle.dumps(cur))
        except RuntimeError:
            raise
        except Exception as e:
            raise DeriveFailed(type(e).__name__, resolved) from e
    return cur, resolved


def to_data(frame_json, follow_as):
    df = make_frame(frame_json)
    if follow_as == "arrow":
        import pyarrow

        return pyarrow.Table.from_pandas(df)
    return df


def live_kinds(materializer, data):
    from formulaic.materializers import NarwhalsMaterializer, PandasMaterializer

    if materializer == "narwhals":
        probe = NarwhalsMaterializer(data)
        return {k: ("categorical" if probe._is_categorical(v) else "numerical") for k, v in probe.data_context.items()}
    probe = PandasMaterializer(data)
    return {k: ("categorical" if probe._is_categorical(data[k]) else "numerical") for k in data.columns}


def poly_tables(atoms):
    """PARAMETER of the model: for every `contr.poly` atom the live coding matrix per level count"""
    from formulaic.transforms.contrasts import PolyContrasts

    out = {}
    for expr, d in atoms.items():
        if d["contr"] and d["contr"]["kind"] == "poly":
            tabs = []
            for n in range(2, 9):
                try:
                    with warnings.catch_warnings():
                        warnings.simplefilter("ignore")
                        m = PolyContrasts(scores=d["contr"]["scores"])._get_coding_matrix(list(range(n)), reduced_rank=True)
                except Exception:
                    continue
                m = numpy.asarray(m)
                if not numpy.isfinite(m).all():
                    continue
                tabs.append(dict(n=n, matrix=[[fstr(Fraction(float(m[i, j]))) for j in range(m.shape[1])] for i in range(m.shape[0])]))
            out[expr] = tabs
    return out


def recorded_codings(fit_objs, atoms):
    """for the oracle: the coding matrices the FIT recorded (`ContrastsState.get_coding_matrix`), per part and factor"""
    out = []
    for ms in fit_objs:
        per = {}
        try:
            fc = {f.expr: cs for f, cs in ms.factor_contrasts.items()}
        except Exception:
            fc = {}
        for expr, cs in fc.items():
            for red in (True, False):
                try:
                    with warnings.catch_warnings():
                        warnings.simplefilter("ignore")
                        m = cs.get_coding_matrix(reduced_rank=red)
                    per[f"{expr}|{int(red)}"] = dict(
                        levels=[val_json(x) for x in m.index], cols=[str(x) for x in m.columns],
                        matrix=[[fstr(Fraction(float(v))) for v in row] for row in m.to_numpy(dtype=float)])
                except Exception:
                    continue
        out.append(per)
    return out


def impl(c):
    from formulaic import model_matrix
    from formulaic.errors import FormulaicWarning
    from formulaic.materializers import NarwhalsMaterializer, PandasMaterializer
    from formulaic.materializers.base import FormulaMaterializer

    c = norm_case(c)
    atoms = c["formula"].get("atoms", {})
    train = make_frame(c["train"])
    out = {}
    kw = {}
    if c["materializer"] == "narwhals":
        kw["materializer"] = "narwhals"
    if c["formula"].get("ctx"):
        kw["context"] = ctx_py(c["formula"]["ctx"])
    with warnings.catch_warnings():
        warnings.simplefilter("ignore")
        try:
            mm = model_matrix(build_formula(c["formula"]), train, output=c["output"], na_action=c["na_action"], ensure_full_rank=c["efr"], **kw)
        except Exception as e:
            return dict(train_error=type(e).__name__, error="fit:" + type(e).__name__)
    fit = mm.model_spec
    # what the fit recorded (every part), before anything is derived from it or applied
    out["fit_specs"] = [spec_json(ms, atoms) for ms in flatten(fit)]
    out["poly_tables"] = poly_tables(atoms)
    out["recorded_codings"] = recorded_codings(flatten(fit), atoms)
    snap0 = state_snapshot(fit)
    out["apps"] = []
    for app in c["apps"]:
        ao = {}
        out["apps"].append(ao)
        specs = fit
        try:
            specs, ao["derive_resolved"] = apply_derive(fit, app.get("derive", []), "text" in c["formula"])
        except DeriveFailed as e:
            ao["derive_error"], ao["derive_resolved"] = e.cls, e.resolved
            continue
        ao["derived"] = [spec_json(ms, atoms) for ms in flatten(specs)]
        if app.get("tamper"):
            import pickle

            specs = pickle.loads(pickle.dumps(specs))  # hand edits are made on a copy: the fit's record stays
            for ms in flatten(specs):
                apply_tamper(ms, app["tamper"])
        ao["specs"] = [spec_json(ms, atoms) for ms in flatten(specs)]  # the spec(s) actually reused
        data = to_data(app["follow"], app.get("follow_as", "pandas"))
        ao["kinds"] = live_kinds(c["materializer"], data)

        order, generated = [], []
        o_prep = FormulaMaterializer._prepare_factor_evaluation_model_spec
        o_enf = FormulaMaterializer._enforce_structure

        def w_prep(self, model_specs):
            factors, es = o_prep(self, model_specs)
            order.clear()
            order.extend(f.expr for f in factors)
            return factors, es

        def w_enf(self, cols, spec, drop_rows):
            generated.append([[str(k) for k in col[2]] for col in cols])
            return o_enf(self, cols, spec, drop_rows)

        FormulaMaterializer._prepare_factor_evaluation_model_spec = w_prep
        FormulaMaterializer._enforce_structure = w_enf
        ov = {}
        for k, v in (app.get("overrides") or {}).items():
            ov["ensure_full_rank" if k == "efr" else k] = v
        eff_output = ov.get("output", c["output"])
        actx = ctx_py(app.get("ctx") or {})
        try:
            with warnings.catch_warnings(record=True) as wlist:
                warnings.simplefilter("always")
                try:
                    if c.get("prior"):
                        # ONE materializer object: an earlier call on it, then the recorded spec
                        cls = NarwhalsMaterializer if c["materializer"] == "narwhals" else PandasMaterializer
                        if hasattr(specs, "get_materializer"):
                            mat = specs.get_materializer(data, context=actx)  # a single ModelSpec builds its own
                        else:
                            mat = cls(data, context=actx)
                        exprs = sorted({f["expr"] for s in ao["specs"] for t in s["terms"] for f in t if f["via"] != "literal"})
                        text = " + ".join(exprs + ([f"C({c['prior']['col']}, contr.treatment(base='__no_such_level__'))"] if c["prior"]["fails"] else []))
                        try:
                            mat.get_model_matrix(text or "1", output=eff_output, na_action=ov.get("na_action", c["na_action"]))
                            ao["prior_outcome"] = "matrix"
                        except Exception as e:
                            ao["prior_outcome"] = type(e).__name__
                        generated.clear()
                        wlist.clear()
                        m2 = mat.get_model_matrix(specs, **ov)
                    else:
                        m2 = specs.get_model_matrix(data, context=actx, **ov) if actx else specs.get_model_matrix(data, **ov)
                    outcome = dict(results=[matrix_json(m, eff_output) for m in flatten(m2)])
                except Exception as e:
                    outcome = dict(error=type(e).__name__)
            outcome["warnings"] = sorted({w.category.__name__ for w in wlist if issubclass(w.category, FormulaicWarning)})
        finally:
            FormulaMaterializer._prepare_factor_evaluation_model_spec = o_prep
            FormulaMaterializer._enforce_structure = o_enf
        ao["order"] = list(order)
        ao["generated"] = generated
        ao["outcome"] = outcome
        ao["specs_after"] = [spec_json(ms, atoms)["encoder_state"] for ms in flatten(specs)]
        snap1 = state_snapshot(fit)
        if snap1 != snap0:
            ao["state_changed"] = _snap_diff(snap0, snap1)
            snap0 = snap1
        if "error" in outcome:
            out.setdefault("error", outcome["error"])  # counted in the evidence's error_kinds histogram
    return out


def _snap_diff(a, b):
    import json

    for i, (x, y) in enumerate(zip(a, b)):
        for k in x:
            if x[k] != y[k]:
                return f"part {i} {k}: {json.dumps(x[k])[:300]} -> {json.dumps(y[k])[:300]}"
    return "number of parts"


# ----------------------------------------------------------------------------- model side


def contr_json(desc, ctx, tables):
    """descriptor of a `C(…)` atom -> what the engine decodes, with context names resolved against `ctx`"""
    k = desc["contr"]
    lv = None if desc["levels"] is None else [val_json(x) for x in desc["levels"]]
    if k is None:
        return None, lv
    if k["kind"] == "treatment":
        return dict(kind="treatment", sas=k["sas"], base=val_json(k["base"])), lv
    if k["kind"] == "poly":
        return dict(kind="poly", scores=None if k["scores"] is None else [str(x) for x in k["scores"]], tables=tables or []), lv
    if k["kind"] == "custom":
        if "ctx" in k:
            v = ctx.get(k["ctx"])
            names = ctx.get(k["names_ctx"]) if k.get("names_ctx") else None
        else:
            v, names = k["value"], k.get("names")
        return dict(kind="custom", dict=v["dict"], ctor=k["ctor"], vectors=v["vectors"], keys=v["keys"], names=names), lv
    return dict(k), lv


def resolve_spec(sj, ctx, tables):
    out = dict(sj)
    out["terms"] = []
    for t in sj["terms"]:
        nt = []
        for f in t:
            g = {k: v for k, v in f.items() if k != "desc"}
            if f["via"] == "cwrap":
                g["contr"], g["levels"] = contr_json(f["desc"], ctx, tables.get(f["expr"]))
            nt.append(g)
        out["terms"].append(nt)
    return out


def frame_json(fr):
    return dict(
        nrows=fr["nrows"],
        cols=[
            dict(
                name=col["name"],
                dtype=col["dtype"],
                cells=[case_cell(col["dtype"], v) for v in col["values"]],
                categories=[val_json(x) for x in col["categories"]] if "categories" in col else None,
            )
            for col in fr["cols"]
        ],
    )


def route_of(c, app):
    if c["materializer"] == "narwhals":
        return "arrow" if app.get("follow_as") == "arrow" else "narwhals"
    return "pandas"


def request(c, o):
    c = norm_case(c)
    if "apps" not in o:
        return dict(apps=[])
    reqs = []
    tables = o.get("poly_tables", {})
    for app, ao in zip(c["apps"], o["apps"]):
        ctx = app.get("ctx") or {}
        res = lambda specs: [resolve_spec(s, ctx, tables) for s in specs]
        if "specs" not in ao:  # the library refused the derivation: the model is asked to derive as well
            reqs.append(dict(specs=[], frame=dict(nrows=0, cols=[]), order=[], derive=ao.get("derive_resolved", []),
                             fit_specs=res(o["fit_specs"]), derived=[], replay_on="model"))
            continue
        r = dict(specs=res(ao["specs"]), frame=frame_json(app["follow"]), order=ao["order"], route=route_of(c, app))
        if app.get("overrides"):
            r["overrides"] = app["overrides"]
        # the model derives the spec itself from what the FIT recorded and replays ITS derivation
        # (a spec hand-edited after the derivation is replayed as read back)
        r.update(derive=ao["derive_resolved"], fit_specs=res(o["fit_specs"]), derived=res(ao["derived"]),
                 replay_on="live" if app.get("tamper") else "model")
        reqs.append(r)
    return dict(apps=reqs)


def inexact(c):
    """coding matrices whose entries are not dyadic: products are rounded by the implementation"""
    for d in c["formula"].get("atoms", {}).values():
        k = d["contr"]
        if k and (k["kind"] in ("poly", "diff") or (k["kind"] == "helmert" and k["scale"])):
            return True
    return False


def close(a, b, tol=1e-9):
    if a == b:
        return True
    if a is None or b is None or str(a).startswith("obj:") or str(b).startswith("obj:"):
        return False
    x, y = Fraction(a), Fraction(b)
    return abs(x - y) <= tol * max(1, abs(x), abs(y))


def values_agree(vi, vm, approx):
    if vi == vm:
        return True
    if not approx or len(vi) != len(vm):
        return False
    return all(len(a) == len(b) and all(close(x, y) for x, y in zip(a, b)) for a, b in zip(vi, vm))


def agree(c, o, m):
    c = norm_case(c)
    if "driver_error" in m:
        return "driver: " + m["driver_error"][:300]
    if "train_error" in o:
        return None  # nothing was recorded, so there is nothing to reuse (counted as `fit:<class>` in the evidence)
    approx = inexact(c)
    for i, (app, ao, am) in enumerate(zip(c["apps"], o["apps"], m.get("apps", []))):
        why = agree_app(c, app, o, ao, am, approx)
        if why:
            return (f"application {i + 1} of {len(c['apps'])}: " if len(c["apps"]) > 1 else "") + why
    if len(m.get("apps", [])) != len(o["apps"]):
        return "model answered %d of %d applications" % (len(m.get("apps", [])), len(o["apps"]))
    return None


def agree_app(c, app, o, ao, m, approx):
    if "derive_error" in ao or "derive_error" in m:
        if ao.get("derive_error") == m.get("derive_error"):
            return None
        return f"deriving the spec {ao.get('derive_resolved')}: impl {ao.get('derive_error', 'ok')} vs model {m.get('derive_error', 'ok')}"
    if m.get("derived_diff"):
        return (f"the spec derived by {ao.get('derive_resolved')} does not carry what the fit recorded: it differs from the "
                f"model's derivation in {m['derived_diff']}")
    if "pooled" not in m:
        return "model: " + str(m)[:200]
    if sorted(m["pooled"]) != sorted(ao["order"]):
        return f"pooled factor set differs: impl {sorted(ao['order'])} vs model {sorted(m['pooled'])}"
    for name, kind in m["kinds"]:
        if ao["kinds"].get(name) != kind:
            return f"kind of column {name}: live _is_categorical says {ao['kinds'].get(name)}, generated table says {kind}"
    # contract of the parameter: the live polynomial coding matrix is the model's unnormalised one, column k over sqrt(norms2[k])
    for pc in m.get("poly_checks", []):
        tab = [t for t in o["poly_tables"].get(pc["expr"], []) if t["n"] == pc["n"]]
        if not tab:
            continue
        for i, row in enumerate(tab[0]["matrix"]):
            for j, v in enumerate(row):
                want = float(Fraction(pc["raw"][i][j])) / math.sqrt(float(Fraction(pc["norms2"][j])))
                if abs(float(Fraction(v)) - want) > 1e-9 * max(1.0, abs(want)):
                    return f"contr.poly coding matrix for {pc['n']} levels: live entry [{i}][{j}] = {float(Fraction(v))}, model {want}"
    oc = ao["outcome"]
    if "error" in oc or "error" in m:
        if oc.get("error") != m.get("error"):
            return f"impl {oc.get('error', 'returns a matrix')} vs model {m.get('error', 'returns a matrix')}"
        return None
    if len(oc["results"]) != len(m["results"]):
        return "number of matrices differs"
    for i, (ri, rm) in enumerate(zip(oc["results"], m["results"])):
        if ri["names"] != rm["names"]:
            return f"part {i}: names {ri['names']} vs model {rm['names']}"
        if ri["ncols"] != len(rm["names"]):
            return f"part {i}: {ri['ncols']} columns vs model {len(rm['names'])}"
        if not values_agree(ri["values"], rm["values"], approx):
            return f"part {i}: values differ: impl {ri['values']} vs model {rm['values']}"
        if i < len(ao["generated"]) and ao["generated"][i] != rm["generated"]:
            return f"part {i}: generated names before _enforce_structure {ao['generated'][i]} vs model {rm['generated']}"
    warn_m = any(r["warn"] for r in m["results"])
    warn_i = "DataMismatchWarning" in oc["warnings"]
    if warn_m != warn_i:
        return f"DataMismatchWarning: impl {warn_i} vs model {warn_m}"
    if m.get("spec_after") is not None and m["spec_after"] != ao["specs_after"]:
        return f"encoder_state of the reused spec after the application: impl {ao['specs_after']} vs model {m['spec_after']}"
    return None


# ----------------------------------------------------------------------------- oracle (implementation only)


def _follow_cols(app):
    return {col["name"]: col for col in app["follow"]["cols"]}


def _recorded(app, o, ao):
    """expr -> {"kind", "levels"}: what was RECORDED for each factor. For a spec as the fit (and any
    derivation: a part used alone, subset, pickle) left it, that is what the fit recorded for the
    factor — read from the reused spec itself and, where a derivation did not hand it on, from the
    specs of the fit (every part: a factor shared by several parts is evaluated and encoded once per
    fit). For a spec that was hand-edited afterwards it is what the edited spec says."""
    sources = list(ao["specs"])
    if app.get("tamper"):
        pass
    else:
        sources = list(o.get("fit_specs", [])) + sources  # the FIT's record first: a later application must not have changed it
    rec = {}
    for s in sources:
        for e in s["encoder_state"]:
            rec.setdefault(e["expr"], e)
    return rec


def _explicit_levels(f):
    d = f.get("desc") or {}
    return None if d.get("levels") is None else [val_json(x) for x in d["levels"]]


def _contr_fails(f, app):
    """the `contrasts` argument of the factor cannot be turned into a coding at all on this application's
    context (so the reuse fails whatever the data are)"""
    d = f.get("desc") or {}
    k = d.get("contr")
    return bool(k and k["kind"] == "custom" and "ctx" in k and app.get("ctx_modes", {}).get(k["ctx"], "same") != "same")


def _kind_changes(app, o, ao):
    """[(expr, recorded, new)] for pooled factors with recorded encoder state whose column is present"""
    cols = _follow_cols(app)
    rec = _recorded(app, o, ao)
    if app.get("tamper"):  # hand-edited parts may disagree: the pooled evaluation spec is a dict.update (last wins)
        for s in ao["specs"]:
            for e in s["encoder_state"]:
                rec[e["expr"]] = e
    seen, changes, declared_conflict = set(), [], False
    for s in ao["specs"]:
        for t in s["terms"]:
            for f in t:
                if f["expr"] in seen or f["via"] == "literal":
                    continue
                seen.add(f["expr"])
                if f["column"] not in cols:
                    continue
                new = "categorical" if f["via"] == "cwrap" else ao["kinds"][f["column"]]
                if f["declared"] is not None and f["declared"] != new:
                    if f["declared"] == "categorical":
                        new = "categorical"
                    else:
                        declared_conflict = True
                if f["expr"] in rec and rec[f["expr"]]["kind"] != new:
                    changes.append((f["expr"], rec[f["expr"]]["kind"], new))
    return changes, declared_conflict


def oracle(c, o):
    c = norm_case(c)
    if "harness_exception" in o:
        return "harness could not run the implementation: " + o["harness_exception"]
    if "train_error" in o:
        return None
    for i, (app, ao) in enumerate(zip(c["apps"], o["apps"])):
        why = oracle_app(c, app, o, ao)
        if why:
            return (f"application {i + 1} of {len(c['apps'])}: " if len(c["apps"]) > 1 else "") + why
    return None


def oracle_app(c, app, o, ao):
    if "derive_error" in ao:
        return None
    # clause 4: applying a recorded spec does not change what it records
    if ao.get("state_changed") and not app.get("tamper") and not any(v != "same" for v in app.get("ctx_modes", {}).values()):
        # (a `contrasts` object taken from a CHANGED evaluation context is written into the state for introspection)
        return "the application changed the state of the recorded spec: " + ao["state_changed"]
    cols = _follow_cols(app)
    oc = ao["outcome"]
    ov = app.get("overrides") or {}
    na_action = ov.get("na_action", c["na_action"])
    factors = {}
    for s in ao["specs"]:
        for t in s["terms"]:
            for f in t:
                if f["via"] != "literal":
                    factors.setdefault(f["expr"], f)
    involved = sorted({f["column"] for f in factors.values()})
    missing = [v for v in involved if v not in cols]
    has_null = any(v is None for k in involved if k in cols for v in cols[k]["values"])
    contr_fail = any(_contr_fails(f, app) for f in factors.values())
    other_cause = bool(missing) or (na_action == "raise" and has_null) or contr_fail
    changes, declared_conflict = _kind_changes(app, o, ao)

    # clause 1
    if changes:
        e, was, now = changes[0]
        if "error" not in oc:
            return (f"factor `{e}` was {was} when the spec was recorded and is {now} in the follow-up data, "
                    f"but a matrix was returned instead of an encoding error (columns {oc['results'][-1]['names']})")
        if not other_cause and oc["error"] != "FactorEncodingError":
            return f"factor `{e}` changed kind ({was} -> {now}) but the error raised is {oc['error']}, not an encoding error"
        return None
    if "error" in oc:
        if other_cause or declared_conflict or app.get("tamper"):
            return None  # a hand-edited spec may legitimately be rejected by _enforce_structure
        return f"no factor changed kind and every column is present, but reuse raised {oc['error']} instead of producing the recorded columns"

    # clauses 2 and 3 on a matrix
    n = app["follow"]["nrows"]
    alive = [True] * n
    if na_action == "drop":
        for k in involved:
            for i, v in enumerate(cols[k]["values"]):
                if v is None:
                    alive[i] = False
    if len(oc["results"]) != len(ao["specs"]):
        return "number of matrices differs from the number of recorded specs"
    for s, r in zip(ao["specs"], oc["results"]):
        want = [x for t in s["structure"] for x in t["columns"]]
        if r["names"] != want:
            return f"column names {r['names']} differ from the recorded {want}"
        if r["ncols"] != len(want):
            return f"{r['ncols']} columns for {len(want)} recorded names"
    rec = _recorded(app, o, ao)
    encoded = {sf["expr"] for s in ao["specs"] for t in s["structure"] for st in t["scoped"] for sf in st["factors"]}
    approx = inexact(c)
    for expr, f in factors.items():
        e = rec.get(expr)
        if e is None or e["kind"] != "categorical" or expr not in encoded:
            continue
        levels = _explicit_levels(f)
        if levels is None:
            levels = e["levels"]
        if levels is None:
            continue
        col = cols[f["column"]]
        cells = [case_cell(col["dtype"], v) for v in col["values"]]
        surviving = [x for i, x in enumerate(cells) if alive[i] and x is not None]
        unseen = [x for x in surviving if x not in levels]
        if unseen and "DataMismatchWarning" not in oc["warnings"]:
            return f"factor `{expr}`: value {unseen[0]} was not a level at fit time ({levels}) and no DataMismatchWarning was raised (warnings: {oc['warnings']})"
        contr = (f.get("desc") or {}).get("contr")
        dummy_coded = contr is None or contr["kind"] == "treatment"
        for l in levels:
            if l in cells or not dummy_coded:
                continue
            txt = l["s"] if "s" in l else l["n"] if "n" in l else str(l["b"])
            comps = {f"{expr}[{txt}]", f"{expr}[T.{txt}]"}
            for si, r in enumerate(oc["results"]):
                padded = set()
                if app.get("tamper") and si < len(ao["generated"]):
                    # a hand-edited spec may send a term through the padding branches of _enforce_structure
                    # (its generated names are not the recorded ones): such columns are copies, not dummies
                    for ts, gen in zip(ao["specs"][si]["structure"], ao["generated"][si]):
                        if sorted(gen) != sorted(ts["columns"]):
                            padded |= set(ts["columns"])
                for name, vals in zip(r["names"], r["values"]):
                    if name in padded:
                        continue
                    if any(name == cp or name.startswith(cp + ":") or name.endswith(":" + cp) or (":" + cp + ":") in name for cp in comps):
                        bad = [v for v in vals if v is not None and v != "0"]
                        if bad:
                            return f"level {txt} of `{expr}` is absent from the follow-up data but column {name} is not all zero: {vals}"
        # the block of a contrast-coded main effect = rows of the coding matrix the FIT recorded
        if app.get("tamper") or _contr_fails(f, app) or app.get("ctx_modes"):
            continue
        why = _coding_block(c, app, o, ao, expr, cells, alive, levels, approx)
        if why:
            return why
    return None


def _coding_block(c, app, o, ao, expr, cells, alive, levels, approx):
    oc = ao["outcome"]
    kept = [x for i, x in enumerate(cells) if alive[i]]
    for si, (s, r) in enumerate(zip(ao["specs"], oc["results"])):
        pos = 0
        for ts in s["structure"]:
            width = len(ts["columns"])
            block = r["values"][pos: pos + width]
            pos += width
            if len(ts["scoped"]) != 1 or len(ts["scoped"][0]["factors"]) != 1 or ts["scoped"][0]["factors"][0]["expr"] != expr:
                continue
            st = ts["scoped"][0]
            red = st["factors"][0]["reduced"]
            recs = [p.get(f"{expr}|{int(red)}") for p in o.get("recorded_codings", [])]
            recs = [x for x in recs if x]
            if not recs:
                continue
            cm = recs[0]
            if cm["levels"] != levels or len(cm["cols"]) != width:
                continue
            scale = Fraction(st["scale"])
            for ri, cell in enumerate(kept):
                if cell in cm["levels"]:
                    want = [Fraction(x) * scale for x in cm["matrix"][cm["levels"].index(cell)]]
                else:
                    want = [Fraction(0)] * width
                got = [colv[ri] for colv in block]
                for j, (g, w) in enumerate(zip(got, want)):
                    if g is None or not close(g, fstr(w), 1e-9 if approx else 0):
                        return (f"factor `{expr}`, row {ri} (cell {cell}): column {ts['columns'][j]} is {g}, but the coding recorded at fit time "
                                f"gives {fstr(w)} ({'a recorded level' if cell in cm['levels'] else 'not a recorded level: the zero row'})")
    return None


def _empty_narwhals_apps(c, o):
    """applications that hit finding C09-F1: effective output 'narwhals', some reused part records ZERO
    columns, no factor changed kind, every column present — and the reuse raised TypeError"""
    hits = []
    for i, (app, ao) in enumerate(zip(c["apps"], o.get("apps", []))):
        oc = ao.get("outcome")
        if not oc or oc.get("error") != "TypeError" or app.get("tamper"):
            continue
        if (app.get("overrides") or {}).get("output", c["output"]) != "narwhals":
            continue
        if not any(all(not t["columns"] for t in s["structure"]) for s in ao["specs"]):
            continue  # no part without columns
        if _kind_changes(app, o, ao)[0]:
            continue
        hits.append(i)
    return hits


def classify(c, o, why):
    c = norm_case(c)
    if "TypeError" in (why or "") and "train_error" not in o and _empty_narwhals_apps(c, o):
        return "C09-F1"
    return None


LEVEL_TEXT = (
    "Proof: Lean theorems (Props/C09.lean) about the executable model of the reuse path (pooled evaluation spec, both kind "
    "guards of _evaluate_factor incl. the `not in factor_cache` test, the arguments of a C(...) call — contrasts and explicit "
    "levels —, CustomContrasts.__init__, nominated-level encoding with the DataMismatchWarning condition and Contrasts.apply for "
    "every contrast class, rehydrated scoped terms, _enforce_structure as written) show for ALL recorded specs, follow-up frames "
    "and factor orders: a factor whose kind differs from the recorded one makes the replay an error (FactorEncodingError unless an "
    "earlier factor fails differently) whether it stands alone or inside any interaction, under any attr_overrides, and on a "
    "materializer object whatever its earlier calls left in its factor cache; a successful replay has exactly the recorded column "
    "names; against nominated levels (recorded, or an explicit levels=) the encoding of a factor succeeds or fails and names its "
    "columns independently of the data FOR EVERY CONTRAST; for the dummy codings (default, treatment/SAS with a base) an absent "
    "level's columns are all zero, for a matrix contrast (sum, helmert, diff, poly, custom) a cell holding level i contributes row i "
    "of the coding matrix and a cell holding no nominated level the zero row, and every generated column is the scaled product of "
    "one such encoded column per factor; the warning flag is raised exactly when a surviving cell is not a nominated level, "
    "identically for every output other than narwhals and for every iteration order of the pooled factor set; mismatching custom-contrast names are an error of the factor's evaluation, "
    "never a matrix; the 1->many padding branch of _enforce_structure is unreachable under a kind change; a spec derived from a "
    "recorded one by any history of part / subset / ModelSpecs.subset / round-trip steps carries that spec's encoder_state verbatim, "
    "its rows are rows of that spec, and the kind-change and name theorems hold for its reuse; an application leaves a fitted spec "
    "exactly as it found it, so any session of applications returns, one by one, what first applications would (an unseen level is "
    "announced every time). The model is tied to the code by a differential correspondence on every run (training fit by the real "
    "code, recorded spec read back once, derivations performed by both sides and compared field by field, every application compared "
    "cell by cell incl. warnings, pre-enforcement names and the encoder_state it leaves behind; pandas, narwhals-on-pandas and "
    "narwhals-on-pyarrow inputs; pandas / numpy / sparse / narwhals outputs)."
)
LEVEL_NOTE = (
    "Trusted: Lean kernel + propext/Classical.choice/Quot.sound; the hand model of base.py/contrasts.py/model_spec.py reuse path "
    "validated by correspondence; the dtype->kind table and the contrast name formats are regenerated from the live package; pandas' "
    "categorical machinery, set iteration order, numpy products and the sqrt normalisation of contr.poly enter as parameters; "
    "multi-part encoded_cache sharing at FIT time (the oracle, not the model, holds a later part to what the fit recorded for a shared "
    "factor), what a failed application may have written, and other stateful transforms are outside the model. Known finding C09-F1 "
    "(output='narwhals' with a part that records no column: TypeError) is mirrored by the model and reported, not hidden."
)
