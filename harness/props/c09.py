"""C09 — Reusing a spec on incompatible data fails loudly and never reshapes columns.

Correspondence stream `c09` (engine `Engines/C09.lean`, model `Model/Reuse.lean`): a training frame
is materialised by the REAL `model_matrix`; the recorded `ModelSpec`(s) (formula factors, structure,
encoder_state, transform_state, na_action, output) are read back from the live object and handed to
the model together with the follow-up frame (cells + dtype label; the kind of a dtype comes from the
generated `Gen.kindTable`). The real `spec.get_model_matrix(follow_up)` is then compared with
`Model.Reuse.replay`: exception class | per part: column names, exact values, DataMismatchWarning
flag, and the column names each term generated BEFORE `_enforce_structure` (recorded by wrapping that
method at run time; no hook in the source).

Histories: between the fit and the reuse the recorded spec may be DERIVED — one part of a multi-part
spec used on its own (`mm[1].model_spec`), `ModelSpec.subset(terms)`, a pickle round trip, and
combinations. The derivation is performed on the live object; the model performs it itself on what
the fit recorded (`Model.Reuse.derive`), reports any field in which the live derived spec differs
from its own (terms, structure, encoder_state, transform_state, settings) and replays ITS derived
spec (`replayDerived`).

"Recorded" for the oracle means recorded by the FIT: the kind and levels of a factor are read from
the reused spec and, where the derivation did not hand them on, from the specs the fit produced (all
parts; a factor shared by several parts is evaluated and encoded once per fit). Only for a spec that
was hand-edited after the fit (the `tamper` stream) is the edited spec itself the record.

Oracle (implementation only): the three clauses of the property on the outcome —
(1) a factor whose kind on the follow-up data differs from the recorded kind => an exception, and
    `FactorEncodingError` when nothing else is wrong with the case (all columns present, no
    na_action='raise' nulls);
(2) otherwise a matrix whose names are the recorded names, where every column built from a recorded
    level that is absent from the follow-up column is all zero;
(3) a non-null value outside the recorded levels that survives row dropping => names unchanged and a
    DataMismatchWarning among the warnings raised.
"""
from __future__ import annotations

import math
import re
import warnings
from fractions import Fraction

import numpy
import pandas

PROPERTY = "C09"
ENGINE = "c09"
REQUIRED_THEOREMS = [
    "eval_spec_sees_recorded_kinds",
    "every_term_factor_is_evaluated",
    "kind_change_is_error",
    "kind_change_never_matrix",
    "enforce_never_broadcasts_kind_change",
    "replay_names_recorded",
    "pinned_levels_fix_columns",
    "absent_levels_zero_columns",
    "generated_names_data_independent",
    "consistent_spec_never_reshaped",
    "unseen_levels_no_reshape",
    "derived_spec_keeps_record",
    "derived_kind_change_never_matrix",
    "derived_kind_change_is_error",
    "derived_names_recorded",
]
TRUSTED = [
    "parameters of the model (results of the real code forwarded per case): the kind `_is_categorical` assigns to a dtype "
    "(generated table Gen/KindTable.lean, cross-checked per case against the live method), the iteration order of the pooled "
    "`set` of factors (recorded by wrapping `_prepare_factor_evaluation_model_spec`), the recorded spec itself (read from the "
    "live ModelSpec after a real fit)",
    "derivation histories: `ModelSpec.subset` is modelled as written (degree-stable re-ordering of the nominated terms, structure "
    "rows by term, every other field carried over by `update`) with the nominated terms given by position; taking one part of a "
    "`ModelSpecs` and a pickle round trip are modelled as the identity on the dataclass fields; the live derived spec is compared "
    "field by field with the model's derivation on every such case. Term matching by text in `subset` (`Formula.from_spec` of the "
    "term strings) and the pickle machinery are exercised, not modelled",
    "modelled, not verified: pandas.unique / pandas.Categorical(categories=levels) / get_dummies (a cell equal to a pinned level "
    "sets that level's dummy, anything else — unseen value or null — gives an all-zero row), `astype('category')` sorting, "
    "numpy element-wise products as exact rational arithmetic with NaN propagation",
    "`_get_columns_for_term` is modelled through the base-class semantics (C02 fastpath_eq_base relates the pandas fast path to it)",
    "not modelled: the `encoded_cache` shared by the parts of a multi-part spec (unobservable unless two parts record different "
    "encoder state for one factor), stateful transforms other than C() (C04), contrasts other than treatment coding (C11), "
    "numerical columns holding non-number cells (pandas `str` dtype, D8/C08: the model raises a sentinel TypeError there)",
]
ASSUMPTIONS = [
    "absent_levels_zero_columns / unseen_levels_no_reshape speak about terms whose generated column names are distinct and equal, "
    "as a set, to the recorded ones (hypotheses on the recorded spec alone; every spec produced by a fit without printed-name "
    "collisions satisfies them — the correspondence reports the generated names of every term)",
    "level and column-name rendering: levels are strings or integers (str(level) is exact for those)",
]
RULE = (
    "training frame: 1-3 categorical columns (object / category dtype, declared categories incl. unused ones, string or integer "
    "levels, 1-5 levels), 1-2 float columns, an integer column, 3-8 rows, occasional nulls; formula: 1-4 terms over bare names, "
    "C(name), interactions up to degree 3 with numeric and categorical partners, intercept on/off, optionally two-sided, "
    "optionally built from Factor objects with a declared kind; x ensure_full_rank x output pandas/numpy/sparse x na_action; "
    "follow-up frame: per column one of same / lose levels / gain levels / both / categorical->float|int|bool / "
    "numeric->object|category / object->str dtype / object<->category / int<->float / nulls added / column missing; "
    "every categorical follow-up column may ALSO hold nulls whatever happened to its levels (so nulls meet lost / unseen levels "
    "under every na_action; more often under 'ignore'); "
    "histories between fit and reuse (42% of the cases): one part of a 2-3 part formula `p1 | p2 [| p3]` (optionally two-sided) "
    "used on its own — the parts share factors —, ModelSpec.subset of 1-3 nominated terms in arbitrary order (so a factor may "
    "survive only inside an interaction), part then subset, a pickle round trip, and pickle after any of these; multi-part specs "
    "are also reused whole; "
    "12% of the cases (never a `|` spec reused whole) hand-edit the (derived) spec after the fit (add/drop/rename a recorded column name, drop/add/unpin recorded "
    "levels, remove or flip a recorded kind) to reach the padding, zero-fill and error branches of _enforce_structure; "
    "non-trivial = formula with an interaction and a follow-up column that changes kind or levels; distinct by canonical JSON"
)

STR_POOLS = [["a", "b", "c", "d", "e"], ["u", "v", "w", "z"], ["lo", "mid", "hi", "top"], ["a b", "c-d", "e.f", "g"]]
NEW_STR = ["zz", "q", "new", "k9"]
INT_POOL = [1, 2, 3, 4, 5]
NEW_INT = [7, 8, 9]

# ----------------------------------------------------------------------------- value plumbing


def fstr(x) -> str:
    fr = Fraction(x)
    return str(fr.numerator) if fr.denominator == 1 else f"{fr.numerator}/{fr.denominator}"


def val_json(v):
    """python level / cell -> the model's `Val` JSON (None for null)"""
    if v is None:
        return None
    if isinstance(v, (bool, numpy.bool_)):
        return {"b": bool(v)}
    if isinstance(v, (int, numpy.integer)):
        return {"n": str(int(v))}
    if isinstance(v, (float, numpy.floating)):
        if math.isnan(v):
            return None
        return {"n": fstr(v)}
    if isinstance(v, str):
        return {"s": v}
    raise ValueError("unsupported level/cell " + repr(v))


def case_cell(dtype, v):
    """cell as written in the case JSON -> `Val` JSON"""
    if v is None:
        return None
    if dtype == "float64":
        return {"n": fstr(Fraction(v))}
    return val_json(v)


def make_series(col):
    dt, vals = col["dtype"], col["values"]
    if dt == "object":
        return pandas.Series(vals, dtype=object)
    if dt == "str":
        return pandas.Series(vals, dtype="str")
    if dt in ("category", "category[int]"):
        return pandas.Series(pandas.Categorical(vals, categories=col["categories"]))
    if dt == "int64":
        return pandas.Series(vals, dtype="int64")
    if dt == "float64":
        return pandas.Series([float("nan") if v is None else float(Fraction(v)) for v in vals], dtype="float64")
    if dt == "bool":
        return pandas.Series(vals, dtype=bool)
    raise ValueError(dt)


def make_frame(fr):
    n = fr["nrows"]
    return pandas.DataFrame({c["name"]: make_series(c) for c in fr["cols"]}, index=range(n))


def cell_out(v):
    """a matrix cell -> exact string / None for NaN / marker for a non-number"""
    if isinstance(v, (bool, numpy.bool_)):
        return "1" if v else "0"
    if isinstance(v, (int, numpy.integer)):
        return str(int(v))
    if isinstance(v, (float, numpy.floating)):
        return None if math.isnan(v) else fstr(v)
    return "obj:" + repr(v)


# ----------------------------------------------------------------------------- generators


def gen_train(rng, nulls=True):
    nrows = rng.randint(3, 8)
    cols = []
    ncat = rng.randint(1, 3)
    for name in ["A", "B", "G"][:ncat]:
        if rng.random() < 0.25:
            pool, dt_int = INT_POOL, True
        else:
            pool, dt_int = rng.choice(STR_POOLS), False
        k = rng.randint(1, min(5, len(pool)))
        levels = pool[:k] if rng.random() < 0.6 else rng.sample(pool, k)
        vals = [rng.choice(levels) for _ in range(nrows)]
        if rng.random() < 0.6:  # make sure most levels occur
            for i, l in enumerate(levels[:nrows]):
                vals[i] = l
        if dt_int:
            if rng.random() < 0.5:
                cols.append(dict(name=name, dtype="category[int]", values=vals, categories=levels))
            else:
                cols.append(dict(name=name, dtype="int64", values=vals))  # only categorical through C()
        elif rng.random() < 0.5:
            cats = list(levels)
            if rng.random() < 0.3:
                cats = cats + [x for x in pool if x not in cats][:1]  # declared but unused level
            cols.append(dict(name=name, dtype="category", values=vals, categories=cats))
        else:
            if nulls and rng.random() < 0.15:
                vals[rng.randrange(nrows)] = None
            cols.append(dict(name=name, dtype="object", values=vals))
    for name in ["x", "z"][: rng.randint(1, 2)]:
        vals = [fstr(Fraction(rng.randint(-8, 12), rng.choice([1, 1, 2, 4]))) for _ in range(nrows)]
        if nulls and rng.random() < 0.1:
            vals[rng.randrange(nrows)] = None
        cols.append(dict(name=name, dtype="float64", values=vals))
    cols.append(dict(name="y", dtype="float64", values=[fstr(rng.randint(-3, 9)) for _ in range(nrows)]))
    return dict(nrows=nrows, cols=cols)


def is_cat_col(c):
    return c["dtype"] in ("object", "category", "category[int]", "str")


def col_levels(c):
    if "categories" in c:
        return list(c["categories"])
    out = []
    for v in c["values"]:
        if v is not None and v not in out:
            out.append(v)
    return out


def mutate_col(rng, c, nrows, mode, null_p=0.0):
    """the follow-up version of training column `c`; `null_p`: chance that a categorical column
    ALSO holds a null, whatever happened to its levels (same / lost / gained / both / only new)"""
    name = c["name"]
    lv = col_levels(c)
    ints = bool(lv) and all(isinstance(v, int) for v in lv)
    catlike = is_cat_col(c) or (c["dtype"] == "int64" and name in ("A", "B", "G"))
    if catlike:
        new_pool = NEW_INT if ints else NEW_STR
        if mode == "same":
            pool = lv
        elif mode == "lose":
            pool = rng.sample(lv, max(1, len(lv) - rng.randint(1, 2))) if len(lv) > 1 else lv
        elif mode == "gain":
            pool = lv + rng.sample(new_pool, rng.randint(1, 2))
        elif mode == "both":
            keep = rng.sample(lv, max(1, len(lv) - 1)) if len(lv) > 1 else lv
            pool = keep + rng.sample(new_pool, rng.randint(1, 2))
        elif mode == "onlynew":
            pool = rng.sample(new_pool, rng.randint(1, 2))
        else:
            pool = lv
        vals = [rng.choice(pool) for _ in range(nrows)]
        put = rng.randrange(nrows) if nrows else 0
        if mode in ("gain", "both") and nrows:
            vals[put] = pool[-1]
        if nrows > 1 and c["dtype"] != "int64" and rng.random() < null_p:
            for _ in range(rng.choice([1, 1, 2])):
                at = rng.randrange(nrows)
                if at != put:
                    vals[at] = None
        if mode == "tofloat":
            return dict(name=name, dtype="float64", values=[fstr(Fraction(rng.randint(-4, 9), rng.choice([1, 2]))) for _ in range(nrows)])
        if mode == "toint":
            return dict(name=name, dtype="int64", values=[rng.randint(0, 6) for _ in range(nrows)])
        if mode == "tobool":
            return dict(name=name, dtype="bool", values=[rng.random() < 0.5 for _ in range(nrows)])
        if mode == "tostr" and not ints:
            return dict(name=name, dtype="str", values=[pool[0] if v is None else v for v in vals])
        if c["dtype"] == "int64":
            # integer column used through C(): may arrive as float or as text
            r = rng.random()
            if mode == "flip" and r < 0.5:
                return dict(name=name, dtype="float64", values=[fstr(v) for v in vals])
            if mode == "flip":
                return dict(name=name, dtype="object", values=[None if v is None else str(v) for v in vals])
            return dict(name=name, dtype="int64", values=vals)
        dt = c["dtype"]
        if mode == "flip":
            dt = "object" if dt.startswith("category") else ("category[int]" if ints else "category")
        if dt.startswith("category"):
            cats = []
            for v in vals:
                if v is not None and v not in cats:
                    cats.append(v)
            extra = [x for x in lv if x not in cats]
            if rng.random() < 0.5:
                cats = cats + extra[:1]
            rng.shuffle(cats)
            return dict(name=name, dtype=dt, values=vals, categories=cats)
        if mode == "nulls" and nrows:
            vals[rng.randrange(nrows)] = None
        if ints:  # object column of python ints
            return dict(name=name, dtype="object", values=vals)
        return dict(name=name, dtype="object", values=vals)
    # numeric training column
    if mode in ("tocat", "tocatdtype"):
        pool = rng.sample(STR_POOLS[0], rng.randint(1, 3))
        vals = [rng.choice(pool) for _ in range(nrows)]
        if mode == "tocatdtype":
            return dict(name=name, dtype="category", values=vals, categories=sorted(set(vals)))
        return dict(name=name, dtype="object", values=vals)
    if mode == "flip":
        return dict(name=name, dtype="int64", values=[rng.randint(-5, 9) for _ in range(nrows)])
    vals = [fstr(Fraction(rng.randint(-8, 12), rng.choice([1, 1, 2, 4]))) for _ in range(nrows)]
    if mode == "nulls" and nrows:
        vals[rng.randrange(nrows)] = None
    return dict(name=name, dtype="float64", values=vals)


CAT_MODES = ["same", "lose", "gain", "both", "onlynew", "tofloat", "toint", "tobool", "tostr", "flip", "nulls"]
CAT_WEIGHTS = [3, 4, 4, 3, 1, 3, 2, 1, 2, 2, 2]
NUM_MODES = ["same", "tocat", "tocatdtype", "flip", "nulls"]
NUM_WEIGHTS = [6, 2, 1, 2, 2]


NULL_P = {"drop": 0.12, "raise": 0.04, "ignore": 0.4}


def gen_follow(rng, train, malformed, tampered=False, na_action="drop"):
    nrows = rng.choice([0, 1, 2, 3, 4, 5, 6]) if rng.random() < 0.9 else train["nrows"]
    cols, modes = [], {}
    for c in train["cols"]:
        catlike = is_cat_col(c) or (c["dtype"] == "int64")
        mode = rng.choices(CAT_MODES, CAT_WEIGHTS)[0] if catlike else rng.choices(NUM_MODES, NUM_WEIGHTS)[0]
        if c["name"] == "y":
            mode = rng.choices(["same", "tocat"], [9, 1])[0]
        if tampered and catlike:
            # with hand-edited encoder state the levels may be re-derived from the data: keep them
            # strings or integers (float rendering and `str`-dtype cells are outside the model)
            if mode in ("tostr", "tofloat"):
                mode = "toint"
            if mode == "flip" and c["dtype"] == "int64":
                mode = "same"
        modes[c["name"]] = mode
        cols.append(mutate_col(rng, c, nrows, mode, NULL_P[na_action]))
    if malformed and cols:
        drop = rng.randrange(len(cols))
        modes[cols[drop]["name"]] = "missing"
        cols.pop(drop)
    return dict(nrows=nrows, cols=cols), modes


def gen_formula(rng, train, nparts=1):
    cats = [c["name"] for c in train["cols"] if c["name"] in ("A", "B", "G")]
    nums = [c["name"] for c in train["cols"] if c["name"] in ("x", "z")]
    direct_cat = [c["name"] for c in train["cols"] if c["name"] in cats and c["dtype"] != "int64"]

    def atom():
        r = rng.random()
        if r < 0.55 and cats:
            v = rng.choice(cats)
            if v in direct_cat and rng.random() < 0.6:
                return v
            return f"C({v})"
        if r < 0.62 and nums:
            return f"C({rng.choice(nums)})" if False else rng.choice(nums)
        return rng.choice(nums) if nums else rng.choice(cats)

    def make_rhs():
        terms = []
        for _ in range(rng.randint(1, 4)):
            k = rng.choice([1, 1, 1, 2, 2, 3])
            fs = []
            for _ in range(k):
                a = atom()
                if a not in fs:
                    fs.append(a)
            op = ":" if rng.random() < 0.75 else "*"
            terms.append(op.join(fs))
        icpt = rng.choice(["", "", "", "0 + ", "-1 + "])
        return icpt + " + ".join(terms)

    rhs = make_rhs()
    if nparts > 1:
        # multi-part formula `p1 | p2 [| p3]`: the parts draw on the same few columns, so they share
        # factors (whose encoding is computed once and cached for the later parts)
        rhs = " | ".join([rhs] + [make_rhs() for _ in range(nparts - 1)])
        return {"text": ("y ~ " if rng.random() < 0.2 else "") + rhs}
    if rng.random() < 0.2:
        return {"text": "y ~ " + rhs}
    if rng.random() < 0.12:
        # hand-built factors with a declared kind (the first guard of _evaluate_factor)
        tl = []
        if rng.random() < 0.7:
            tl.append([{"expr": "1", "eval": "literal", "kind": None}])
        for _ in range(rng.randint(1, 2)):
            fs = []
            for _ in range(rng.choice([1, 1, 2])):
                r = rng.random()
                if r < 0.5 and cats:
                    v = rng.choice(cats)
                    kind = rng.choice(["categorical", "categorical", None])
                elif nums:
                    v = rng.choice(nums)
                    kind = rng.choice(["numerical", None, None])
                else:
                    continue
                if v not in [f["expr"] for f in fs]:
                    fs.append({"expr": v, "eval": "lookup", "kind": kind})
            if fs and sorted(f["expr"] for f in fs) not in [sorted(f["expr"] for f in t) for t in tl]:
                tl.append(fs)
        if len(tl) > (1 if tl and tl[0][0]["expr"] == "1" else 0):
            return {"terms": tl}
    return {"text": rhs}


def gen_history(rng):
    """what happens to the recorded spec between the fit and its reuse (resolved against the live
    spec at run time: `i` modulo the number of parts, `picks` modulo the number of terms)"""
    r = rng.random()
    part = dict(op="part", i=rng.randrange(6))
    subset = dict(op="subset", picks=[rng.randrange(12) for _ in range(rng.choice([1, 1, 2, 2, 3]))])
    if r < 0.58:
        steps = []
    elif r < 0.71:
        steps = [part]
    elif r < 0.87:
        steps = [subset]
    elif r < 0.93:
        steps = [part, subset]
    else:
        steps = [dict(op="pickle")]
    if steps and steps[-1]["op"] != "pickle" and rng.random() < 0.15:
        steps.append(dict(op="pickle"))
    return steps


def cases(rng, tier):
    n = {"quick": 700, "thorough": 8000, "search": 300}[tier]
    for i in range(n):
        na_action = rng.choices(["drop", "raise", "ignore"], [7, 1, 2])[0]
        train = gen_train(rng, nulls=na_action != "raise")
        derive = gen_history(rng)
        has_part = any(st["op"] == "part" for st in derive)
        nparts = rng.choice([2, 2, 3]) if has_part and rng.random() < 0.9 else (2 if rng.random() < 0.06 else 1)
        formula = gen_formula(rng, train, nparts)
        if "text" in formula and ("~" in formula["text"] or "|" in formula["text"]) and not has_part:
            if any(st["op"] == "subset" for st in derive):  # `subset` is a method of a single spec
                derive.insert(0, dict(op="part", i=rng.randrange(6)))
        malformed = rng.random() < 0.04
        tamper = []
        if rng.random() < 0.12:
            for _ in range(rng.choice([1, 1, 2])):
                tamper.append(dict(op=rng.choice(TAMPER_OPS), i=rng.randrange(6)))
        if tamper and "|" in formula.get("text", "") and not any(st["op"] == "part" for st in derive):
            # parts that share a factor also share its encoding within one call (`encoded_cache`, outside the
            # model): hand edits that make two parts record different state for one factor are not generated
            tamper = []
        follow, modes = gen_follow(rng, train, malformed, tampered=bool(tamper), na_action=na_action)
        yield dict(
            formula=formula,
            train=train,
            follow=follow,
            modes=modes,
            tamper=tamper,
            derive=derive,
            output=rng.choice(["pandas", "pandas", "numpy", "sparse"]),
            na_action=na_action,
            efr=rng.random() < 0.75,
        )


# hand edits of the recorded spec (a user may `spec.update(structure=…)` or supply encoder state):
# they reach the padding / zero-fill / error branches of `_enforce_structure` and the un-pinned path
TAMPER_OPS = ["cols_add", "cols_drop", "cols_rename", "levels_drop", "levels_add", "levels_none", "enc_remove", "kind_flip"]


def apply_tamper(ms, ops):
    from formulaic.parser.types import Factor

    for op in ops:
        name, i = op["op"], op["i"]
        if name.startswith("cols"):
            if not ms.structure:
                continue
            cols = ms.structure[i % len(ms.structure)].columns
            if name == "cols_add":
                cols.append("EXTRA" if "EXTRA" not in cols else f"EXTRA{len(cols)}")  # names stay distinct
            elif name == "cols_drop" and cols:
                cols.pop()
            elif name == "cols_rename" and cols:
                cols[-1] = cols[-1] + "_r"
            continue
        keys = list(ms.encoder_state)
        if not keys:
            continue
        k = keys[i % len(keys)]
        kind, state = ms.encoder_state[k]
        if name == "enc_remove":
            del ms.encoder_state[k]
        elif name == "kind_flip":
            other = Factor.Kind.NUMERICAL if kind is Factor.Kind.CATEGORICAL else Factor.Kind.CATEGORICAL
            ms.encoder_state[k] = (other, state)
        elif isinstance(state, dict) and "categories" in state:
            cats = list(state["categories"])
            if name == "levels_drop" and cats:
                cats.pop()
            elif name == "levels_add":
                ints = bool(cats) and all(isinstance(x, (int, numpy.integer)) for x in cats)
                cats.append(90 + len(cats) if ints else f"NEW{len(cats)}")
            if name == "levels_none":
                state = {k2: v for k2, v in state.items() if k2 != "categories"}
            else:
                state = dict(state, categories=cats)
            ms.encoder_state[k] = (kind, state)


def formula_text(c):
    f = c["formula"]
    if "text" in f:
        return f["text"]
    return " + ".join(":".join(x["expr"] for x in t) for t in f["terms"])


def used_columns(c):
    return sorted(set(re.findall(r"[A-Za-z_]\w*", formula_text(c))) - {"C"})


def describe(c):
    used = used_columns(c)
    ms = sorted({c["modes"].get(u, "?") for u in used})
    tam = "|tamper:" + "+".join(sorted({t["op"] for t in c["tamper"]})) if c.get("tamper") else ""
    der = "|derive:" + ">".join(st["op"] for st in c["derive"]) if c.get("derive") else ""
    return ",".join(ms) + ("|ix" if (":" in formula_text(c) or "*" in formula_text(c)) else "") + der + tam


def nontrivial(c):
    t = formula_text(c)
    used = used_columns(c)
    return (":" in t or "*" in t) and any(c["modes"].get(u, "same") != "same" for u in used)


# ----------------------------------------------------------------------------- the real code


def build_formula(f):
    from formulaic import Formula
    from formulaic.parser.types import Factor, Term

    if "text" in f:
        return f["text"]
    return Formula([Term([Factor(x["expr"], eval_method=x["eval"], kind=x["kind"]) for x in t]) for t in f["terms"]])


def factor_json(fa):
    em = fa.eval_method.value
    kind = None if fa.kind.value == "unknown" else fa.kind.value
    if em == "lookup":
        return dict(expr=fa.expr, via="lookup", column=fa.expr, declared=kind, value="0")
    if em == "literal":
        return dict(expr=fa.expr, via="literal", column="", declared=kind, value=fstr(Fraction(fa.expr)))
    m = re.fullmatch(r"C\((\w+)\)", fa.expr)
    if not m:
        raise ValueError("unsupported python factor " + fa.expr)
    return dict(expr=fa.expr, via="cwrap", column=m.group(1), declared=kind, value="0")


def spec_json(ms):
    enc = []
    for expr, (kind, state) in ms.encoder_state.items():
        cats = state.get("categories") if isinstance(state, dict) else None
        enc.append(dict(expr=expr, kind=kind.value, levels=None if cats is None else [val_json(x) for x in cats]))
    return dict(
        terms=[[factor_json(fa) for fa in t.factors] for t in ms.formula],
        structure=[
            dict(
                scoped=[
                    dict(factors=[dict(expr=sf.factor.expr, reduced=bool(sf.reduced)) for sf in st.factors], scale=fstr(Fraction(st.scale)))
                    for st in s.scoped_terms
                ],
                columns=[str(x) for x in s.columns],
            )
            for s in ms.structure
        ],
        encoder_state=enc,
        transform_state=[[str(k), repr(v)[:60]] for k, v in ms.transform_state.items()],
        na_action=ms.na_action.value,
        efr=bool(ms.ensure_full_rank),
        output=ms.output,
    )


def flatten(x):
    from formulaic.utils.structured import Structured

    return list(x._flatten()) if isinstance(x, Structured) else [x]


def matrix_json(m, output):
    names = [str(x) for x in m.model_spec.column_names]
    if output == "pandas":
        names = [str(x) for x in m.columns]
        arr = m.to_numpy(dtype=object) if m.shape[1] else numpy.empty((m.shape[0], 0))
    elif output == "sparse":
        arr = m.toarray()
    else:
        arr = numpy.asarray(m)
    ncols = int(arr.shape[1])
    values = [[cell_out(arr[i, j]) for i in range(arr.shape[0])] for j in range(ncols)]
    return dict(names=names, values=values, ncols=ncols, spec_names=[str(x) for x in m.model_spec.column_names])


def apply_derive(specs, steps, as_text):
    """the history between fit and reuse, on the LIVE spec object(s); returns the derived object
    and the steps with their indices resolved (what the model is told)"""
    import pickle

    cur, resolved = specs, []
    for st in steps:
        parts = flatten(cur)
        if st["op"] == "part":  # one part of a multi-part spec, used on its own
            i = st["i"] % len(parts)
            cur = parts[i]
            resolved.append(dict(op="part", i=i))
        elif st["op"] == "subset":  # ModelSpec.subset(terms)
            if len(parts) != 1:
                raise RuntimeError("generator discipline: subset needs a single spec")
            ms = parts[0]
            terms = list(ms.formula)
            if [str(r.term) for r in ms.structure] != [str(t) for t in terms]:
                raise RuntimeError("structure rows are not in formula order")
            picks = []
            for p in st["picks"]:
                if terms and p % len(terms) not in picks:
                    picks.append(p % len(terms))
            # the usual call nominates the terms by their text; hand-built factors (declared kinds)
            # are nominated as Term objects
            cur = ms.subset([str(terms[i]) for i in picks] if as_text else [terms[i] for i in picks])
            resolved.append(dict(op="subset", picks=picks))
        else:  # stored and loaded again
            cur = pickle.loads(pickle.dumps(cur))
            resolved.append(dict(op="pickle"))
    return cur, resolved


def impl(c):
    from formulaic import model_matrix
    from formulaic.errors import FormulaicWarning
    from formulaic.materializers import PandasMaterializer
    from formulaic.materializers.base import FormulaMaterializer

    train, follow = make_frame(c["train"]), make_frame(c["follow"])
    out = {}
    with warnings.catch_warnings():
        warnings.simplefilter("ignore")
        try:
            mm = model_matrix(build_formula(c["formula"]), train, output=c["output"], na_action=c["na_action"], ensure_full_rank=c["efr"])
        except Exception as e:
            return dict(train_error=type(e).__name__)
    specs = mm.model_spec
    # what the fit recorded (every part), before anything is derived from it
    out["fit_specs"] = [spec_json(ms) for ms in flatten(specs)]
    if c.get("derive"):
        try:
            specs, out["derive_resolved"] = apply_derive(specs, c["derive"], "text" in c["formula"])
        except RuntimeError:
            raise
        except Exception as e:
            out["derive_error"] = type(e).__name__
            return out
        out["derived"] = [spec_json(ms) for ms in flatten(specs)]
    for ms in flatten(specs):
        apply_tamper(ms, c.get("tamper", []))
    out["specs"] = [spec_json(ms) for ms in flatten(specs)]  # the spec(s) actually reused
    probe = PandasMaterializer(follow)
    out["kinds"] = {k: ("categorical" if probe._is_categorical(follow[k]) else "numerical") for k in follow.columns}

    order, generated = [], []
    o_prep = FormulaMaterializer._prepare_factor_evaluation_model_spec
    o_enf = FormulaMaterializer._enforce_structure

    def w_prep(self, model_specs):
        factors, es = o_prep(self, model_specs)
        order.extend(f.expr for f in factors)
        return factors, es

    def w_enf(self, cols, spec, drop_rows):
        generated.append([[str(k) for k in col[2]] for col in cols])
        return o_enf(self, cols, spec, drop_rows)

    FormulaMaterializer._prepare_factor_evaluation_model_spec = w_prep
    FormulaMaterializer._enforce_structure = w_enf
    try:
        with warnings.catch_warnings(record=True) as wlist:
            warnings.simplefilter("always")
            try:
                m2 = specs.get_model_matrix(follow)
                outcome = dict(results=[matrix_json(m, c["output"]) for m in flatten(m2)])
            except Exception as e:
                outcome = dict(error=type(e).__name__)
        outcome["warnings"] = sorted({w.category.__name__ for w in wlist if issubclass(w.category, FormulaicWarning)})
    finally:
        FormulaMaterializer._prepare_factor_evaluation_model_spec = o_prep
        FormulaMaterializer._enforce_structure = o_enf
    out["order"] = order
    out["generated"] = generated
    out["outcome"] = outcome
    if "error" in outcome:
        out["error"] = outcome["error"]  # counted in the evidence's error_kinds histogram
    return out


# ----------------------------------------------------------------------------- model side

DTYPE_LABEL = {"category[int]": "category[int]"}


def frame_json(fr):
    return dict(
        nrows=fr["nrows"],
        cols=[
            dict(
                name=col["name"],
                dtype=col["dtype"],
                cells=[case_cell(col["dtype"], v) for v in col["values"]],
                categories=[val_json(x) for x in col["categories"]] if "categories" in col else None,
            )
            for col in fr["cols"]
        ],
    )


def request(c, o):
    if "specs" not in o:
        return dict(specs=[], frame=dict(nrows=0, cols=[]), order=[])
    r = dict(specs=o["specs"], frame=frame_json(c["follow"]), order=o["order"])
    if c.get("derive"):
        # the model derives the spec itself from what the fit recorded and replays ITS derivation
        # (a spec hand-edited after the derivation is replayed as read back)
        r.update(derive=o["derive_resolved"], fit_specs=o["fit_specs"], derived=o["derived"],
                 replay_on="live" if c.get("tamper") else "model")
    return r


def agree(c, o, m):
    if "driver_error" in m:
        return "driver: " + m["driver_error"][:300]
    if "train_error" in o:
        return "the training fit itself failed: " + o["train_error"]
    if "derive_error" in o or "derive_error" in m:
        return f"deriving the spec {c.get('derive')}: impl {o.get('derive_error', 'ok')} vs model {m.get('derive_error', 'ok')}"
    if m.get("derived_diff"):
        return (f"the spec derived by {o.get('derive_resolved')} does not carry what the fit recorded: it differs from the "
                f"model's derivation in {m['derived_diff']}")
    if "pooled" not in m:
        return "model: " + str(m)[:200]
    if sorted(m["pooled"]) != sorted(o["order"]):
        return f"pooled factor set differs: impl {sorted(o['order'])} vs model {sorted(m['pooled'])}"
    for name, kind in m["kinds"]:
        if o["kinds"].get(name) != kind:
            return f"kind of column {name}: live _is_categorical says {o['kinds'].get(name)}, generated table says {kind}"
    oc = o["outcome"]
    if "error" in oc or "error" in m:
        if oc.get("error") != m.get("error"):
            return f"impl {oc.get('error', 'returns a matrix')} vs model {m.get('error', 'returns a matrix')}"
        return None
    if len(oc["results"]) != len(m["results"]):
        return "number of matrices differs"
    for i, (ri, rm) in enumerate(zip(oc["results"], m["results"])):
        if ri["names"] != rm["names"]:
            return f"part {i}: names {ri['names']} vs model {rm['names']}"
        if ri["ncols"] != len(rm["names"]):
            return f"part {i}: {ri['ncols']} columns vs model {len(rm['names'])}"
        if ri["values"] != rm["values"]:
            return f"part {i}: values differ: impl {ri['values']} vs model {rm['values']}"
        if i < len(o["generated"]) and o["generated"][i] != rm["generated"]:
            return f"part {i}: generated names before _enforce_structure {o['generated'][i]} vs model {rm['generated']}"
    warn_m = any(r["warn"] for r in m["results"])
    warn_i = "DataMismatchWarning" in oc["warnings"]
    if warn_m != warn_i:
        return f"DataMismatchWarning: impl {warn_i} vs model {warn_m}"
    return None


# ----------------------------------------------------------------------------- oracle (implementation only)


def _follow_cols(c):
    return {col["name"]: col for col in c["follow"]["cols"]}


def _recorded(c, o):
    """expr -> {"kind", "levels"}: what was RECORDED for each factor. For a spec as the fit (and any
    derivation: a part used alone, subset, pickle) left it, that is what the fit recorded for the
    factor — read from the reused spec itself and, where a derivation did not hand it on, from the
    specs of the fit (every part: a factor shared by several parts is evaluated and encoded once per
    fit). For a spec that was hand-edited afterwards it is what the edited spec says."""
    sources = list(o["specs"])
    if not c.get("tamper"):
        sources += o.get("fit_specs", [])
    rec = {}
    for s in sources:
        for e in s["encoder_state"]:
            rec.setdefault(e["expr"], e)
    return rec


def _kind_changes(c, o):
    """[(expr, recorded, new)] for pooled factors with recorded encoder state whose column is present"""
    cols = _follow_cols(c)
    rec = _recorded(c, o)
    if c.get("tamper"):  # hand-edited parts may disagree: the pooled evaluation spec is a dict.update (last wins)
        for s in o["specs"]:
            for e in s["encoder_state"]:
                rec[e["expr"]] = e
    seen, changes, declared_conflict = set(), [], False
    for s in o["specs"]:
        for t in s["terms"]:
            for f in t:
                if f["expr"] in seen or f["via"] == "literal":
                    continue
                seen.add(f["expr"])
                if f["column"] not in cols:
                    continue
                new = "categorical" if f["via"] == "cwrap" else o["kinds"][f["column"]]
                if f["declared"] is not None and f["declared"] != new:
                    if f["declared"] == "categorical":
                        new = "categorical"
                    else:
                        declared_conflict = True
                if f["expr"] in rec and rec[f["expr"]]["kind"] != new:
                    changes.append((f["expr"], rec[f["expr"]]["kind"], new))
    return changes, declared_conflict


def oracle(c, o):
    if "harness_exception" in o:
        return "harness could not run the implementation: " + o["harness_exception"]
    if "train_error" in o or "derive_error" in o:
        return None
    cols = _follow_cols(c)
    oc = o["outcome"]
    factors = {}
    for s in o["specs"]:
        for t in s["terms"]:
            for f in t:
                if f["via"] != "literal":
                    factors.setdefault(f["expr"], f)
    involved = sorted({f["column"] for f in factors.values()})
    missing = [v for v in involved if v not in cols]
    has_null = any(v is None for k in involved if k in cols for v in cols[k]["values"])
    other_cause = bool(missing) or (c["na_action"] == "raise" and has_null)
    changes, declared_conflict = _kind_changes(c, o)

    # clause 1
    if changes:
        e, was, now = changes[0]
        if "error" not in oc:
            return (f"factor `{e}` was {was} when the spec was recorded and is {now} in the follow-up data, "
                    f"but a matrix was returned instead of an encoding error (columns {oc['results'][-1]['names']})")
        if not other_cause and oc["error"] != "FactorEncodingError":
            return f"factor `{e}` changed kind ({was} -> {now}) but the error raised is {oc['error']}, not an encoding error"
        return None
    if "error" in oc:
        if other_cause or declared_conflict or c.get("tamper"):
            return None  # a hand-edited spec may legitimately be rejected by _enforce_structure
        return f"no factor changed kind and every column is present, but reuse raised {oc['error']} instead of producing the recorded columns"

    # clauses 2 and 3 on a matrix
    n = c["follow"]["nrows"]
    alive = [True] * n
    if c["na_action"] == "drop":
        for k in involved:
            for i, v in enumerate(cols[k]["values"]):
                if v is None:
                    alive[i] = False
    if len(oc["results"]) != len(o["specs"]):
        return "number of matrices differs from the number of recorded specs"
    for s, r in zip(o["specs"], oc["results"]):
        want = [x for t in s["structure"] for x in t["columns"]]
        if r["names"] != want:
            return f"column names {r['names']} differ from the recorded {want}"
        if r["ncols"] != len(want):
            return f"{r['ncols']} columns for {len(want)} recorded names"
    rec = _recorded(c, o)
    encoded = {sf["expr"] for s in o["specs"] for t in s["structure"] for st in t["scoped"] for sf in st["factors"]}
    for expr, f in factors.items():
        e = rec.get(expr)
        if e is None or e["kind"] != "categorical" or e["levels"] is None or expr not in encoded:
            continue
        col = cols[f["column"]]
        cells = [case_cell(col["dtype"], v) for v in col["values"]]
        levels = e["levels"]
        surviving = [x for i, x in enumerate(cells) if alive[i] and x is not None]
        unseen = [x for x in surviving if x not in levels]
        if unseen and "DataMismatchWarning" not in oc["warnings"]:
            return f"factor `{expr}`: value {unseen[0]} was not a level at fit time ({levels}) and no DataMismatchWarning was raised (warnings: {oc['warnings']})"
        for l in levels:
            if l in cells:
                continue
            txt = l["s"] if "s" in l else l["n"] if "n" in l else str(l["b"])
            comps = {f"{expr}[{txt}]", f"{expr}[T.{txt}]"}
            for si, r in enumerate(oc["results"]):
                padded = set()
                if c.get("tamper") and si < len(o["generated"]):
                    # a hand-edited spec may send a term through the padding branches of _enforce_structure
                    # (its generated names are not the recorded ones): such columns are copies, not dummies
                    for ts, gen in zip(o["specs"][si]["structure"], o["generated"][si]):
                        if sorted(gen) != sorted(ts["columns"]):
                            padded |= set(ts["columns"])
                for name, vals in zip(r["names"], r["values"]):
                    if name in padded:
                        continue
                    if comps & set(name.split(":")):
                        bad = [v for v in vals if v is not None and v != "0"]
                        if bad:
                            return f"level {txt} of `{expr}` is absent from the follow-up data but column {name} is not all zero: {vals}"
    return None


def classify(c, o, why):
    return None


LEVEL_TEXT = (
    "Proof: Lean theorems (Props/C09.lean) about the executable model of the reuse path (pooled evaluation spec, both kind "
    "guards of _evaluate_factor, pinned-level encoding with the DataMismatchWarning condition, rehydrated scoped terms, "
    "_enforce_structure as written) show for ALL recorded specs, follow-up frames and factor orders: a factor whose kind differs "
    "from the recorded one makes the replay an error (FactorEncodingError unless an earlier factor fails differently) whether it "
    "stands alone or inside any interaction; a successful replay has exactly the recorded column names; with pinned levels the "
    "generated names do not depend on the data, an absent level's columns are all zero, and the warning flag is raised exactly "
    "when a surviving cell is not a recorded level; the 1->many padding branch of _enforce_structure is unreachable under a kind "
    "change; a spec derived from a recorded one by any history of part / subset / round-trip steps carries that spec's "
    "encoder_state verbatim, its rows are rows of that spec, and the kind-change and name theorems hold for its reuse "
    "(replayDerived) with respect to the kinds and levels recorded at fit time. The model is tied to the code by a differential correspondence on every run (training fit by the real code, recorded "
    "spec read back, derivations performed by both sides and compared field by field, follow-up replay compared cell by cell "
    "incl. warnings and pre-enforcement names)."
)
LEVEL_NOTE = (
    "Trusted: Lean kernel + propext/Classical.choice/Quot.sound; the hand model of base.py/contrasts.py reuse path validated by "
    "correspondence; the dtype->kind table is regenerated from the live _is_categorical; pandas' categorical machinery, set "
    "iteration order and numpy products enter as parameters; multi-part encoded_cache sharing at FIT time (the oracle, not the model, holds a later part "
    "to what the fit recorded for a shared factor), non-treatment contrasts and other stateful transforms are outside the model."
)
