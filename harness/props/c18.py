"""C18 - Materialization is pure and deterministic across calls, histories and hash seeds.

A case is a *history*: 2-3 data frames (numeric columns x, z, y, `my col`; text columns a, b, c, d, possibly declared as
pandas CATEGORICALS whose levels are listed in another order than the values suggest, as a subset -- other values become
nulls -- or as a superset; a later frame may be an earlier one with only that declaration changed), a context of
mutable objects (knots lists, a levels list, scores, custom contrast weights as a dict of lists and as a nested list, a
centre) and up to 12 operations over 2-3 of 16 shared formula OBJECTS:
stateful transforms (`center(x) + C(a)`, the structured `y ~ scale(z) + center(x):C(a) + I(center(x) * z)`), a
back-quoted non-identifier column inside several Python factors, transforms that take mutable objects from the
caller's context (`bs(x, knots=K) + C(a, levels=L) + poly(z, 2)`), ONE term interacting three or four categorical
factors whose lower-order margins do not all precede it (`a:b:c`, `a + b + a:b:c`, `x + a:b:c`, `a:b:c:d`,
`a + a:b:c + b:c:d`, `center(x):a:b + b:c:d - 1`: the only shapes in which `_simplify_scoped_terms` handles scoped
terms of equal size), the built-in codings (`C(a, contr.treatment|helmert|poly|sum)`), patsy's `Q()` (reads the
evaluation context) nested in other stateful calls, custom / scored contrasts and `cr()` taking argument objects from the
context, `lag` (creates nulls) and `hashed` (own encoder).  Every operation gets the same context objects:
  new     ModelSpec(formula=F, ...) / ModelSpec.from_spec(F, ...), materializer given as None / name / class / instance
  update  spec.update(ensure_full_rank= / na_action= / structure=None / formula= / transform_state={}, encoder_state={})
  subset  spec.subset(terms)
  build   model_matrix(F, data, ...) / F.get_model_matrix(data, ...) / materializer.get_model_matrix(F, ...)
  call    spec.get_model_matrix(data, **overrides) / model_matrix(spec | matrix, data, **overrides) /
          ModelSpecs(p0=spec, p1=spec').get_model_matrix(data, **overrides) / materializer.get_model_matrix(spec(s))
          on specs obtained earlier (`materializer`: ONE materializer object per frame, reused by the whole history)
  dot     a build of a STRING spec with the `.` wildcard, parsed by the build itself: ".", "y ~ .", ". - a", "(.):b",
          "y ~ a", "x ~ .", "y + x ~ . - a", "a ~ (.):b", interleaved on ONE materializer object per frame
          (materializer.get_model_matrix(text)), with ONE caller-owned LayeredMapping per frame as parsing context
          (Formula(text, _context=lm).get_model_matrix(data)), or through model_matrix(text, data); the MODEL expands
          the wildcard (columns of this call's frame minus the variables of this string's own left-hand side)
  edit    the CALLER edits a formula object between the calls through the sequence protocol of SimpleFormula
          (F.insert(i, t) / F.append(t) / F[i] = t / del F[i], and the collections.abc mixins pop / remove / extend /
          += / clear -- sent to the model as the primitives they are built from; also on `spec.formula`; any index)
Spec handles are numbered in the order in which the real code hands them out.  After every operation the derived
attributes of the specs it named (column_names ... factor_contrasts, get_slice) are read on the real objects.

Correspondence stream `c18` (real code vs `Model.HeapX.xtrace`): after every operation the outcome (exception class, or
kept rows and materialised terms per part) and the whole store are compared: for every spec handle its
formula/configuration/structure terms, the identity classes of its `transform_state` / `encoder_state` dictionaries
and the number of the formula object it holds (Python `is` vs reference equality in the model), the contents of the
dictionaries (fitted-state tokens, level codes IN ORDER) and the contents of every formula object.  Rank reduction
(which scoped terms / factors a term is encoded with, in which order) is COMPUTED by the model from the kinds of the
factors and compared with the structure of fresh real builds.  The numeric parameters of the model (fitted state per
call node and frame, null rows, failing factors, level codes, declared levels, factor kinds) come from isolated fresh
evaluations of the real transforms.  Every symbolic `Part` record the model produces (history and value semantics)
must determine the real output: equal records with different real matrices are a disagreement.

Oracle (implementation only): (1) every call's output -- the matrices AND the keys/values of the transform_state /
encoder_state of the specs that come with them -- equals the output of the same call on fresh objects (fresh formulas,
frames, context objects and materializers; only the operations it depends on are replayed: the ancestry of the specs it
names and the caller's edits of the formula objects involved); (2) frames (hash of values, dtypes, declared categories,
labels), the context objects, the caller-owned LayeredMapping parsing contexts (no key written into them or their
layers, same keys shown), numpy's global random stream and -- except by the caller's own edits -- every formula
object are unchanged by every operation; (3) a DEEP snapshot of every previously obtained spec (formula, configuration,
structure, transform_state / encoder_state with nested dicts, lists, arrays, contrast objects) is unchanged by every
operation and by reading its derived attributes, and the replay output of previously obtained specs (on deep copies)
is unchanged; (4) the canonical outputs of the whole history (values, column order, kept rows) are byte-identical in
subprocesses with PYTHONHASHSEED in {0..5} (thorough: 16 seeds).
"""
from __future__ import annotations

import copy
import hashlib
import json
import os
import subprocess
import sys
import warnings
from pathlib import Path

PROPERTY = "C18"
ENGINE = "c18"
REQUIRED_THEOREMS = [
    "history_independent",
    "call_is_pure",
    "inputs_unchanged",
    "repeat_identical",
    "order_independent",
    "call_order_independent",
    "shared_prepare_not_history_independent",
    "scoped_terms_refine_c03",
    "scoped_terms_hash_seed_independent",
    "scoped_terms_total",
    "scopedOf_hash_seed_independent",
    "call_hash_seed_independent",
    "history_hash_seed_independent",
    "hashed_recursion_is_seed_dependent",
    "x_history_independent",
    "x_call_is_pure",
    "building_never_touches_formulas",
    "x_inputs_unchanged",
    "failed_operation_changes_nothing",
    "fault_then_reuse",
    "edit_reaches_exactly_the_aliases",
    "x_alias_consistent",
    "x_replay_stable",
    "x_repeat_identical",
    "unrelated_edit_does_not_interfere",
    "x_history_hash_seed_independent",
    "reorder_is_stable_sort",
    "formula_objects_stay_in_degree_order",
    "string_build_is_history_independent",
    "state_layout_as_modelled",
    "aliasing_as_modelled",
    "sequence_protocol_as_modelled",
]
TRUSTED = [
    "modelled, not verified: CPython's hash function and dict/set internals (the model proves independence of the "
    "iteration order of EVERY plain set on the way to an observable -- the factor set, `spanned`, `factors_diff` -- the "
    "real seeds are observed in subprocesses), numpy summation order, float rounding",
    "parameters of the model (checked per case by fresh isolated evaluations of the real transforms): fitted state of a "
    "stateful call node as a function of (node, data); null rows and failure of a factor as functions of (factor, data); "
    "encoder state (levels, in order) as a function of (factor, data, kept rows) -- for levels given in the formula or "
    "declared by a categorical dtype: of (factor, data); kind and spans_intercept of an evaluated factor as a function of "
    "(factor, data)",
    "the data frames are immutable in the model; that the real ones are not mutated is observed by hashing them around "
    "every operation (oracle), not proved.  Formula objects ARE in the model (only the caller's edits write to them: "
    "theorem building_never_touches_formulas); the formula parser is not (C01): formulas and edit terms enter as term lists",
    "the materializer's factor_cache / encoded_cache / encoder_state_cache are per call in the model (the code resets them at "
    "the start of every get_model_matrix; the entry point that reuses ONE materializer object per frame is exercised and "
    "compared with fresh objects by the oracle)",
    "Gen/SpecState.lean (regenerated from the live package): dataclass fields of ModelSpec, NAAction members, which "
    "mutators SimpleFormula implements, four probed aliasing facts -- compared with the model's layout by decided theorems",
]
ASSUMPTIONS = [
    "inner state dictionaries (state[name], encoder_state[expr][1]) are written only while a key is absent or re-written "
    "with equal values (scale/center/poly/bs/encode_contrasts), so they are immutable values once stored in a spec "
    "(observed: deep snapshots of every earlier spec around every operation)",
    "a stateful call nested inside another one within a factor is stateless itself (`Q()`): the state a node fits depends "
    "on the data only",
    "a formula never lists the same term twice (the model identifies the scoped terms of a term by the term; the generator "
    "never inserts a term that is already there)",
    "whether `_enforce_structure` raises FactorEncodingError is a function of the part's record (parameter `encodingFails`; "
    "the harness reports after how many completed parts an operation raised it and the engine tabulates the record)",
    "when several factors fail in step 1 for different reasons, WHICH exception class escapes (FactorEvaluationError vs "
    "ValueError for nulls under na_action='raise') depends on the iteration order of the factor set, i.e. on the hash seed "
    "(observed); the property text does not cover the exception class, both are one observable 'EvaluationError' here",
    "encoders do not raise",
    "the null rows of an evaluated factor do not depend on the fitted state it is evaluated with (the generator keeps "
    "poly/bs away from degenerate data where a fresh fit gives NaN but a reused one does not)",
]
RULE = (
    "27 fixed witnesses first (D16, back-quote, context objects, caller's edits, `.` / `y ~ .` / `.` and six more "
    "wildcard strings interleaved on one materializer object and on one caller-owned LayeredMapping context; per shape formula: build twice via two "
    "entry points / reuse on other data / un-materialised spec; per coding formula x {levels reordered, subset, superset}: "
    "fit, reuse on the same values declared categorical in another level order, reuse on the original again, the same "
    "starting from an un-materialised spec), then random histories (<= 12 ops) over 2-3 of 16 shared formulas (every third "
    "one forced to contain an equal-size-scoped-term shape, every sixth a coding formula), 2-3 frames (nulls in a/b/c/d/y, "
    "third frame may lack z, text columns declared categorical with permuted / fewer / more levels, a later frame may be an "
    "earlier one re-declared); interleaving new/update(+reset)/subset/build/call via every entry point incl. joint ModelSpecs "
    "calls, one reused materializer object per frame, attribute overrides; 35% of the histories also contain the caller's "
    "edits of formula objects; 20% interleave string specs with the `.` wildcard (one- and two-sided, several left-hand "
    "sides, mostly on one frame: 50% shared materializer object, 33% caller-owned LayeredMapping, 17% model_matrix); malformed stream (25%): formula swaps that keep a structure (KeyError), subsets of "
    "un-materialised specs / unknown terms, inconsistent joint specs, na_action='raise' with nulls, missing columns, edit "
    "indices out of range, a data column named like a reserved evaluator name; hash-seed batches over ALL cases with 6 "
    "seeds (thorough: 16); non-trivial = some spec is materialised at least twice or reused after an update; distinct by "
    "canonical JSON"
)

ROOT = Path(__file__).resolve().parent.parent.parent
FSTR = {
    "F1": "center(x) + C(a)",
    "F2": "y ~ scale(z) + center(x):C(a) + I(center(x) * z)",
    # a column whose name is not an identifier, back-quoted inside several Python factors (two of them stateful):
    # every factor must sanitise the name in its OWN scratch layer of the evaluation environment
    "F3": "center(`my col`) + scale(`my col`) + I(`my col` * x)",
    # transforms that take mutable objects (lists) from the caller's context
    "F4": "bs(x, knots=K, extrapolation='clip') + C(a, levels=L) + poly(z, degree=2)",
    # ONE term interacting three or more categorical factors while not all of its lower-order margins precede it
    # (full-rank coding): only here does `_simplify_scoped_terms` see several scoped terms of EQUAL size, so only here
    # can a hash-ordered container on the way to the column order show
    "G1": "a:b:c",
    "G2": "a + b + a:b:c",
    "G3": "x + a:b:c",
    "G4": "a:b:c:d",
    "G5": "a + a:b:c + b:c:d",
    "G6": "center(x):a:b + b:c:d - 1",
    # the built-in codings (their encoder state is a nested dict with lists and a ContrastsState object)
    "H1": "center(x) + C(a, contr.treatment) + C(b, contr.helmert)",
    "H2": "C(a, contr.poly) + C(b, contr.sum):x",
    "H3": "a + C(b, contr.sum) + a:C(b, contr.sum)",
    # patsy's Q("name"): a stateful transform that reads the evaluation CONTEXT (`_context`), nested in others
    "Q1": "scale(Q('my col')) + Q('x'):a + center(Q('my col') + x)",
    # more argument objects taken from the caller's context: scores, custom contrast weights (dict of lists, nested
    # list), spline knots, a centre; a transform that creates nulls (lag) and one with its own encoder (hashed)
    "A1": "C(b, contr.poly(scores=S4), levels=L) + C(a, M4, levels=L) + cr(x, knots=K2) + C(a, contr.custom(M4x), levels=L):z",
    "A2": "lag(x, 1) + hashed(a, levels=5) + scale(z, center=c0)",
}
FAMILIES = [k for k in FSTR]
SIMPLE = [m for f in FSTR for m in (["F2l", "F2r"] if f == "F2" else [f])]
CATCOLS = ["a", "b", "c", "d"]
CTX = {"K": [1.5, 3.5], "L": ["u", "v", "w", "z"]}
LETTERS = ["u", "v", "w", "z"]
MAX_PROBED = 5


# ----------------------------------------------------------------------------- real objects


def _frames(case):
    import numpy
    import pandas

    out = []
    for fr in case["frames"]:
        cols = {}
        cats = fr.get("__cat__") or {}
        ordered = fr.get("__ordered__") or []
        for k, v in fr.items():
            if k in ("__cat__", "__ordered__"):
                continue
            if k in cats:
                # a pandas CATEGORICAL column with DECLARED levels (any order; values outside them become NaN)
                cols[k] = pandas.Categorical(list(v), categories=list(cats[k]), ordered=k in ordered)
            elif k in CATCOLS:
                cols[k] = list(v)
            else:
                cols[k] = [numpy.nan if t is None else float(t) for t in v]
        out.append(pandas.DataFrame(cols))
    return out


def _needed(case):
    """the formula strings a history refers to"""
    names = []
    for op in case["ops"]:
        for n in (op.get("f"), (op.get("u") or {}).get("formula"), (op.get("target") or {}).get("f")):
            if n is not None:
                n = "F2" if n in ("F2l", "F2r") else n
                if n not in names:
                    names.append(n)
    return names


def _formulas(case=None):
    from formulaic import Formula

    out = {k: Formula(FSTR[k]) for k in (FSTR if case is None else _needed(case))}
    if "F2" in out:
        out["F2l"], out["F2r"] = out["F2"].lhs, out["F2"].rhs
    return out


def _context(case):
    """fresh context objects (the caller's scope): mutable lists referred to by name from the formulas"""
    c = case.get("ctx") or CTX
    return {
        "K": [float(t) for t in c["K"]], "L": [str(t) for t in c["L"]],
        # argument OBJECTS of transforms: scores of polynomial contrasts, custom contrast weights as a dict of lists
        # and as a nested list, knots of a natural cubic spline, a centre
        "S4": [1.0, 2.0, 4.0, 7.0],
        "M4": {"c1": [1.0, 0.0, -1.0, 0.0], "c2": [0.0, 1.0, 0.0, -1.0]},
        "M4x": [[1.0, 0.0], [0.0, 1.0], [-1.0, 0.0], [0.0, -1.0]],
        "K2": [float(t) for t in c["K"]],
        "c0": 2.0,
    }


def _ctx_repr(ctx):
    """type and DEEP contents of every object of the caller's context"""
    return repr(sorted((k, type(v).__name__, json.dumps(_deep(v), sort_keys=True)) for k, v in ctx.items()))


def _rng_state():
    import numpy

    st = numpy.random.get_state()
    return _digest([st[0], [int(t) for t in st[1]], int(st[2]), int(st[3]), float(st[4])])


def _terms(formula):
    """model-level formula: list of terms, a term = list of non-literal factor expressions"""
    return [[f.expr for f in t.factors if f.eval_method.value != "literal"] for t in formula]


def _kwargs(u):
    kw = {}
    if u is None:
        return kw
    if "efr" in u:
        kw["ensure_full_rank"] = u["efr"]
    if "na" in u:
        kw["na_action"] = u["na"]
    if u.get("clear"):
        kw["structure"] = None
    return kw


def _hexf(v):
    v = float(v)
    return "nan" if v != v else v.hex()


def _canon_matrix(mm):
    import numpy

    arr = numpy.asarray(mm, dtype=float)
    return dict(
        cols=[str(c) for c in mm.columns],
        index=[int(i) for i in mm.index],
        vals=[[_hexf(v) for v in row] for row in arr],
    )


def _canon_state(spec):
    e = {}
    for k, v in spec.encoder_state.items():
        cats = v[1].get("categories") if isinstance(v[1], dict) else None
        e[str(k)] = None if cats is None else [str(c) for c in cats]
    return dict(t=sorted((str(k), _tok(v)) for k, v in spec.transform_state.items()), e=sorted(e.items()))


def _deep(v, depth=0):
    """canonical DEEP value of a piece of recorded state: nested dicts, lists, tuples, arrays, enums, contrast objects"""
    import enum

    import numpy

    if depth > 8:
        return "<deep>"
    if isinstance(v, dict):
        return {"dict": sorted(([str(k), _deep(x, depth + 1)] for k, x in v.items()), key=lambda kv: kv[0])}
    if isinstance(v, (list, tuple)):
        return {type(v).__name__: [_deep(x, depth + 1) for x in v]}
    if isinstance(v, enum.Enum):
        return "enum:" + str(v.value)
    if isinstance(v, numpy.ndarray):
        if v.ndim == 0:
            return {"array0": _deep(v.item(), depth + 1)}
        return {"array": [_deep(x, depth + 1) for x in v.tolist()]}
    if isinstance(v, (float, numpy.floating)):
        return _hexf(v)
    if v is None or isinstance(v, (bool, int, str)):
        return v
    if isinstance(v, numpy.generic):
        return _deep(v.item(), depth + 1)
    d = getattr(v, "__dict__", None)
    if d is None and hasattr(v, "__dataclass_fields__"):
        d = {k: getattr(v, k) for k in v.__dataclass_fields__}
    if d is not None:
        return {type(v).__name__: _deep(dict(d), depth + 1)}
    return type(v).__name__ + ":" + repr(v)


def _deep_spec(spec, formula=True):
    """everything a spec has recorded, by value and in depth (formula, configuration, structure, both state dicts)"""
    return _digest(dict(
        formula=[[(f.expr, f.eval_method.value, f.kind.value) for f in t.factors] for t in spec.formula] if formula else None,
        cfg=[bool(spec.ensure_full_rank), spec.na_action.value, spec.output, spec.materializer, spec.cluster_by.value],
        structure=None if spec.structure is None else [
            [str(s.term), [[(sf.factor.expr, bool(sf.reduced)) for sf in t.factors] + [_hexf(t.scale)] for t in s.scoped_terms],
             list(s.columns)] for s in spec.structure],
        t=_deep(spec.transform_state), e=_deep(spec.encoder_state)))


def _parts_of(res):
    """list of ModelMatrix in part order"""
    from formulaic.utils.structured import Structured

    if isinstance(res, Structured):
        return list(res._flatten())
    return [res]


def _tok(v):
    import numpy

    if isinstance(v, dict):
        return "{" + ",".join(f"{k}:{_tok(v[k])}" for k in sorted(v, key=str)) + "}"
    if v is None:
        return "None"
    a = numpy.asarray(v)
    if a.dtype == object:
        return repr(v)
    if a.ndim == 0:
        return repr(float(a))
    return "[" + ",".join(repr(float(t)) for t in a.ravel()) + "]"


# terms a caller may put into a formula object through the sequence protocol (by printed form)
POOL = ["x", "z", "a", "b", "x:z", "center(x)", "1", "a:b", "c", "scale(z)"]


# string specs with the `.` wildcard ("every column of the data that this formula's own left-hand side does not use"):
# they can only be parsed against a data set, so every build parses the STRING again.
# name -> (text, variables of the left-hand side, terms of the left-hand side | None, template of the right-hand side
#          with the factor "." standing for the wildcard, terms subtracted)
DOTS = {
    "D1": (".", [], None, [[], ["."]], []),
    "D2": ("y ~ .", ["y"], [["y"]], [[], ["."]], []),
    "D3": (". - a", [], None, [[], ["."]], [["a"]]),
    "D4": ("(.):b", [], None, [[], [".", "b"]], []),
    "D5": ("y ~ a", ["y"], [["y"]], [[], ["a"]], []),
    "D6": ("x ~ .", ["x"], [["x"]], [[], ["."]], []),
    "D7": ("y + x ~ . - a", ["y", "x"], [["y"], ["x"]], [[], ["."]], [["a"]]),
    "D8": ("a ~ (.):b", ["a"], [["a"]], [[], [".", "b"]], []),
}


def _lm_keys(lm, depth=0):
    """every key written INTO a LayeredMapping or one of its LayeredMapping layers (`_mutations`)"""
    from formulaic.utils.layered_mapping import LayeredMapping

    out = [sorted(map(str, lm._mutations))]
    for layer in lm._layers:
        if isinstance(layer, LayeredMapping) and depth < 4:
            out.append(_lm_keys(layer, depth + 1))
    return out


def _term_text(t):
    """a term as a string that the parser reads back as that term (a looked-up name that is not an identifier -- a column
    `my col` brought in by the `.` wildcard -- must be back-quoted; the printed form of the term does not do that)"""
    return ":".join(f"`{f.expr}`" if f.eval_method.value == "lookup" and not f.expr.isidentifier() else f.expr
                    for f in t.factors) or "1"


def _flat(x):
    for t in x:
        if isinstance(t, list):
            yield from _flat(t)
        else:
            yield t


def _term(text):
    """the Term object printed as `text` (the last term of the parsed string; `1` is the intercept itself)"""
    from formulaic import Formula

    return list(Formula(text))[-1]


def _fnames(case):
    """names of the formula OBJECTS of a history in creation order (a structured formula has one object per part)"""
    return [m for n in _needed(case) for m in (["F2l", "F2r"] if n == "F2" else [n])]


class World:
    """the real objects of one history"""

    def __init__(self, case):
        self.frames = _frames(case)
        self.F = _formulas(case)
        self.ctx = _context(case)  # shared by every operation of the history, like variables of the calling scope
        self.H = []  # spec handles, in the order they were handed out
        self.M = []  # the matrix a handle came with (or None)
        self.origin = []  # how each handle was obtained: (op index, part index)
        self.fnames = _fnames(case)
        self.fobj = [self.F[n] for n in self.fnames]  # formula OBJECTS by creation order (identity matters)
        self.mats = {}  # one persistent materializer object per frame (entry point `materializer.get_model_matrix`)
        self.lms = {}  # one caller-owned LayeredMapping per frame, handed to the parser as its context

    def fc(self, formula):
        """number of a formula object (new ones are numbered when they are first seen)"""
        for i, f in enumerate(self.fobj):
            if f is formula:
                return i
        self.fobj.append(formula)
        return len(self.fobj) - 1

    def materializer(self, d):
        from formulaic.materializers import FormulaMaterializer

        if d not in self.mats:
            self.mats[d] = FormulaMaterializer.for_data(self.frames[d])(self.frames[d], context=self.ctx)
        return self.mats[d]

    def lm(self, d):
        """the caller's own parsing context for frame d: a LayeredMapping with a `data` layer (what `.` looks at)"""
        from formulaic.utils.layered_mapping import LayeredMapping

        if d not in self.lms:
            self.lms[d] = LayeredMapping(LayeredMapping(self.frames[d], name="data"), LayeredMapping(self.ctx, name="context"))
        return self.lms[d]

    def lm_repr(self):
        return repr(sorted((d, _lm_keys(lm), sorted(map(str, lm))) for d, lm in self.lms.items()))

    # -- resolution of the symbolic references of a case against the current number of handles
    def resolve(self, op):
        n = len(self.H)
        k = op["k"]
        r = dict(op)
        if k in ("update", "subset"):
            if n == 0:
                return None
            r["h"] = op["h"] % n
        if k == "subset":
            spec = self.H[r["h"]]
            terms = [_term_text(t) for t in spec.formula]
            pick = [terms[i % len(terms)] for i in op["pick"]] if terms else []
            pick = list(dict.fromkeys(pick))
            if op.get("bogus"):
                pick.append("x")
            r["terms"] = pick
            r.pop("pick", None)
        if k == "call":
            if n == 0:
                return None
            r["hs"] = [h % n for h in op["hs"]]
            if r.get("via") == "matrix" and (len(r["hs"]) != 1 or self.M[r["hs"][0]] is None):
                r["via"] = "mm"
        if k in ("build", "call", "dot"):
            r["d"] = op["d"] % len(self.frames)
        if k == "edit":
            if "h" in op["target"]:
                if n == 0:
                    return None
                r["target"] = {"h": op["target"]["h"] % n}
                formula = self.H[r["target"]["h"]].formula
            else:
                if op["target"]["f"] not in self.F:
                    return None
                formula = self.F[op["target"]["f"]]
            e = dict(op["e"])
            have = list(formula)
            if e["k"] in ("insert", "append", "set", "extend", "iadd"):
                # the model identifies a term of a formula by its factors: the generator never makes a formula list the
                # same term twice (ASSUMPTIONS)
                cand = [t for t in (POOL[e["t"] % len(POOL):] + POOL[: e["t"] % len(POOL)]) if _term(t) not in have]
                if not cand or (e["k"] == "extend" and len(cand) < 2):
                    return None
                e["t"] = cand[0]
                if e["k"] == "extend":
                    e["t2"] = cand[1]
            elif e["k"] == "remove":
                if not have:
                    return None
                e["i"] = e["t"] % len(have)  # remove(term): the term that is at this position now
                e["t"] = str(have[e["i"]])
            elif e["k"] == "clear":
                if not have:
                    return None
                e["n"] = len(have)
            r["e"] = e
        return r

    def execute(self, op, i):
        """run one resolved op on the real code; returns (outcome dict, canonical output or None)"""
        from formulaic import ModelSpec, ModelSpecs, model_matrix

        from formulaic.materializers.base import FormulaMaterializer

        k = op["k"]
        orig = FormulaMaterializer._build_model_matrix
        done = [0]

        def counting(self_, *a, **kw_):  # run-time wrapper (no hook in the source): parts completed so far
            r_ = orig(self_, *a, **kw_)
            done[0] += 1
            return r_

        FormulaMaterializer._build_model_matrix = counting
        try:
            if k == "new":
                f = self.F[op["f"]]
                extra = {}
                if op.get("mat") == "name":
                    extra["materializer"] = "pandas"
                elif op.get("mat") == "class":
                    from formulaic.materializers import PandasMaterializer

                    extra["materializer"] = PandasMaterializer
                elif op.get("mat") == "instance":
                    extra["materializer"] = self.materializer(0)
                if op.get("via") == "from_spec":
                    s = ModelSpec.from_spec(f, ensure_full_rank=op["efr"], na_action=op["na"], **extra)
                else:
                    s = ModelSpec(formula=f, ensure_full_rank=op["efr"], na_action=op["na"], **extra)
                self._publish([s], [None], i)
                return {"parts": []}, None
            if k == "edit":
                tgt = op["target"]
                formula = self.H[tgt["h"]].formula if "h" in tgt else self.F[tgt["f"]]
                self.edited = self.fc(formula)
                e = op["e"]
                if e["k"] == "insert":
                    formula.insert(e["i"], _term(e["t"]))
                elif e["k"] == "append":
                    formula.append(_term(e["t"]))
                elif e["k"] == "set":
                    formula[e["i"]] = _term(e["t"])
                elif e["k"] == "del":
                    del formula[e["i"]]
                # the mixin methods of collections.abc.MutableSequence, built on the three primitives above
                elif e["k"] == "pop":
                    formula.pop() if e.get("i") is None else formula.pop(e["i"])
                elif e["k"] == "remove":
                    formula.remove(formula[e["i"]])
                elif e["k"] == "extend":
                    formula.extend([_term(e["t"]), _term(e["t2"])])
                elif e["k"] == "iadd":
                    formula += [_term(e["t"])]
                else:
                    formula.clear()
                return {"parts": []}, None
            if k == "update":
                kw = _kwargs(op["u"])
                if "formula" in op["u"]:
                    kw["formula"] = self.F[op["u"]["formula"]]
                if op["u"].get("reset"):
                    kw["transform_state"], kw["encoder_state"] = {}, {}
                s = self.H[op["h"]].update(**kw)
                self._publish([s], [None], i)
                return {"parts": []}, None
            if k == "subset":
                s = self.H[op["h"]].subset(op["terms"])
                self._publish([s], [None], i)
                return {"parts": []}, None
            data = self.frames[op["d"]]
            if k == "dot":
                from formulaic import Formula

                text = DOTS[op["s"]][0]
                self.dot_formulas = None
                if op["via"] == "materializer":
                    res = self.materializer(op["d"]).get_model_matrix(text, ensure_full_rank=op["efr"], na_action=op["na"])
                elif op["via"] == "lmctx":
                    f = Formula(text, _context=self.lm(op["d"]))
                    self.dot_formulas = f
                    res = f.get_model_matrix(data, context=self.ctx, ensure_full_rank=op["efr"], na_action=op["na"])
                else:
                    res = model_matrix(text, data, context=self.ctx, ensure_full_rank=op["efr"], na_action=op["na"])
            elif k == "build":
                f = self.F[op["f"]]
                if op.get("via") == "formula":
                    res = f.get_model_matrix(data, context=self.ctx, ensure_full_rank=op["efr"], na_action=op["na"])
                elif op.get("via") == "materializer":
                    res = self.materializer(op["d"]).get_model_matrix(f, ensure_full_rank=op["efr"], na_action=op["na"])
                else:
                    res = model_matrix(f, data, context=self.ctx, ensure_full_rank=op["efr"], na_action=op["na"])
            else:
                kw = _kwargs(op.get("u"))
                hs = [self.H[h] for h in op["hs"]]
                via = op.get("via", "spec")
                kw["context"] = self.ctx
                if via == "materializer":
                    kw.pop("context")
                    joint = hs[0] if len(hs) == 1 else ModelSpecs(**{f"p{j}": s for j, s in enumerate(hs)})
                    res = self.materializer(op["d"]).get_model_matrix(joint, **kw)
                elif len(hs) == 1 and via == "spec":
                    res = hs[0].get_model_matrix(data, **kw)
                elif len(hs) == 1 and via == "matrix":
                    res = model_matrix(self.M[op["hs"][0]], data, **kw)
                elif len(hs) == 1:
                    res = model_matrix(hs[0], data, **kw)
                else:
                    joint = ModelSpecs(**{f"p{j}": s for j, s in enumerate(hs)})
                    if via == "spec":
                        res = joint.get_model_matrix(data, **kw)
                    else:
                        res = model_matrix(joint, data, **kw)
            mats = _parts_of(res)
            self._publish([m.model_spec for m in mats], mats, i)
            # the result of a call = the matrix AND the spec that comes with it (keys and values of its fitted state)
            canon = [dict(_canon_matrix(m), state=_canon_state(m.model_spec)) for m in mats]
            parts = [
                dict(
                    kept=[int(t) for t in m.index],
                    terms=_terms([s.term for s in m.model_spec.structure]),
                )
                for m in mats
            ]
            return {"parts": parts}, canon
        except Exception as e:  # the class is the observable
            if k == "dot":
                self._register_lost_dot(op)
            self.parts_done = done[0]
            name = type(e).__name__
            if k in ("build", "call", "dot") and name in ("FactorEvaluationError", "ValueError"):
                # Step 1 raises on the FIRST failing factor of `factors: set[Factor]`: when one factor cannot be
                # evaluated and another has nulls under na_action='raise', WHICH of the two exceptions escapes
                # depends on the set's iteration order (observed: PYTHONHASHSEED=0/1 ValueError, 2..5
                # FactorEvaluationError).  The property speaks about results (values, column order, dropped rows),
                # not about the class of the exception, so both are one observable here (as in order_independent).
                name = "EvaluationError"
            return {"err": name}, {"err": name}
        finally:
            FormulaMaterializer._build_model_matrix = orig

    def _register_lost_dot(self, op):
        """a dot build that raised after parsing: its formula objects exist (the model creates them) but no spec shows them"""
        from formulaic import Formula
        from formulaic.utils.layered_mapping import LayeredMapping
        from formulaic.utils.structured import Structured

        f = self.dot_formulas
        if f is None:
            f = Formula(DOTS[op["s"]][0], _context=LayeredMapping(LayeredMapping(self.frames[op["d"]], name="data")))
        for part in (list(f._flatten()) if isinstance(f, Structured) else [f]):
            self.fc(part)

    def _publish(self, specs, mats, i):
        for j, (s, m) in enumerate(zip(specs, mats)):
            self.H.append(s)
            self.M.append(m)
            self.origin.append((i, j))

    def summary(self):
        """the store as seen from the handles"""
        tids, eids, out = [], [], []
        for s in self.H:
            if id(s.transform_state) not in tids:
                tids.append(id(s.transform_state))
            if id(s.encoder_state) not in eids:
                eids.append(id(s.encoder_state))
            e = {}
            for k, v in s.encoder_state.items():
                cats = v[1].get("categories") if isinstance(v[1], dict) else None
                e[str(k)] = [LETTERS.index(c) for c in cats] if cats is not None and all(c in LETTERS for c in cats) else []
            out.append(
                dict(
                    formula=_terms(s.formula),
                    efr=bool(s.ensure_full_rank),
                    na=s.na_action.value,
                    struct=None if s.structure is None else _terms([t.term for t in s.structure]),
                    tc=tids.index(id(s.transform_state)),
                    ec=eids.index(id(s.encoder_state)),
                    fc=self.fc(s.formula),
                    t={str(k): _tok(v) for k, v in s.transform_state.items()},
                    e=e,
                )
            )
        return out


def _digest(x):
    return hashlib.sha256(json.dumps(x, sort_keys=True).encode()).hexdigest()[:16]


def _mdigest(canon):
    """digest of the matrices alone (without the state of the specs that come with them)"""
    if canon is None:
        return None
    if isinstance(canon, dict):
        return _digest(canon)
    return _digest([{k: v for k, v in c.items() if k != "state"} for c in canon])


def _frame_hash(df):
    import pandas

    h = hashlib.sha256()
    h.update(pandas.util.hash_pandas_object(df, index=True).values.tobytes())
    h.update(repr([(str(c), str(t)) for c, t in df.dtypes.items()]).encode())
    h.update(repr([(str(c), list(df[c].cat.categories), bool(df[c].cat.ordered)) for c in df.columns
                   if isinstance(df[c].dtype, pandas.CategoricalDtype)]).encode())
    h.update(repr(list(df.index)).encode())
    return h.hexdigest()[:16]


def _formula_repr(F):
    """F: dict name -> formula, or a list of formula objects"""
    items = F.items() if isinstance(F, dict) else enumerate(F)
    return {k: repr([[(f.expr, f.eval_method.value, f.kind.value) for f in t.factors] for t in v])
            for k, v in items if k != "F2"}


INTROSPECT = ["column_names", "column_indices", "terms", "term_indices", "term_slices", "term_factors", "term_variables",
              "factors", "factor_terms", "factor_variables", "factor_contrasts", "variables", "variable_terms",
              "variable_indices", "variables_by_source", "required_variables"]


def _introspect(spec):
    """read every derived attribute of a REAL spec object (they are cached on the object): looking at a spec between two
    calls must not change what the calls return (the fresh replays do not look)"""
    for name in INTROSPECT:
        try:
            getattr(spec, name)
        except Exception:
            pass
    for arg in (0, slice(0, 1), "Intercept"):
        try:
            spec.get_slice(arg)
        except Exception:
            pass


def _probe(spec, frame, ctx):
    """replay behaviour of a spec, observed on deep copies (so that observing cannot disturb)"""
    try:
        return _digest([_canon_matrix(m) for m in _parts_of(
            copy.deepcopy(spec).get_model_matrix(frame.copy(), context=copy.deepcopy(ctx)))])
    except Exception as e:
        return "err:" + type(e).__name__


def run_history(case, light=False):
    """Run the history on the real code.  light=True: outputs only (used in the hash-seed batches)."""
    import numpy

    warnings.simplefilter("ignore")
    numpy.random.seed(180018)  # the global stream is an observable: no operation may consume it
    w = World(case)
    fr0 = _formula_repr(w.F)
    fh0 = None if light else [_frame_hash(f) for f in w.frames]
    rec = []
    probes = {}
    for i, op0 in enumerate(case["ops"]):
        op = w.resolve(op0)
        if op is None:
            continue
        n_before = len(w.H)
        is_edit = op["k"] == "edit"
        if not light:
            touched = [op["d"]] if "d" in op else []  # no other frame is handed to the operation
            fh = [_frame_hash(w.frames[d]) for d in touched]
            fr = _formula_repr(list(w.fobj))
            cx = _ctx_repr(w.ctx)
            lmx = w.lm_repr()
            rs = _rng_state()
            deep = [_deep_spec(s_, formula=not is_edit) for s_ in w.H]
        out, canon = w.execute(op, len(rec))
        entry = dict(op=op, out=out, digest=None if canon is None else _digest(canon), mdigest=_mdigest(canon))
        if out.get("err") == "FactorEncodingError":
            entry["parts_done"] = w.parts_done
        if is_edit:
            entry["edited"] = w.edited
        if not light:
            bad = []
            if fh != [_frame_hash(w.frames[d]) for d in touched]:
                bad.append("the input data frame was mutated")
            if not is_edit and fr != _formula_repr(w.fobj[: len(fr)]):
                # (the caller's own edits of a formula object are operations of the history; nothing else may change one)
                bad.append("a formula object was mutated")
            if cx != _ctx_repr(w.ctx):
                bad.append(f"an object of the caller's context was mutated: {cx} -> {_ctx_repr(w.ctx)}")
            if rs != _rng_state():
                bad.append("the operation consumed numpy's global random stream")
            lmy = w.lm_repr()
            if lmx != lmy:
                # a LayeredMapping the CALLER owns and hands to the parser as context is an input: nothing may be written
                # into it and it must show the same keys (one created by this very operation starts with no written keys)
                import ast as _ast

                before = {d: (keys, shown) for d, keys, shown in _ast.literal_eval(lmx)}
                for d, keys, shown in _ast.literal_eval(lmy):
                    if list(_flat(keys)) and keys != before.get(d, (None, None))[0]:
                        bad.append(f"the caller's LayeredMapping context for frame {d} was written to: {sorted(set(_flat(keys)))}")
                    elif d in before and shown != before[d][1]:
                        bad.append(f"the caller's LayeredMapping context for frame {d} shows other keys than before")
            for h, (b4, s_) in enumerate(zip(deep, w.H)):
                if b4 != _deep_spec(s_, formula=not is_edit):
                    bad.append(f"the recorded state of the previously obtained spec #{h} (formula, configuration, structure, "
                               f"transform_state / encoder_state in depth) was changed by the operation")
                    break
            for h in ([op["h"]] if "h" in op else op.get("hs", [])) + list(range(n_before, len(w.H))):
                if h < len(w.H):
                    b4 = _deep_spec(w.H[h])
                    _introspect(w.H[h])
                    if b4 != _deep_spec(w.H[h]):
                        bad.append(f"reading the derived attributes of spec #{h} changed its recorded state")
            if is_edit:
                probes.clear()  # specs holding the edited formula object legitimately behave differently from now on
            # replay behaviour (on deep copies): the recorded state of EVERY earlier spec is compared in depth above; the
            # replay output is observed for the specs the operation names and the oldest one, each always on the same
            # frame (handle number modulo the number of frames), with a baseline taken at creation
            named = [h for h in ([op["h"]] if "h" in op else op.get("hs", [])) if h < n_before]
            idx = list(dict.fromkeys(named + list(range(n_before))[:1]))[:MAX_PROBED]
            for h in idx + list(range(n_before, len(w.H))):
                pf = h % len(w.frames)
                p = _probe(w.H[h], w.frames[pf], w.ctx)
                if h in probes and probes[h] != p:
                    bad.append(f"replay of spec #{h} on frame {pf} changed ({probes[h]} -> {p})")
                probes[h] = p
            entry["bad"] = bad
            entry["specs"] = w.summary()
            entry["forms"] = [_terms(f) for f in w.fobj]
        rec.append(entry)
    if rec and not light:
        # module-level parser state (DEFAULT_PARSER / DEFAULT_NESTED_PARSER): parsing the same strings again after the
        # history must give the same terms as at its start
        if _formula_repr(_formulas(case)) != fr0:
            rec[-1]["bad"].append("re-parsing the formulas after the history gives different terms")
        if fh0 != [_frame_hash(f) for f in w.frames]:
            rec[-1]["bad"].append("a data frame is not what it was at the start of the history")
    return w, rec


# ----------------------------------------------------------------------------- fresh replay


def fresh_output(case, rec, i):
    """the output of executed op i on fresh objects (formulas, frames, context, materializers): only the operations it
    depends on are replayed, in their original order -- the ancestry of the specs it names, and the caller's edits of
    the formula objects that ancestry touches"""
    ops = [r["op"] for r in rec]
    # origin of handle h in the original run, and the formula object each handle holds
    origin, hfc = [], []
    for j, r in enumerate(rec):
        k = r["op"]["k"]
        if "err" in r["out"] or k == "edit":
            continue
        n = len(r["out"]["parts"]) if k in ("build", "call", "dot") else 1
        origin += [(j, p) for p in range(n)]
    last = [r for r in rec if "specs" in r]
    hfc = [sp["fc"] for sp in last[-1]["specs"]] if last else []
    names = _fnames(case)

    def handles_of(op):
        if op["k"] in ("update", "subset"):
            return [op["h"]]
        if op["k"] == "call":
            return list(op["hs"])
        if op["k"] == "edit" and "h" in op["target"]:
            return [op["target"]["h"]]
        return []

    def forms_of(j):
        """formula objects operation j reads, writes or hands on"""
        op = ops[j]
        fs = [hfc[h] for h in handles_of(op) if h < len(hfc)]
        fs += [hfc[h] for h, (jj, _) in enumerate(origin) if jj == j and h < len(hfc)]
        for n in (op.get("f"), (op.get("u") or {}).get("formula"), (op.get("target") or {}).get("f")):
            for m in (["F2l", "F2r"] if n == "F2" else [n]):
                if m in names:
                    fs.append(names.index(m))
        if op["k"] == "edit":
            fs.append(rec[j]["edited"])
        return fs

    need, todo = set(), [i]
    while todo:
        j = todo.pop()
        if j in need:
            continue
        need.add(j)
        for h in handles_of(ops[j]):
            todo.append(origin[h][0])
        touched = {f for t in need for f in forms_of(t)}
        for t in range(max(need)):
            if t not in need and ops[t]["k"] == "edit" and rec[t]["edited"] in touched:
                todo.append(t)
    w = World(case)
    hmap = {}  # handle of the original run -> handle of the fresh run
    res = None
    for j in sorted(need):
        if j > i:
            continue
        op = dict(ops[j])
        if op["k"] in ("update", "subset"):
            op["h"] = hmap[op["h"]]
        elif op["k"] == "call":
            op["hs"] = [hmap[h] for h in op["hs"]]
        elif op["k"] == "edit" and "h" in op["target"]:
            op["target"] = {"h": hmap[op["target"]["h"]]}
        n0 = len(w.H)
        res = w.execute(op, j)
        mine = [h for h, (jj, _) in enumerate(origin) if jj == j]
        for t, h in enumerate(mine):
            if n0 + t < len(w.H):
                hmap[h] = n0 + t
    out, canon = res
    return (None, None) if canon is None else (_digest(canon), _mdigest(canon))


# ----------------------------------------------------------------------------- parameters of the model


def _used_formulas(case):
    names = []
    for op in case["ops"]:
        for n in (op.get("f"), (op.get("u") or {}).get("formula"), (op.get("target") or {}).get("f")):
            for m in (["F2l", "F2r"] if n == "F2" else [n]):
                if m is not None and m not in names:
                    names.append(m)
    return names


def model_params(case, handles=()):
    """fresh isolated evaluations of the real transforms: the numeric parameters of the model"""
    import pandas
    from formulaic import ModelSpec, model_matrix
    from formulaic.transforms import TRANSFORMS
    from formulaic.utils.layered_mapping import LayeredMapping
    from formulaic.utils.null_handling import find_nulls
    from formulaic.utils.stateful_transforms import stateful_eval

    warnings.simplefilter("ignore")
    F = _formulas(case)
    used = _used_formulas(case)
    factors, method = [], {}
    for k in used:
        for t in F[k]:
            for fa in t.factors:
                if fa.eval_method.value != "literal" and fa.expr not in factors:
                    factors.append(fa.expr)
                    method[fa.expr] = fa.eval_method.value
    if any(op["k"] == "dot" for op in case["ops"]):
        for fr in case["frames"]:
            for col in fr:
                if col not in ("__cat__", "__ordered__") and col not in factors:
                    factors.append(col)
                    method[col] = "lookup"
    if any(op["k"] == "edit" for op in case["ops"]):
        # terms the caller may put into a formula object
        for text in POOL:
            for fa in _term(text).factors:
                if fa.eval_method.value != "literal" and fa.expr not in factors:
                    factors.append(fa.expr)
                    method[fa.expr] = fa.eval_method.value
    frames = _frames(case)
    nodes = {f: [] for f in factors}
    fit, fails, nulls, levels, fixedenc, kinds = {}, {f: {} for f in factors}, {f: {} for f in factors}, {}, {}, {}
    for d, df in enumerate(frames):
        for f in factors:
            st = {}
            # the evaluation environment as a materializer builds it (named layers: `Q()` reads `_context.data`)
            env = LayeredMapping(LayeredMapping({c: df[c].copy() for c in df.columns}, name="data"),
                                 LayeredMapping(_context(case), name="context"),
                                 LayeredMapping(TRANSFORMS, name="transforms"))
            try:
                val = env[f] if method[f] == "lookup" else stateful_eval(f, env, None, st, None)
                bad = False
            except Exception:
                val, bad = None, True
            for n in st:
                if n not in nodes[f]:
                    nodes[f].append(n)
                if not bad:
                    fit.setdefault(n, {})[str(d)] = _tok(st[n])
            fails[f][str(d)] = bad
            if bad:
                nulls[f][str(d)] = []
                continue
            nulls[f][str(d)] = sorted(int(t) for t in find_nulls(val))
            meta = getattr(val, "__formulaic_metadata__", None)
            raw = getattr(val, "__wrapped__", val)
            # a looked-up column carries no metadata: the materializer decides by dtype (`_is_categorical`)
            textual = meta is None and isinstance(raw, pandas.Series) and (
                raw.dtype == object or isinstance(raw.dtype, pandas.CategoricalDtype)
                or pandas.api.types.is_string_dtype(raw.dtype))
            kinds.setdefault(f, {})[str(d)] = (
                [meta.kind.value, bool(meta.spans_intercept)] if meta is not None and meta.kind.value != "unknown"
                else ["categorical", True] if textual else ["numerical", False])
            if textual or (meta is not None and meta.kind.value == "categorical"):
                vals = list(raw) if hasattr(raw, "__iter__") else []
                if all(t is None or t != t or t in LETTERS for t in vals):  # (`hashed` has its own integer codes)
                    levels.setdefault(f, {})[str(d)] = [
                        None if (t is None or t != t) else LETTERS.index(t) for t in vals
                    ]
                # levels that do not come from the VALUES of the kept rows: given in the formula (C(a, levels=L)) or
                # declared by a pandas categorical dtype (any order, possibly unobserved levels); they are still
                # there when every row is dropped
                if meta is not None and meta.encoder is not None:
                    try:
                        est = {}
                        meta.encoder(val, reduced_rank=False, drop_rows=list(range(len(df))), encoder_state=est,
                                     model_spec=ModelSpec(formula=[], output="pandas"))
                        if est.get("categories") and all(c in LETTERS for c in est["categories"]):
                            fixedenc.setdefault(f, {})[str(d)] = [LETTERS.index(c) for c in est["categories"]]
                    except Exception:
                        pass
                elif isinstance(getattr(raw, "dtype", None), pandas.CategoricalDtype):
                    fixedenc.setdefault(f, {})[str(d)] = [LETTERS.index(c) for c in raw.dtype.categories]
    # rank reduction is computed by the MODEL (from `kinds`); what the real code does is recorded here for comparison:
    # the scoped terms of every term of every formula that a spec of the history carries (the shared formulas, and
    # restrictions of them made by subset()), per frame and ensure_full_rank setting
    from fractions import Fraction

    F = dict(F)
    seen = {json.dumps(_terms(F[k])) for k in used}
    for s_ in handles:
        key = json.dumps(_terms(s_.formula))
        if key not in seen:
            seen.add(key)
            F[key] = s_.formula
            used = used + [key]
    scoped = []
    krow = lambda d: {f: v.get(str(d)) for f, v in kinds.items()}
    for d, df in enumerate(frames):
        if d > 0 and krow(d) == krow(0):
            continue  # rank reduction looks at the kinds only: nothing new to compare on this frame
        for k in used:
            for efr in (True, False):
                st = None
                for na in ("drop", "ignore"):
                    try:
                        st = model_matrix(F[k], df.copy(), context=_context(case), ensure_full_rank=efr,
                                          na_action=na).model_spec.structure
                        break
                    except Exception:
                        continue
                if st is not None:
                    scoped.append(dict(
                        origin=_terms(F[k]), efr=efr, d=d,
                        terms=[[dict(factors=[[sf.factor.expr, bool(sf.reduced)] for sf in t.factors],
                                     scale=str(Fraction(t.scale))) for t in s.scoped_terms] for s in st]))
    return dict(
        nodes=nodes, fit=fit, fails=fails, nulls=nulls, levels=levels, fixedenc=fixedenc, kinds=kinds, scoped=scoped,
        nrows={str(d): len(df) for d, df in enumerate(frames)},
    )


# ----------------------------------------------------------------------------- hash-seed batches

_SEED_CACHE: dict[str, dict] = {}
_PENDING: list = []


def _key(case):
    return json.dumps(case, sort_keys=True, separators=(",", ":"))


def _start_batches(cases, seeds):
    """one subprocess per seed, each running every case (startup is the expensive part)"""
    if not cases or not seeds:
        return
    tmp = ROOT / "lean" / ".lake" / f"c18_batch_{os.getpid()}_{len(_PENDING)}.json"
    tmp.parent.mkdir(parents=True, exist_ok=True)
    tmp.write_text(json.dumps(cases))
    procs = []
    for s in seeds:
        env = dict(os.environ, PYTHONHASHSEED=str(s))
        p = subprocess.Popen(
            [sys.executable, "-W", "ignore", "-m", "harness.props.c18", "--batch", str(tmp)],
            cwd=str(ROOT), env=env, stdout=subprocess.PIPE, stderr=subprocess.PIPE, text=True,
            preexec_fn=lambda: os.nice(10),  # the per-case time cap applies to the main process: it goes first
        )
        procs.append((s, p))
    _PENDING.append((tmp, [_key(c) for c in cases], procs))


def _collect():
    while _PENDING:
        tmp, keys, procs = _PENDING.pop()
        for s, p in procs:
            try:
                so, se = p.communicate(timeout=1800)
                res = json.loads(so)
            except Exception as e:  # a crashed batch is reported as a difference for every case
                res = [["batch-failed: " + repr(e)[:80]]] * len(keys)
            for k, r in zip(keys, res):
                _SEED_CACHE.setdefault(k, {})[str(s)] = r
        try:
            tmp.unlink()
        except OSError:
            pass


def seed_outputs(case):
    seeds = case.get("seeds") or []
    if not seeds:
        return {}
    k = _key(case)
    if k not in _SEED_CACHE or any(str(s) not in _SEED_CACHE[k] for s in seeds):
        _collect()
    if k not in _SEED_CACHE or any(str(s) not in _SEED_CACHE[k] for s in seeds):
        _start_batches([case], seeds)
        _collect()
    return {str(s): _SEED_CACHE[k][str(s)] for s in seeds}


def _batch_main(path):
    cases = json.loads(Path(path).read_text())
    out = []
    for c in cases:
        try:
            _, rec = run_history(c, light=True)
            out.append([r["digest"] for r in rec])
        except Exception as e:
            out.append(["harness-exception: " + type(e).__name__])
    sys.stdout.write(json.dumps(out))


# ----------------------------------------------------------------------------- generator


def _gen_frame(rng, drop_z, reserved=False):
    n = rng.randint(4, 6)
    while True:
        x = [rng.randint(-4, 9) for _ in range(n)]
        z = [rng.randint(-3, 12) for _ in range(n)]
        if len(set(x)) > 1 and len(set(z)) > 2:  # poly(z, 2) needs three distinct values to be finite
            break
    x[0], x[1] = -rng.randint(1, 4), rng.randint(5, 9)  # the range of x covers the context knots K
    a = [None if rng.random() < 0.12 else rng.choice(LETTERS) for _ in range(n)]
    if all(t is None for t in a):
        a[0] = "u"
    y = [None if rng.random() < 0.12 else rng.randint(-5, 5) for _ in range(n)]
    q = [rng.randint(1, 30) for _ in range(n)]
    if len(set(q)) == 1:
        q[0] += 1
    fr = {"x": x, "z": z, "a": a, "y": y, "my col": q}
    for col in ("b", "c", "d"):
        pool = rng.sample(LETTERS, rng.choice([2, 2, 3]))
        fr[col] = [None if rng.random() < 0.04 else rng.choice(pool) for _ in range(n)]
        if all(t is None for t in fr[col]):
            fr[col][0] = pool[0]
    if drop_z:
        del fr["z"]
    if reserved:
        # a data column named like one of the evaluator's reserved names: every Python factor fails on this frame
        fr["__FORMULAIC_STATE__"] = list(range(n))
    return fr


def _recast(rng, fr):
    """declare some of the text columns as pandas categoricals: the observed levels in another order, a subset of them
    (the other values become nulls), or a superset"""
    cat = {}
    for col in CATCOLS:
        if rng.random() < 0.5:
            continue
        seen = sorted({t for t in fr[col] if t is not None})
        r = rng.random()
        if r < 0.5:
            lv = list(seen)
            rng.shuffle(lv)
            if lv == seen and len(lv) > 1:
                lv.reverse()
        elif r < 0.7 and len(seen) > 1:
            lv = rng.sample(seen, len(seen) - 1)
        else:
            lv = seen + [t for t in LETTERS if t not in seen][: rng.randint(1, 2)]
            rng.shuffle(lv)
        cat[col] = lv
    out = dict(fr)
    if cat:
        out["__cat__"] = cat
        ordered = [col for col in cat if rng.random() < 0.3]
        if ordered:
            out["__ordered__"] = ordered
    return out


def _gen_cfg(rng, malformed):
    na = "drop"
    r = rng.random()
    if r < 0.12:
        na = "ignore"
    elif r < (0.3 if malformed else 0.06):
        na = "raise"
    return dict(efr=rng.random() < 0.7, na=na)


def _gen_upd(rng, malformed, simple=SIMPLE):
    u = {}
    r = rng.random()
    if r < 0.3:
        u["efr"] = rng.random() < 0.5
    elif r < 0.45:
        u["na"] = rng.choice(["drop", "ignore", "raise"] if malformed else ["drop", "ignore"])
    elif r < 0.65:
        u["clear"] = True
    elif r < 0.85:
        u["formula"] = rng.choice(simple)
        if not (malformed and rng.random() < 0.6):
            u["clear"] = True
    else:
        u["efr"] = rng.random() < 0.5
        u["clear"] = True
    if rng.random() < 0.15:
        u["reset"] = True  # update(transform_state={}, encoder_state={}): the copy forgets what was fitted
        if rng.random() < 0.7:
            u["clear"] = True
    return u


def _gen_edit(rng, malformed, simple):
    """the caller edits a formula object through the sequence protocol"""
    target = {"h": rng.randint(0, 40)} if rng.random() < 0.3 else {"f": rng.choice(simple)}
    r = rng.random()
    rng_i = (lambda: rng.randint(-9, 9)) if malformed else (lambda: rng.randint(-3, 3))
    if r < 0.3:
        e = dict(k="insert", i=rng_i(), t=rng.randint(0, 20))
    elif r < 0.5:
        e = dict(k="append", t=rng.randint(0, 20))
    elif r < 0.65:
        e = dict(k="set", i=rng_i(), t=rng.randint(0, 20))
    elif r < 0.8:
        e = dict(k="del", i=rng_i())
    else:  # the collections.abc mixins
        e = rng.choice([dict(k="pop", i=None), dict(k="pop", i=rng_i()), dict(k="remove", t=rng.randint(0, 20)),
                        dict(k="extend", t=rng.randint(0, 20)), dict(k="iadd", t=rng.randint(0, 20)), dict(k="clear")])
    return dict(k="edit", target=target, e=e)


def _gen_ops(rng, malformed, nmax, fams=None):
    ops = []
    # each history works with 2-3 of the formulas
    fams = fams or rng.sample(FAMILIES, rng.choice([2, 2, 3]))
    simple = [m for f in fams for m in (["F2l", "F2r"] if f == "F2" else [f])]
    buildable = [m for f in fams for m in (["F2", "F2r"] if f == "F2" else [f])]
    n = rng.randint(3, nmax)
    edits = rng.random() < 0.35  # histories in which the caller also edits formula objects between the calls
    dots = rng.random() < 0.2  # histories that interleave string specs with the `.` wildcard, one- and two-sided,
    dframe = rng.randint(0, 5)  # mostly on ONE frame: one shared materializer object / one caller-owned parsing context
    for i in range(n):
        r = rng.random()
        if dots and rng.random() < 0.45:
            ops.append(dict(k="dot", s=rng.choice(list(DOTS)),
                            via=rng.choice(["materializer", "materializer", "materializer", "lmctx", "lmctx", "mm"]),
                            d=dframe if rng.random() < 0.8 else rng.randint(0, 5), **_gen_cfg(rng, malformed)))
            continue
        if i == 0:
            r = rng.choice([0.05, 0.2])
        if edits and i > 0 and rng.random() < 0.22:
            ops.append(_gen_edit(rng, malformed, simple))
            continue
        if r < 0.15:
            ops.append(dict(k="new", f=rng.choice(simple), via=rng.choice(["ctor", "from_spec"]),
                            mat=rng.choice([None, None, "name", "class", "instance"]), **_gen_cfg(rng, malformed)))
        elif r < 0.33:
            ops.append(dict(k="build", f=rng.choice(buildable), via=rng.choice(["mm", "formula", "materializer"]),
                            d=rng.randint(0, 5), **_gen_cfg(rng, malformed)))
        elif r < 0.73:
            k = rng.choice([1, 1, 1, 1, 2, 2, 3])
            hs = [rng.randint(0, 40) for _ in range(k)]
            if k > 1 and rng.random() < 0.25:
                hs[1] = hs[0]
            u = None
            if rng.random() < 0.25:
                u = {}
                if rng.random() < 0.6:
                    u["efr"] = rng.random() < 0.5
                else:
                    u["na"] = rng.choice(["drop", "ignore", "raise"] if malformed else ["drop", "ignore"])
            ops.append(dict(k="call", hs=hs, via=rng.choice(["spec", "spec", "mm", "matrix", "materializer"]), u=u,
                            d=rng.randint(0, 5)))
        elif r < 0.88:
            ops.append(dict(k="update", h=rng.randint(0, 40), u=_gen_upd(rng, malformed, simple)))
        else:
            op = dict(k="subset", h=rng.randint(0, 40), pick=[rng.randint(0, 5) for _ in range(rng.randint(1, 3))])
            if malformed and rng.random() < 0.3:
                op["bogus"] = True
            ops.append(op)
    return ops


def _gen_case(rng, seeds, nmax=12, fams=None):
    malformed = rng.random() < 0.25
    nf = rng.choice([2, 3, 3])
    frames = [_gen_frame(rng, drop_z=(j == 2 and rng.random() < 0.5), reserved=(malformed and j > 0 and rng.random() < 0.15))
              for j in range(nf)]
    for j in range(nf):
        r = rng.random()
        if j > 0 and r < 0.3:
            # the SAME values as an earlier frame, with text columns re-declared as categoricals in another level order
            frames[j] = _recast(rng, {k: v for k, v in frames[rng.randrange(j)].items() if k not in ("__cat__", "__ordered__")})
        elif r < 0.5:
            frames[j] = _recast(rng, frames[j])
    ctx = dict(K=sorted(rng.sample([0.5, 1.5, 2.5, 3.5, 4.5], 2)), L=list(LETTERS))
    return dict(frames=frames, ctx=ctx, ops=_gen_ops(rng, malformed, nmax, fams), seeds=seeds)


D16_WITNESS = dict(
    frames=[
        {"x": [1, 2, 3, 4], "z": [1, 2, 4, 7], "a": ["u", "v", "w", "u"], "y": [1, 2, 3, 4]},
        {"x": [10, 20, 30, 40], "z": [2, 3, 5, 9], "a": ["v", "w", "z", "z"], "y": [4, 3, 2, 1]},
    ],
    ops=[
        dict(k="new", f="F1", via="ctor", efr=True, na="drop"),
        dict(k="call", hs=[0], via="spec", u=None, d=0),
        dict(k="call", hs=[0], via="spec", u=None, d=1),
    ],
)


_WFRAMES = [
    {"x": [-2, 6, 1, 3, 4], "z": [1, 2, 4, 7, 9], "a": ["u", "v", "w", "u", "z"], "y": [1, 2, 3, 4, 5],
     "my col": [1, 2, 4, 9, 11]},
    {"x": [-1, 8, 2, 5], "z": [2, 3, 5, 9], "a": ["v", "w", "z", "z"], "y": [4, 3, 2, 1], "my col": [10, 20, 40, 45]},
]
# train / train again / predict with both fitted specs, back-quoted non-identifier column in several stateful factors
BACKQUOTE_WITNESS = dict(
    frames=_WFRAMES, ctx=CTX,
    ops=[
        dict(k="build", f="F3", via="mm", d=0, efr=True, na="drop"),
        dict(k="build", f="F3", via="formula", d=0, efr=True, na="drop"),
        dict(k="call", hs=[0], via="spec", u=None, d=1),
        dict(k="call", hs=[1], via="mm", u=None, d=1),
    ],
)
# the same build three times with mutable context objects (knots list, levels list), interleaved with a reuse
CONTEXT_WITNESS = dict(
    frames=_WFRAMES, ctx=CTX,
    ops=[
        dict(k="build", f="F4", via="mm", d=0, efr=True, na="drop"),
        dict(k="build", f="F4", via="formula", d=0, efr=True, na="drop"),
        dict(k="call", hs=[0], via="spec", u=None, d=1),
        dict(k="build", f="F4", via="mm", d=0, efr=True, na="drop"),
    ],
)


_TXT = dict(a=["u", "v", "w", "u", "w", "v"], b=["v", "v", "u", "u", "w", "w"], c=["u", "v", "u", "v", "u", "v"],
            d=["w", "u", "u", "w", "w", "u"])
_GFRAME = dict({"x": [-2, 6, 1, 3, 4, 8], "z": [1, 2, 4, 7, 9, 3], "y": [1, 2, 3, 4, 5, 6], "my col": [1, 2, 4, 9, 11, 5]}, **_TXT)
_GFRAME2 = dict({"x": [-1, 8, 2, 5, 0, 7], "z": [2, 3, 5, 9, 1, 4], "y": [4, 3, 2, 1, 0, 5], "my col": [10, 20, 40, 45, 3, 8]},
                a=["w", "v", "u", "u", "v", "w"], b=["u", "w", "v", "u", "w", "v"], c=["v", "v", "u", "u", "v", "u"],
                d=["u", "w", "u", "w", "u", "w"])


def _shape_witness(f):
    """one term interacting >= 3 categorical factors: build twice (both entry points), reuse on other data, reuse again"""
    return dict(
        frames=[_GFRAME, _GFRAME2], ctx=CTX,
        ops=[
            dict(k="build", f=f, via="mm", d=0, efr=True, na="drop"),
            dict(k="build", f=f, via="formula", d=1, efr=True, na="drop"),
            dict(k="call", hs=[0], via="spec", u=None, d=1),
            dict(k="call", hs=[1], via="mm", u=None, d=0),
            dict(k="new", f=f, via="ctor", efr=True, na="drop"),
            dict(k="call", hs=[4], via="spec", u=None, d=0),
        ],
    )


def _order_witness(f, how):
    """(1) fit a spec with categorical factors, (2) reuse it on the same values declared as pandas categoricals listing the
    levels in another order / a subset / a superset, (3) reuse it on the original data again; then the same starting from
    an un-materialised spec fitted on the categorical frame first"""
    lv = {"reorder": dict(a=["w", "u", "v"], b=["w", "v", "u"]),
          "subset": dict(a=["w", "u"], b=["v", "u"]),
          "superset": dict(a=["z", "w", "v", "u"], b=["u", "z", "v", "w"])}[how]
    return dict(
        frames=[_GFRAME, dict(_GFRAME, __cat__=lv), _GFRAME2], ctx=CTX,
        ops=[
            dict(k="build", f=f, via="mm", d=0, efr=True, na="drop"),
            dict(k="call", hs=[0], via="spec", u=None, d=1),
            dict(k="call", hs=[0], via="spec", u=None, d=0),
            dict(k="call", hs=[1], via="mm", u=None, d=2),
            dict(k="call", hs=[0], via="matrix", u=None, d=0),
            dict(k="new", f=f, via="ctor", efr=True, na="drop"),
            dict(k="call", hs=[5], via="spec", u=None, d=1),
            dict(k="call", hs=[5], via="spec", u=None, d=0),
            dict(k="call", hs=[6], via="spec", u=None, d=0),
            dict(k="call", hs=[6], via="spec", u=None, d=1),
        ],
    )


# the caller edits a formula object between the calls: specs that hold it see the edit, their recorded state does not
EDIT_WITNESS = dict(
    frames=[_GFRAME, _GFRAME2], ctx=CTX,
    ops=[
        dict(k="build", f="F1", via="mm", d=0, efr=True, na="drop"),
        dict(k="new", f="F1", via="ctor", efr=True, na="drop"),
        dict(k="edit", target={"f": "F1"}, e=dict(k="append", t=1)),
        dict(k="call", hs=[0], via="spec", u=None, d=1),
        dict(k="call", hs=[1], via="spec", u=None, d=0),
        dict(k="edit", target={"f": "F1"}, e=dict(k="del", i=0)),
        dict(k="call", hs=[1], via="materializer", u=None, d=1),
        dict(k="build", f="F1", via="materializer", d=0, efr=True, na="drop"),
        dict(k="edit", target={"h": 0}, e=dict(k="set", i=1, t=3)),
        dict(k="call", hs=[0], via="mm", u=None, d=0),
        dict(k="update", h=0, u=dict(reset=True, clear=True)),
        dict(k="call", hs=[6], via="spec", u=None, d=1),
        dict(k="edit", target={"f": "F1"}, e=dict(k="insert", i=-1, t=4)),
        dict(k="edit", target={"f": "F1"}, e=dict(k="del", i=7)),
        dict(k="subset", h=2, pick=[1, 0]),
        dict(k="edit", target={"h": 7}, e=dict(k="append", t=0)),
        dict(k="call", hs=[7], via="spec", u=None, d=0),
        dict(k="edit", target={"f": "F1"}, e=dict(k="extend", t=2)),
        dict(k="edit", target={"f": "F1"}, e=dict(k="pop", i=None)),
        dict(k="edit", target={"f": "F1"}, e=dict(k="remove", t=1)),
        dict(k="call", hs=[1], via="spec", u=None, d=0),
        dict(k="edit", target={"f": "F1"}, e=dict(k="clear")),
        dict(k="edit", target={"f": "F1"}, e=dict(k="pop", i=None)),
        dict(k="edit", target={"f": "F1"}, e=dict(k="iadd", t=5)),
        dict(k="call", hs=[1], via="mm", u=None, d=1),
    ],
)

def _dot_witness(via):
    """one shared materializer object / one caller-owned LayeredMapping: `.`, then `y ~ .`, then `.` again (the third
    result is the first: all columns, `y` included), other left-hand sides and wildcard expressions in between, a reuse"""
    def b(s, d=0):
        return dict(k="dot", s=s, via=via, d=d, efr=True, na="drop")

    return dict(
        frames=[_GFRAME, _GFRAME2], ctx=CTX,
        ops=[b("D1"), b("D2"), b("D1"), b("D6"), b("D3"), b("D5"), b("D1"), b("D4"), b("D7"), b("D1", 1), b("D8"), b("D1"),
             dict(k="call", hs=[0], via="materializer", u=None, d=1),
             dict(k="build", f="F1", via="materializer", d=0, efr=True, na="drop"), b("D1")],
    )


SHAPE_FORMULAS = ["G1", "G2", "G3", "G4", "G5", "G6"]
ORDER_FORMULAS = ["H1", "H2", "H3", "F1", "G2"]
QUICK_SEEDS = [0, 1, 2, 3, 4, 5]


def _fixed_cases(seeds):
    out = [dict(D16_WITNESS, seeds=seeds), dict(BACKQUOTE_WITNESS, seeds=seeds), dict(CONTEXT_WITNESS, seeds=seeds),
           dict(EDIT_WITNESS, seeds=seeds), dict(_dot_witness("materializer"), seeds=seeds),
           dict(_dot_witness("lmctx"), seeds=seeds)]
    out += [dict(_shape_witness(f), seeds=seeds) for f in SHAPE_FORMULAS]
    out += [dict(_order_witness(f, how), seeds=seeds) for f in ORDER_FORMULAS for how in ("reorder", "subset", "superset")]
    return out


def cases(rng, tier):
    n = {"quick": 90, "thorough": 700, "search": 25}[tier]
    seeds = {"quick": QUICK_SEEDS, "thorough": list(range(16)), "search": []}[tier]
    out = _fixed_cases(seeds)
    for i in range(n):
        # every third history is forced to contain one of the equal-size-scoped-term shapes
        fams = None
        if i % 3 == 0:
            fams = [rng.choice(SHAPE_FORMULAS), rng.choice(FAMILIES)]
            fams = list(dict.fromkeys(fams))
        elif i % 3 == 1 and rng.random() < 0.5:
            fams = list(dict.fromkeys([rng.choice(["H1", "H2", "H3"]), rng.choice(FAMILIES)]))
        out.append(_gen_case(rng, seeds, fams=fams))
    if seeds:
        _start_batches(out, seeds)
    return out


# ----------------------------------------------------------------------------- interface


def describe(c):
    ks = [o["k"] for o in c["ops"]]
    return (f"ops={len(ks)},calls={ks.count('call') + ks.count('build') + ks.count('dot')},edits={ks.count('edit')},"
            f"dots={ks.count('dot')},frames={len(c['frames'])}")


def nontrivial(c):
    ks = [o["k"] for o in c["ops"]]
    return (ks.count("call") >= 2 or (ks.count("call") >= 1 and ("update" in ks or "subset" in ks))
            or ks.count("dot") >= 2)


def impl(c):
    w, rec = run_history(c)
    for i, r in enumerate(rec):
        r["fresh"], r["fresh_m"] = fresh_output(c, rec, i) if r["op"]["k"] in ("build", "call", "dot") else (None, None)
    return dict(ops=rec, params=model_params(c, w.H))


def _pick_terms(text):
    """the term a picked string denotes (non-literal factor expressions in written order)"""
    try:
        return _terms([_term(text)])[0]
    except Exception:
        return [text]


def _model_op(op, fid, nforms=0, cols=None):
    """fid: name of a formula object -> its number (creation order); nforms: formula objects that exist before the
    operation; cols: the columns of the frames"""
    k = op["k"]
    if k == "dot":
        # a STRING spec is parsed by the build itself: new formula object(s) every time.  The wildcard is expanded by the
        # MODEL from the template, the columns of this call's frame and this string's own left-hand side.
        text, lhsvars, lhs, tmpl, remove = DOTS[op["s"]]
        pre = [] if lhs is None else [dict(op="formula", f=lhs)]
        pre.append(dict(op="formula", dot=dict(cols=cols[op["d"]], lhs=lhsvars, tmpl=tmpl, remove=remove)))
        return pre + [dict(op="build", fids=list(range(nforms, nforms + len(pre))), efr=op["efr"], na=op["na"], d=op["d"])]
    if k == "new":
        return dict(op="new", fid=fid[op["f"]], efr=op["efr"], na=op["na"])
    if k == "update":
        u = {x: op["u"][x] for x in ("efr", "na", "clear", "reset") if x in op["u"]}
        if "formula" in op["u"]:
            u["formula"] = fid[op["u"]["formula"]]
        return dict(op="update", h=op["h"], u=u)
    if k == "subset":
        # the picked terms in the order given: the MODEL re-sorts them by degree as SimpleFormula.from_spec does
        return dict(op="subset", h=op["h"], picks=[_pick_terms(t) for t in op["terms"]])
    if k == "build":
        fids = [fid["F2l"], fid["F2r"]] if op["f"] == "F2" else [fid[op["f"]]]
        return dict(op="build", fids=fids, efr=op["efr"], na=op["na"], d=op["d"])
    if k == "edit":
        e = op["e"]
        # the mixins are what collections.abc builds from the primitives the model has (Gen/SpecState.lean:
        # `formulaMixinMutators`, theorem sequence_protocol_as_modelled): pop(i) = del [i]; remove(t) = del [index(t)];
        # extend(ts) / += ts = append each; clear() = pop() until the formula is empty
        if e["k"] == "pop":
            prim = [dict(k="del", i=-1 if e.get("i") is None else e["i"])]
        elif e["k"] == "remove":
            prim = [dict(k="del", i=e["i"])]
        elif e["k"] == "extend":
            prim = [dict(k="append", t=_pick_terms(e["t"])), dict(k="append", t=_pick_terms(e["t2"]))]
        elif e["k"] == "iadd":
            prim = [dict(k="append", t=_pick_terms(e["t"]))]
        elif e["k"] == "clear":
            prim = [dict(k="del", i=-1)] * e["n"]
        else:
            prim = [dict(e, t=_pick_terms(e["t"])) if "t" in e else dict(e)]
        if "h" in op["target"]:
            return [dict(op="editof", h=op["target"]["h"], e=x) for x in prim]
        return [dict(op="edit", fid=fid[op["target"]["f"]], e=x) for x in prim]
    u = op.get("u")
    return dict(op="call", hs=op["hs"], u=None if u is None else dict(u), d=op["d"])


def _model_groups(c, o):
    """the model's operations: the creation of the formula objects first, then per real operation one operation or (for a
    mixin edit) the primitives it is built from; returns (flat list, index of the LAST model operation of every real one)"""
    F = _formulas(c)
    names = _fnames(c)
    fid = {n: i for i, n in enumerate(names)}
    flat = [dict(op="formula", f=_terms(F[n])) for n in names]
    ends = []
    cols = [[k for k in fr if k not in ("__cat__", "__ordered__")] for fr in c["frames"]]
    nforms = len(names)
    for r in o["ops"]:
        m = _model_op(r["op"], fid, nforms, cols)
        nforms = len(r["forms"])  # (compared with the model's after every operation)
        flat += m if isinstance(m, list) else [m]
        ends.append(len(flat) - 1)
    return flat, ends


def request(c, o):
    if "ops" not in o:
        return dict(ops=[])
    flat, ends = _model_groups(c, o)
    r = dict(o["params"], ops=flat)
    # the real code's scoped terms are NOT sent: the model computes rank reduction itself and `agree` compares
    r["scopedq"] = [dict(origin=e["origin"], efr=e["efr"], d=e["d"]) for e in r.pop("scoped")]
    # the outcome of `_enforce_structure` is a parameter of the model (a function of the part's record):
    # which operation raised FactorEncodingError after how many completed parts
    r["encfail"] = [[ends[i], x["parts_done"]] for i, x in enumerate(o["ops"]) if "parts_done" in x]
    return r


def _model_view(out):
    if "err" in out:
        return {"err": out["err"]}
    return {"parts": [dict(kept=p["kept"], terms=p["terms"]) for p in out["parts"]]}


def agree(c, o, m):
    if "driver_error" in m:
        return "driver: " + m["driver_error"][:300]
    if "ops" not in o:
        return None
    heap, pure = m.get("heap", []), m.get("pure", [])
    # rank reduction: the model's scoped terms (order of the scoped terms of a term, order of the factors inside, which
    # are reduced, scale) vs those recorded in the structure of a fresh real build
    for q, ans in zip(o["params"]["scoped"], m.get("scoped", [])):
        if ans != q["terms"]:
            return (f"rank reduction of formula {q['origin']} (ensure_full_rank={q['efr']}, frame {q['d']}): "
                    f"implementation {q['terms']} vs model {ans}")
    if len(m.get("scoped", [])) != len(o["params"]["scoped"]):
        return "the model answered a different number of rank-reduction queries"
    flat, ends = _model_groups(c, o)
    if len(heap) != len(flat):
        return f"model ran {len(heap)} ops, {len(flat)} were sent"
    for lo, hi in zip([len(_fnames(c))] + [e + 1 for e in ends], ends):
        # a mixin edit raises exactly when one of its primitives does (none of the generated ones is expected to, except
        # the last); the outcome of the real operation is compared with that of its last primitive
        for t in range(lo, hi):
            if "err" in heap[t]["out"]:
                return f"model operation {t} {flat[t]} (an inner step of a mixin edit) raised {heap[t]['out']}"
    heap, pure = [heap[e] for e in ends], [pure[e] for e in ends]
    records = {}
    for i, (r, hm, pm) in enumerate(zip(o["ops"], heap, pure)):
        if r["out"] != _model_view(hm["out"]):
            return f"op {i} {r['op']}: implementation {r['out']} vs model {_model_view(hm['out'])}"
        if r["specs"] != hm["specs"]:
            for h, (a, b) in enumerate(zip(r["specs"], hm["specs"])):
                if a != b:
                    return f"after op {i} {r['op']}: spec #{h} implementation {a} vs model {b}"
            return f"after op {i}: implementation has {len(r['specs'])} specs, model {len(hm['specs'])}"
        if r["forms"] != hm["forms"]:
            return (f"after op {i} {r['op']}: the formula objects (terms in order; objects in creation order) are "
                    f"{r['forms']} in the implementation vs {hm['forms']} in the model")
        if r["op"]["k"] in ("build", "call", "dot"):
            for what, rec_, dig in (("history", hm["out"], r["mdigest"]), ("fresh", pm, r["fresh_m"])):
                key = json.dumps(rec_, sort_keys=True)
                if key in records and records[key][0] != dig:
                    return (f"op {i} ({what}) and op {records[key][1]} ({records[key][2]}) have the same model record "
                            f"but different real outputs: the model's record does not determine the output")
                records.setdefault(key, (dig, i, what))
    return None


def oracle(c, o):
    if "harness_exception" in o:
        return None
    for i, r in enumerate(o["ops"]):
        msgs = []
        if r["op"]["k"] in ("build", "call", "dot") and r["digest"] != r["fresh"]:
            what = ("the matrices differ" if r.get("mdigest") != r.get("fresh_m")
                    else "the matrices agree but the fitted state (transform_state / encoder_state keys or values) of the returned spec differs")
            msgs.append(f"its output inside the history differs from the output of the same call on fresh objects: {what} "
                        f"(history {r['out']}, digest {r['digest']} vs fresh {r['fresh']})")
        msgs += r.get("bad") or []
        if msgs:
            return f"op {i} {r['op']}: " + "; ".join(msgs)
    mine = [r["digest"] for r in o["ops"]]
    for s, ds in sorted(seed_outputs(c).items()):
        if ds != mine:
            j = next((t for t, (a, b) in enumerate(zip(ds, mine)) if a != b), min(len(ds), len(mine)))
            return f"PYTHONHASHSEED={s}: canonical output of op {j} differs from this process ({ds[j:j+1]} vs {mine[j:j+1]})"
    return None


def classify(c, o, why):
    return None


LEVEL_TEXT = (
    "Proof: Lean theorems (Props/C18.lean, 32) about a store model of ModelSpec state (reference cells for transform_state / "
    "encoder_state, update() sharing, in-place writes of get_model_matrix steps 2-3) extended by formula OBJECTS (which "
    "object every spec holds, the caller's edits through the sequence protocol with Python's index rules and the re-sort "
    "by degree, state-resetting updates) show, for ALL histories and all numeric parameters: every outcome equals the "
    "outcome under value semantics (a pure function of the named specs' values and of the contents of the formula objects "
    "read); no operation other than the caller's own edit changes a formula object, the value of an earlier spec or the "
    "outcome of any later operation on earlier objects; an operation that raises -- at any point -- changes nothing, so "
    "any reuse after a fault gives what it would have given without it; an edit reaches exactly the specs that hold the "
    "object and only their formula; a spec given as a string (with the `.` wildcard expanded by the model from the columns "
    "of the call's frame and the string's own left-hand side) builds to what it builds to in the empty world, whatever "
    "was parsed before on the same materializer / context objects; repeated calls agree; the aliasing bookkeeping is consistent.  Rank reduction is inside "
    "the model (the code of _get_scoped_terms / _simplify_scoped_terms with the iteration order of every plain set as a "
    "parameter) and proved total and independent of those orders, as factor evaluation is of the order of the factor set "
    "-- hence column order, values and dropped rows do not depend on the hash seed; a variant that hands a plain set to "
    "the recursion is proved seed-dependent on `a:b:c` (why the seed batches contain such shapes).  The layout of state "
    "the model assumes is compared with tables regenerated from the live package.  Partial: CPython's real hash function / "
    "dict internals and float summation order are observed (subprocesses with 6/16 hash seeds, byte-identical canonical "
    "outputs), not modelled; immutability of the data frames is observed by hashing, not proved."
)
LEVEL_NOTE = (
    "Trusted: Lean kernel + propext/Quot.sound/Classical.choice; the hand model of model_spec.py / materializers/base.py / "
    "formula.py (SimpleFormula as a mutable sequence) state handling validated by correspondence (outcomes, dictionary and "
    "formula identity classes and contents after every operation, scoped terms of fresh builds); numerics enter as "
    "parameters computed by isolated fresh evaluations."
)

if __name__ == "__main__":
    if len(sys.argv) == 3 and sys.argv[1] == "--batch":
        _batch_main(sys.argv[2])
