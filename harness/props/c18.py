"""C18 - Materialization is pure and deterministic across calls, histories and hash seeds.

A case is a *history*: 2-3 data frames and up to 12 operations over two shared formulas
(`center(x) + C(a)` and the structured `y ~ scale(z) + center(x):C(a) + I(center(x) * z)`):
  new     ModelSpec(formula=F, ...) / ModelSpec.from_spec(F, ...)        (un-materialised spec)
  update  spec.update(ensure_full_rank= / na_action= / structure=None / formula=)
  subset  spec.subset(terms)
  build   model_matrix(F, data, ...) / F.get_model_matrix(data, ...)
  call    spec.get_model_matrix(data, **overrides) / model_matrix(spec | matrix, data, **overrides) /
          ModelSpecs(p0=spec, p1=spec').get_model_matrix(data, **overrides) on specs obtained earlier
Spec handles are numbered in the order in which the real code hands them out.

Correspondence stream `c18` (real code vs `Model.Heap.trace`): after every operation the outcome
(exception class, or kept rows and materialised terms per part) and the whole store are compared:
for every spec handle its formula/configuration/structure terms, the identity classes of its
`transform_state` / `encoder_state` dictionaries (Python `is` vs reference equality in the model) and
their contents (fitted-state tokens, level codes).  The numeric parameters of the model (fitted state
per call node and frame, null rows, failing factors, level codes) are computed by isolated fresh
evaluations of the real transforms and forwarded in the request.  In addition every symbolic `Part`
record the model produces (for the history and for the value semantics) must determine the real
output: equal records with different real matrices are a disagreement.

Oracle (implementation only): (1) every call's output equals the output of the same call on fresh
objects (fresh formulas, fresh frames, the spec re-derived through its own ancestry only);
(2) frames (hash of values, dtypes, labels) and the shared formulas' terms are unchanged by every
operation; (3) the replay output of previously obtained specs (on deep copies) is unchanged by every
operation; (4) the canonical outputs of the whole history (values, column order, kept rows) are
byte-identical in subprocesses with PYTHONHASHSEED in {0,1,2,3} (thorough: 16 seeds).
"""
from __future__ import annotations

import copy
import hashlib
import json
import os
import subprocess
import sys
import warnings
from pathlib import Path

PROPERTY = "C18"
ENGINE = "c18"
REQUIRED_THEOREMS = [
    "history_independent",
    "call_is_pure",
    "inputs_unchanged",
    "repeat_identical",
    "order_independent",
    "call_order_independent",
    "shared_prepare_not_history_independent",
]
TRUSTED = [
    "modelled, not verified: CPython's hash function and dict/set internals (the model proves independence of the "
    "iteration order of the factor set; the real seeds are observed in subprocesses), numpy summation order, float rounding",
    "parameters of the model (checked per case by fresh isolated evaluations of the real transforms): fitted state of a "
    "stateful call node as a function of (node, data); null rows and failure of a factor as functions of (factor, data); "
    "encoder state (levels) as a function of (factor, data, kept rows)",
    "the data frames and formula objects are immutable in the model; that the real ones are not mutated is observed by "
    "hashing them around every operation (oracle), not proved",
    "a persistent FormulaMaterializer instance reused by hand for several get_model_matrix calls (its factor/encoded "
    "caches survive) is outside the property's quantifier and not modelled; every modelled entry point creates its own",
]
ASSUMPTIONS = [
    "inner state dictionaries (state[name], encoder_state[expr][1]) are written only while a key is absent "
    "(scale/center/poly/bs/encode_contrasts), so they are immutable values once stored in a spec",
    "stateful calls are not nested inside one another within a factor (the state a node fits depends on the data only)",
    "rank reduction (which scoped factors a term is encoded with) is a function of (term, formula, ensure_full_rank, "
    "data): it enters the model as the parameter `scopedOf`, tabulated per case from fresh builds (it is the subject of C03)",
    "whether `_enforce_structure` raises FactorEncodingError is a function of the part's record (parameter `encodingFails`; "
    "the harness reports after how many completed parts an operation raised it and the engine tabulates the record)",
    "when several factors fail in step 1 for different reasons, WHICH exception class escapes (FactorEvaluationError vs "
    "ValueError for nulls under na_action='raise') depends on the iteration order of the factor set, i.e. on the hash seed "
    "(observed); the property text does not cover the exception class, both are one observable 'EvaluationError' here",
    "encoders do not raise",
]
RULE = (
    "random histories (<= 12 ops) over 2 shared formulas (center/scale/C(), one structured), 2-3 frames (nulls in a/y, "
    "third frame may lack z), interleaving new/update/subset/build/call via every entry point incl. joint ModelSpecs calls "
    "and attribute overrides; malformed stream: formula swaps that keep a structure (KeyError), subsets of un-materialised "
    "specs / unknown terms, inconsistent joint specs, na_action='raise' with nulls, missing columns; "
    "non-trivial = some spec is materialised at least twice on different frames or reused after an update; distinct by canonical JSON"
)

ROOT = Path(__file__).resolve().parent.parent.parent
FSTR = {"F1": "center(x) + C(a)", "F2": "y ~ scale(z) + center(x):C(a) + I(center(x) * z)"}
SIMPLE = ["F1", "F2l", "F2r"]
LETTERS = ["u", "v", "w", "z"]
MAX_PROBED = 8


# ----------------------------------------------------------------------------- real objects


def _frames(case):
    import numpy
    import pandas

    out = []
    for fr in case["frames"]:
        cols = {}
        for k, v in fr.items():
            if k == "a":
                cols[k] = list(v)
            else:
                cols[k] = [numpy.nan if t is None else float(t) for t in v]
        out.append(pandas.DataFrame(cols))
    return out


def _formulas():
    from formulaic import Formula

    f1 = Formula(FSTR["F1"])
    f2 = Formula(FSTR["F2"])
    return {"F1": f1, "F2": f2, "F2l": f2.lhs, "F2r": f2.rhs}


def _terms(formula):
    """model-level formula: list of terms, a term = list of non-literal factor expressions"""
    return [[f.expr for f in t.factors if f.eval_method.value != "literal"] for t in formula]


def _kwargs(u):
    kw = {}
    if u is None:
        return kw
    if "efr" in u:
        kw["ensure_full_rank"] = u["efr"]
    if "na" in u:
        kw["na_action"] = u["na"]
    if u.get("clear"):
        kw["structure"] = None
    return kw


def _hexf(v):
    v = float(v)
    return "nan" if v != v else v.hex()


def _canon_matrix(mm):
    import numpy

    arr = numpy.asarray(mm, dtype=float)
    return dict(
        cols=[str(c) for c in mm.columns],
        index=[int(i) for i in mm.index],
        vals=[[_hexf(v) for v in row] for row in arr],
    )


def _parts_of(res):
    """list of ModelMatrix in part order"""
    from formulaic.utils.structured import Structured

    if isinstance(res, Structured):
        return list(res._flatten())
    return [res]


def _tok(v):
    import numpy

    if isinstance(v, dict):
        return "{" + ",".join(f"{k}:{_tok(v[k])}" for k in sorted(v, key=str)) + "}"
    if v is None:
        return "None"
    a = numpy.asarray(v)
    if a.dtype == object:
        return repr(v)
    if a.ndim == 0:
        return repr(float(a))
    return "[" + ",".join(repr(float(t)) for t in a.ravel()) + "]"


class World:
    """the real objects of one history"""

    def __init__(self, case):
        self.frames = _frames(case)
        self.F = _formulas()
        self.H = []  # spec handles, in the order they were handed out
        self.M = []  # the matrix a handle came with (or None)
        self.origin = []  # how each handle was obtained: (op index, part index)

    # -- resolution of the symbolic references of a case against the current number of handles
    def resolve(self, op):
        n = len(self.H)
        k = op["k"]
        r = dict(op)
        if k in ("update", "subset"):
            if n == 0:
                return None
            r["h"] = op["h"] % n
        if k == "subset":
            spec = self.H[r["h"]]
            terms = [str(t) for t in spec.formula]
            pick = [terms[i % len(terms)] for i in op["pick"]] if terms else []
            pick = list(dict.fromkeys(pick))
            if op.get("bogus"):
                pick.append("x")
            r["terms"] = pick
            r.pop("pick", None)
        if k == "call":
            if n == 0:
                return None
            r["hs"] = [h % n for h in op["hs"]]
            if r.get("via") == "matrix" and (len(r["hs"]) != 1 or self.M[r["hs"][0]] is None):
                r["via"] = "mm"
        if k in ("build", "call"):
            r["d"] = op["d"] % len(self.frames)
        return r

    def execute(self, op, i):
        """run one resolved op on the real code; returns (outcome dict, canonical output or None)"""
        from formulaic import ModelSpec, ModelSpecs, model_matrix

        from formulaic.materializers.base import FormulaMaterializer

        k = op["k"]
        orig = FormulaMaterializer._build_model_matrix
        done = [0]

        def counting(self_, *a, **kw_):  # run-time wrapper (no hook in the source): parts completed so far
            r_ = orig(self_, *a, **kw_)
            done[0] += 1
            return r_

        FormulaMaterializer._build_model_matrix = counting
        try:
            if k == "new":
                f = self.F[op["f"]]
                if op.get("via") == "from_spec":
                    s = ModelSpec.from_spec(f, ensure_full_rank=op["efr"], na_action=op["na"])
                else:
                    s = ModelSpec(formula=f, ensure_full_rank=op["efr"], na_action=op["na"])
                self._publish([s], [None], i)
                return {"parts": []}, None
            if k == "update":
                kw = _kwargs(op["u"])
                if "formula" in op["u"]:
                    kw["formula"] = self.F[op["u"]["formula"]]
                s = self.H[op["h"]].update(**kw)
                self._publish([s], [None], i)
                return {"parts": []}, None
            if k == "subset":
                s = self.H[op["h"]].subset(op["terms"])
                self._publish([s], [None], i)
                return {"parts": []}, None
            data = self.frames[op["d"]]
            if k == "build":
                f = self.F[op["f"]]
                if op.get("via") == "formula":
                    res = f.get_model_matrix(data, ensure_full_rank=op["efr"], na_action=op["na"])
                else:
                    res = model_matrix(f, data, ensure_full_rank=op["efr"], na_action=op["na"])
            else:
                kw = _kwargs(op.get("u"))
                hs = [self.H[h] for h in op["hs"]]
                via = op.get("via", "spec")
                if len(hs) == 1 and via == "spec":
                    res = hs[0].get_model_matrix(data, **kw)
                elif len(hs) == 1 and via == "matrix":
                    res = model_matrix(self.M[op["hs"][0]], data, **kw)
                elif len(hs) == 1:
                    res = model_matrix(hs[0], data, **kw)
                else:
                    joint = ModelSpecs(**{f"p{j}": s for j, s in enumerate(hs)})
                    if via == "spec":
                        res = joint.get_model_matrix(data, **kw)
                    else:
                        res = model_matrix(joint, data, **kw)
            mats = _parts_of(res)
            self._publish([m.model_spec for m in mats], mats, i)
            canon = [_canon_matrix(m) for m in mats]
            parts = [
                dict(
                    kept=[int(t) for t in m.index],
                    terms=_terms([s.term for s in m.model_spec.structure]),
                )
                for m in mats
            ]
            return {"parts": parts}, canon
        except Exception as e:  # the class is the observable
            self.parts_done = done[0]
            name = type(e).__name__
            if k in ("build", "call") and name in ("FactorEvaluationError", "ValueError"):
                # Step 1 raises on the FIRST failing factor of `factors: set[Factor]`: when one factor cannot be
                # evaluated and another has nulls under na_action='raise', WHICH of the two exceptions escapes
                # depends on the set's iteration order (observed: PYTHONHASHSEED=0/1 ValueError, 2..5
                # FactorEvaluationError).  The property speaks about results (values, column order, dropped rows),
                # not about the class of the exception, so both are one observable here (as in order_independent).
                name = "EvaluationError"
            return {"err": name}, {"err": name}
        finally:
            FormulaMaterializer._build_model_matrix = orig

    def _publish(self, specs, mats, i):
        for j, (s, m) in enumerate(zip(specs, mats)):
            self.H.append(s)
            self.M.append(m)
            self.origin.append((i, j))

    def summary(self):
        """the store as seen from the handles"""
        tids, eids, out = [], [], []
        for s in self.H:
            if id(s.transform_state) not in tids:
                tids.append(id(s.transform_state))
            if id(s.encoder_state) not in eids:
                eids.append(id(s.encoder_state))
            e = {}
            for k, v in s.encoder_state.items():
                cats = v[1].get("categories") if isinstance(v[1], dict) else None
                e[str(k)] = [LETTERS.index(c) for c in cats] if cats is not None else []
            out.append(
                dict(
                    formula=_terms(s.formula),
                    efr=bool(s.ensure_full_rank),
                    na=s.na_action.value,
                    struct=None if s.structure is None else _terms([t.term for t in s.structure]),
                    tc=tids.index(id(s.transform_state)),
                    ec=eids.index(id(s.encoder_state)),
                    t={str(k): _tok(v) for k, v in s.transform_state.items()},
                    e=e,
                )
            )
        return out


def _digest(x):
    return hashlib.sha256(json.dumps(x, sort_keys=True).encode()).hexdigest()[:16]


def _frame_hash(df):
    import pandas

    h = hashlib.sha256()
    h.update(pandas.util.hash_pandas_object(df, index=True).values.tobytes())
    h.update(repr([(str(c), str(t)) for c, t in df.dtypes.items()]).encode())
    h.update(repr(list(df.index)).encode())
    return h.hexdigest()[:16]


def _formula_repr(F):
    return {k: repr([[(f.expr, f.eval_method.value, f.kind.value) for f in t.factors] for t in v])
            for k, v in F.items() if k != "F2"}


def _probe(spec, frame):
    """replay behaviour of a spec, observed on a deep copy (so that observing cannot disturb)"""
    try:
        return _digest([_canon_matrix(m) for m in _parts_of(copy.deepcopy(spec).get_model_matrix(frame.copy()))])
    except Exception as e:
        return "err:" + type(e).__name__


def run_history(case, light=False):
    """Run the history on the real code.  light=True: outputs only (used in the hash-seed batches)."""
    warnings.simplefilter("ignore")
    w = World(case)
    rec = []
    probes = {}
    for i, op0 in enumerate(case["ops"]):
        op = w.resolve(op0)
        if op is None:
            continue
        n_before = len(w.H)
        if not light:
            fh = [_frame_hash(f) for f in w.frames]
            fr = _formula_repr(w.F)
        out, canon = w.execute(op, len(rec))
        entry = dict(op=op, out=out, digest=None if canon is None else _digest(canon))
        if out.get("err") == "FactorEncodingError":
            entry["parts_done"] = w.parts_done
        if not light:
            bad = []
            if fh != [_frame_hash(f) for f in w.frames]:
                bad.append("an input data frame was mutated")
            if fr != _formula_repr(w.F):
                bad.append("a shared formula was mutated")
            # replay behaviour of the specs obtained before this op, on a frame other than the op's
            pf = (op.get("d", i) + 1) % len(w.frames)
            idx = list(range(n_before))
            if len(idx) > MAX_PROBED:
                idx = idx[: MAX_PROBED // 2] + idx[-MAX_PROBED // 2:]
            for h in idx:
                p = _probe(w.H[h], w.frames[pf])
                if (h, pf) in probes and probes[(h, pf)] != p:
                    bad.append(f"replay of spec #{h} on frame {pf} changed ({probes[(h, pf)]} -> {p})")
                probes[(h, pf)] = p
            for h in range(n_before, len(w.H)):
                probes[(h, pf)] = _probe(w.H[h], w.frames[pf])
            entry["bad"] = bad
            entry["specs"] = w.summary()
        rec.append(entry)
    if rec and not light:
        # module-level parser state (DEFAULT_PARSER / DEFAULT_NESTED_PARSER): parsing the same strings again after the
        # history must give the same terms as before it
        if _formula_repr(_formulas()) != _formula_repr(w.F):
            rec[-1]["bad"].append("re-parsing the formulas after the history gives different terms")
    return w, rec


# ----------------------------------------------------------------------------- fresh replay


def fresh_output(case, rec, i):
    """the output of executed op i on fresh objects: fresh formulas and frames; the specs it names are
    re-derived through their own ancestry only"""
    w = World(case)
    ops = [r["op"] for r in rec]
    # origin of handle h in the original run
    origin = []
    for j, r in enumerate(rec):
        k = r["op"]["k"]
        if "err" in r["out"]:
            continue
        n = len(r["out"]["parts"]) if k in ("build", "call") else 1
        origin += [(j, p) for p in range(n)]
    memo = {}  # op index -> list of fresh specs/matrices it handed out

    def handed(j):
        if j not in memo:
            memo[j] = run(j)[2]
        return memo[j]

    def spec_of(h):
        j, p = origin[h]
        return handed(j)[p]

    def run(j):
        op = dict(ops[j])
        fresh = World.__new__(World)
        fresh.frames, fresh.F, fresh.H, fresh.M, fresh.origin = w.frames, w.F, [], [], []
        if op["k"] in ("update", "subset"):
            s, m = spec_of(op["h"])
            fresh.H, fresh.M = [s], [m]
            op["h"] = 0
        elif op["k"] == "call":
            pairs = [spec_of(h) for h in op["hs"]]
            uniq = []
            for pr in pairs:
                if not any(pr[0] is q[0] for q in uniq):
                    uniq.append(pr)
            fresh.H, fresh.M = [q[0] for q in uniq], [q[1] for q in uniq]
            op["hs"] = [next(t for t, q in enumerate(uniq) if q[0] is pr[0]) for pr in pairs]
        n0 = len(fresh.H)
        out, canon = fresh.execute(op, j)
        return out, canon, list(zip(fresh.H[n0:], fresh.M[n0:]))

    out, canon, _ = run(i)
    return None if canon is None else _digest(canon)


# ----------------------------------------------------------------------------- parameters of the model


def model_params(case):
    """fresh isolated evaluations of the real transforms: the numeric parameters of the model"""
    from formulaic.transforms import TRANSFORMS
    from formulaic.utils.layered_mapping import LayeredMapping
    from formulaic.utils.null_handling import find_nulls
    from formulaic.utils.stateful_transforms import stateful_eval

    warnings.simplefilter("ignore")
    F = _formulas()
    factors = []
    for k in SIMPLE:
        for t in _terms(F[k]):
            for f in t:
                if f not in factors:
                    factors.append(f)
    frames = _frames(case)
    nodes = {f: [] for f in factors}
    fit, fails, nulls, levels = {}, {f: {} for f in factors}, {f: {} for f in factors}, {}
    for d, df in enumerate(frames):
        for f in factors:
            st = {}
            env = LayeredMapping({c: df[c].copy() for c in df.columns}, TRANSFORMS)
            try:
                val = stateful_eval(f, env, None, st, None)
                bad = False
            except Exception:
                val, bad = None, True
            for n in st:
                if n not in nodes[f]:
                    nodes[f].append(n)
                if not bad:
                    fit.setdefault(n, {})[str(d)] = _tok(st[n])
            fails[f][str(d)] = bad
            if bad:
                nulls[f][str(d)] = []
                continue
            nulls[f][str(d)] = sorted(int(t) for t in find_nulls(val))
            meta = getattr(val, "__formulaic_metadata__", None)
            if meta is not None and meta.kind.value == "categorical":
                raw = getattr(val, "__wrapped__", val)
                levels.setdefault(f, {})[str(d)] = [
                    None if (t is None or t != t) else LETTERS.index(t) for t in list(raw)
                ]
    # rank reduction as a parameter: the scoped factors of every term of every formula, per frame
    from formulaic import model_matrix

    scoped = []
    for d, df in enumerate(frames):
        for k in SIMPLE:
            for efr in (True, False):
                st = None
                for na in ("drop", "ignore"):
                    try:
                        st = model_matrix(F[k], df.copy(), ensure_full_rank=efr, na_action=na).model_spec.structure
                        break
                    except Exception:
                        continue
                for s in st or []:
                    scoped.append(dict(
                        term=_terms([s.term])[0], origin=_terms(F[k]), efr=efr, d=d,
                        factors=[[sf.factor.expr, bool(sf.reduced)] for t in s.scoped_terms for sf in t.factors],
                    ))
    return dict(
        nodes=nodes, fit=fit, fails=fails, nulls=nulls, levels=levels, scoped=scoped,
        nrows={str(d): len(df) for d, df in enumerate(frames)},
    )


# ----------------------------------------------------------------------------- hash-seed batches

_SEED_CACHE: dict[str, dict] = {}
_PENDING: list = []


def _key(case):
    return json.dumps(case, sort_keys=True, separators=(",", ":"))


def _start_batches(cases, seeds):
    """one subprocess per seed, each running every case (startup is the expensive part)"""
    if not cases or not seeds:
        return
    tmp = ROOT / "lean" / ".lake" / f"c18_batch_{os.getpid()}_{len(_PENDING)}.json"
    tmp.parent.mkdir(parents=True, exist_ok=True)
    tmp.write_text(json.dumps(cases))
    procs = []
    for s in seeds:
        env = dict(os.environ, PYTHONHASHSEED=str(s))
        p = subprocess.Popen(
            [sys.executable, "-W", "ignore", "-m", "harness.props.c18", "--batch", str(tmp)],
            cwd=str(ROOT), env=env, stdout=subprocess.PIPE, stderr=subprocess.PIPE, text=True,
        )
        procs.append((s, p))
    _PENDING.append((tmp, [_key(c) for c in cases], procs))


def _collect():
    while _PENDING:
        tmp, keys, procs = _PENDING.pop()
        for s, p in procs:
            try:
                so, se = p.communicate(timeout=1800)
                res = json.loads(so)
            except Exception as e:  # a crashed batch is reported as a difference for every case
                res = [["batch-failed: " + repr(e)[:80]]] * len(keys)
            for k, r in zip(keys, res):
                _SEED_CACHE.setdefault(k, {})[str(s)] = r
        try:
            tmp.unlink()
        except OSError:
            pass


def seed_outputs(case):
    seeds = case.get("seeds") or []
    if not seeds:
        return {}
    k = _key(case)
    if k not in _SEED_CACHE or any(str(s) not in _SEED_CACHE[k] for s in seeds):
        _collect()
    if k not in _SEED_CACHE or any(str(s) not in _SEED_CACHE[k] for s in seeds):
        _start_batches([case], seeds)
        _collect()
    return {str(s): _SEED_CACHE[k][str(s)] for s in seeds}


def _batch_main(path):
    cases = json.loads(Path(path).read_text())
    out = []
    for c in cases:
        try:
            _, rec = run_history(c, light=True)
            out.append([r["digest"] for r in rec])
        except Exception as e:
            out.append(["harness-exception: " + type(e).__name__])
    sys.stdout.write(json.dumps(out))


# ----------------------------------------------------------------------------- generator


def _gen_frame(rng, drop_z):
    n = rng.randint(4, 6)
    while True:
        x = [rng.randint(-4, 9) for _ in range(n)]
        z = [rng.randint(-3, 12) for _ in range(n)]
        if len(set(x)) > 1 and len(set(z)) > 1:
            break
    a = [None if rng.random() < 0.12 else rng.choice(LETTERS) for _ in range(n)]
    if all(t is None for t in a):
        a[0] = "u"
    y = [None if rng.random() < 0.12 else rng.randint(-5, 5) for _ in range(n)]
    fr = {"x": x, "z": z, "a": a, "y": y}
    if drop_z:
        del fr["z"]
    return fr


def _gen_cfg(rng, malformed):
    na = "drop"
    r = rng.random()
    if r < 0.12:
        na = "ignore"
    elif r < (0.3 if malformed else 0.06):
        na = "raise"
    return dict(efr=rng.random() < 0.7, na=na)


def _gen_upd(rng, malformed):
    u = {}
    r = rng.random()
    if r < 0.3:
        u["efr"] = rng.random() < 0.5
    elif r < 0.45:
        u["na"] = rng.choice(["drop", "ignore", "raise"] if malformed else ["drop", "ignore"])
    elif r < 0.65:
        u["clear"] = True
    elif r < 0.85:
        u["formula"] = rng.choice(SIMPLE)
        if not (malformed and rng.random() < 0.6):
            u["clear"] = True
    else:
        u["efr"] = rng.random() < 0.5
        u["clear"] = True
    return u


def _gen_ops(rng, malformed, nmax):
    ops = []
    n = rng.randint(3, nmax)
    for i in range(n):
        r = rng.random()
        if i == 0:
            r = rng.choice([0.05, 0.2])
        if r < 0.15:
            ops.append(dict(k="new", f=rng.choice(SIMPLE), via=rng.choice(["ctor", "from_spec"]), **_gen_cfg(rng, malformed)))
        elif r < 0.33:
            ops.append(dict(k="build", f=rng.choice(["F1", "F2", "F2r"]), via=rng.choice(["mm", "formula"]),
                            d=rng.randint(0, 5), **_gen_cfg(rng, malformed)))
        elif r < 0.73:
            k = rng.choice([1, 1, 1, 1, 2, 2, 3])
            hs = [rng.randint(0, 40) for _ in range(k)]
            if k > 1 and rng.random() < 0.25:
                hs[1] = hs[0]
            u = None
            if rng.random() < 0.25:
                u = {}
                if rng.random() < 0.6:
                    u["efr"] = rng.random() < 0.5
                else:
                    u["na"] = rng.choice(["drop", "ignore", "raise"] if malformed else ["drop", "ignore"])
            ops.append(dict(k="call", hs=hs, via=rng.choice(["spec", "spec", "mm", "matrix"]), u=u, d=rng.randint(0, 5)))
        elif r < 0.88:
            ops.append(dict(k="update", h=rng.randint(0, 40), u=_gen_upd(rng, malformed)))
        else:
            op = dict(k="subset", h=rng.randint(0, 40), pick=[rng.randint(0, 5) for _ in range(rng.randint(1, 3))])
            if malformed and rng.random() < 0.3:
                op["bogus"] = True
            ops.append(op)
    return ops


def _gen_case(rng, seeds, nmax=12):
    malformed = rng.random() < 0.25
    nf = rng.choice([2, 3, 3])
    frames = [_gen_frame(rng, drop_z=(j == 2 and rng.random() < 0.5)) for j in range(nf)]
    return dict(frames=frames, ops=_gen_ops(rng, malformed, nmax), seeds=seeds)


D16_WITNESS = dict(
    frames=[
        {"x": [1, 2, 3, 4], "z": [1, 2, 4, 7], "a": ["u", "v", "w", "u"], "y": [1, 2, 3, 4]},
        {"x": [10, 20, 30, 40], "z": [2, 3, 5, 9], "a": ["v", "w", "z", "z"], "y": [4, 3, 2, 1]},
    ],
    ops=[
        dict(k="new", f="F1", via="ctor", efr=True, na="drop"),
        dict(k="call", hs=[0], via="spec", u=None, d=0),
        dict(k="call", hs=[0], via="spec", u=None, d=1),
    ],
)


def cases(rng, tier):
    n = {"quick": 110, "thorough": 700, "search": 25}[tier]
    seeds = {"quick": [0, 1, 2, 3], "thorough": list(range(16)), "search": []}[tier]
    out = [dict(D16_WITNESS, seeds=seeds)]
    for _ in range(n):
        out.append(_gen_case(rng, seeds))
    if seeds:
        _start_batches(out, seeds)
    return out


# ----------------------------------------------------------------------------- interface


def describe(c):
    ks = [o["k"] for o in c["ops"]]
    return f"ops={len(ks)},calls={ks.count('call') + ks.count('build')},frames={len(c['frames'])}"


def nontrivial(c):
    ks = [o["k"] for o in c["ops"]]
    return ks.count("call") >= 2 or (ks.count("call") >= 1 and ("update" in ks or "subset" in ks))


def impl(c):
    w, rec = run_history(c)
    for i, r in enumerate(rec):
        r["fresh"] = fresh_output(c, rec, i) if r["op"]["k"] in ("build", "call") else None
    return dict(ops=rec, params=model_params(c))


def _model_op(op, F):
    k = op["k"]
    if k == "new":
        return dict(op="new", f=_terms(F[op["f"]]), efr=op["efr"], na=op["na"])
    if k == "update":
        u = {x: op["u"][x] for x in ("efr", "na", "clear") if x in op["u"]}
        if "formula" in op["u"]:
            u["formula"] = _terms(F[op["u"]["formula"]])
        return dict(op="update", h=op["h"], u=u)
    if k == "subset":
        from formulaic.formula import SimpleFormula

        try:
            terms = _terms(SimpleFormula.from_spec(op["terms"]))
        except Exception:
            terms = [[t] for t in op["terms"]]
        return dict(op="subset", h=op["h"], terms=terms)
    if k == "build":
        f = F[op["f"]]
        fs = [_terms(F["F2l"]), _terms(F["F2r"])] if op["f"] == "F2" else [_terms(f)]
        return dict(op="build", fs=fs, efr=op["efr"], na=op["na"], d=op["d"])
    u = op.get("u")
    return dict(op="call", hs=op["hs"], u=None if u is None else dict(u), d=op["d"])


def request(c, o):
    if "ops" not in o:
        return dict(ops=[])
    F = _formulas()
    r = dict(o["params"], ops=[_model_op(r["op"], F) for r in o["ops"]])
    # the outcome of `_enforce_structure` is a parameter of the model (a function of the part's record):
    # which operation raised FactorEncodingError after how many completed parts
    r["encfail"] = [[i, x["parts_done"]] for i, x in enumerate(o["ops"]) if "parts_done" in x]
    if os.environ.get("C18_MODEL_MODE"):  # diagnostic only: "share" = the model of the code before the D16 repair
        r["mode"] = os.environ["C18_MODEL_MODE"]
    return r


def _model_view(out):
    if "err" in out:
        return {"err": out["err"]}
    return {"parts": [dict(kept=p["kept"], terms=p["terms"]) for p in out["parts"]]}


def agree(c, o, m):
    if "driver_error" in m:
        return "driver: " + m["driver_error"][:300]
    if "ops" not in o:
        return None
    heap, pure = m.get("heap", []), m.get("pure", [])
    if len(heap) != len(o["ops"]):
        return f"model ran {len(heap)} ops, implementation {len(o['ops'])}"
    records = {}
    for i, (r, hm, pm) in enumerate(zip(o["ops"], heap, pure)):
        if r["out"] != _model_view(hm["out"]):
            return f"op {i} {r['op']}: implementation {r['out']} vs model {_model_view(hm['out'])}"
        if r["specs"] != hm["specs"]:
            for h, (a, b) in enumerate(zip(r["specs"], hm["specs"])):
                if a != b:
                    return f"after op {i} {r['op']}: spec #{h} implementation {a} vs model {b}"
            return f"after op {i}: implementation has {len(r['specs'])} specs, model {len(hm['specs'])}"
        if r["op"]["k"] in ("build", "call"):
            for what, rec_, dig in (("history", hm["out"], r["digest"]), ("fresh", pm, r["fresh"])):
                key = json.dumps(rec_, sort_keys=True)
                if key in records and records[key][0] != dig:
                    return (f"op {i} ({what}) and op {records[key][1]} ({records[key][2]}) have the same model record "
                            f"but different real outputs: the model's record does not determine the output")
                records.setdefault(key, (dig, i, what))
    return None


def oracle(c, o):
    if "harness_exception" in o:
        return None
    for i, r in enumerate(o["ops"]):
        if r["op"]["k"] in ("build", "call") and r["digest"] != r["fresh"]:
            return (f"op {i} {r['op']}: its output inside the history differs from the output of the same call on fresh "
                    f"objects (history {r['out']}, digest {r['digest']} vs fresh {r['fresh']})")
        if r.get("bad"):
            return f"op {i} {r['op']}: " + "; ".join(r["bad"])
    mine = [r["digest"] for r in o["ops"]]
    for s, ds in sorted(seed_outputs(c).items()):
        if ds != mine:
            j = next((t for t, (a, b) in enumerate(zip(ds, mine)) if a != b), min(len(ds), len(mine)))
            return f"PYTHONHASHSEED={s}: canonical output of op {j} differs from this process ({ds[j:j+1]} vs {mine[j:j+1]})"
    return None


def classify(c, o, why):
    return None


LEVEL_TEXT = (
    "Proof: Lean theorems (Props/C18.lean) about a store model of ModelSpec state (reference cells for transform_state / "
    "encoder_state, update() sharing, in-place writes of get_model_matrix steps 2-3) show, for ALL histories of "
    "new/update/subset/build/call operations and all numeric parameters, that every outcome equals the outcome under value "
    "semantics (a pure function of the named specs' values and the data), that no operation changes the replay behaviour of "
    "any earlier spec, that repeated calls agree, and that factor evaluation is independent of the iteration order of the "
    "factor set (hence of the hash seed).  Partial: CPython's real hash function / dict internals and float summation order "
    "are observed (subprocesses with 4/16 hash seeds, byte-identical canonical outputs), not modelled; immutability of the "
    "data frames and formulas is observed by hashing, not proved."
)
LEVEL_NOTE = (
    "Trusted: Lean kernel + propext/Quot.sound/Classical.choice; the hand model of model_spec.py / materializers/base.py "
    "state handling validated by correspondence (outcomes, dictionary identity classes and contents after every operation); "
    "numerics enter as parameters computed by isolated fresh evaluations."
)

if __name__ == "__main__":
    if len(sys.argv) == 3 and sys.argv[1] == "--batch":
        _batch_main(sys.argv[2])
