"""C18 - Materialization is pure and deterministic across calls, histories and hash seeds.

A case is a *history*: 2-3 data frames, a context of mutable objects (a knots list K, a levels list L) and up
to 12 operations over four shared formulas: `center(x) + C(a)`, the structured
`y ~ scale(z) + center(x):C(a) + I(center(x) * z)`, `center(`my col`) + scale(`my col`) + I(`my col` * x)`
(a non-identifier column name back-quoted inside several stateful Python factors) and
`bs(x, knots=K, extrapolation='clip') + C(a, levels=L) + poly(z, degree=2)` (transforms that take mutable objects
from the caller's context); every operation gets the same context objects:
  new     ModelSpec(formula=F, ...) / ModelSpec.from_spec(F, ...)        (un-materialised spec)
  update  spec.update(ensure_full_rank= / na_action= / structure=None / formula=)
  subset  spec.subset(terms)
  build   model_matrix(F, data, ...) / F.get_model_matrix(data, ...)
  call    spec.get_model_matrix(data, **overrides) / model_matrix(spec | matrix, data, **overrides) /
          ModelSpecs(p0=spec, p1=spec').get_model_matrix(data, **overrides) on specs obtained earlier
Spec handles are numbered in the order in which the real code hands them out.

Correspondence stream `c18` (real code vs `Model.Heap.trace`): after every operation the outcome
(exception class, or kept rows and materialised terms per part) and the whole store are compared:
for every spec handle its formula/configuration/structure terms, the identity classes of its
`transform_state` / `encoder_state` dictionaries (Python `is` vs reference equality in the model) and
their contents (fitted-state tokens, level codes).  The numeric parameters of the model (fitted state
per call node and frame, null rows, failing factors, level codes) are computed by isolated fresh
evaluations of the real transforms and forwarded in the request.  In addition every symbolic `Part`
record the model produces (for the history and for the value semantics) must determine the real
output: equal records with different real matrices are a disagreement.

Oracle (implementation only): (1) every call's output -- the matrices AND the keys/values of the
transform_state / encoder_state of the specs that come with them -- equals the output of the same call
on fresh objects (fresh formulas, frames and context objects, the spec re-derived through its own
ancestry only); (2) frames (hash of values, dtypes, labels), the shared formulas' terms, the context
objects (type and contents) and the state of numpy's global random stream are unchanged by every
operation; (3) the replay output of previously obtained specs (on deep copies) is unchanged by every
operation; (4) the canonical outputs of the whole history (values, column order, kept rows) are
byte-identical in subprocesses with PYTHONHASHSEED in {0,1,2,3} (thorough: 16 seeds).
"""
from __future__ import annotations

import copy
import hashlib
import json
import os
import subprocess
import sys
import warnings
from pathlib import Path

PROPERTY = "C18"
ENGINE = "c18"
REQUIRED_THEOREMS = [
    "history_independent",
    "call_is_pure",
    "inputs_unchanged",
    "repeat_identical",
    "order_independent",
    "call_order_independent",
    "shared_prepare_not_history_independent",
]
TRUSTED = [
    "modelled, not verified: CPython's hash function and dict/set internals (the model proves independence of the "
    "iteration order of the factor set; the real seeds are observed in subprocesses), numpy summation order, float rounding",
    "parameters of the model (checked per case by fresh isolated evaluations of the real transforms): fitted state of a "
    "stateful call node as a function of (node, data); null rows and failure of a factor as functions of (factor, data); "
    "encoder state (levels) as a function of (factor, data, kept rows)",
    "the data frames and formula objects are immutable in the model; that the real ones are not mutated is observed by "
    "hashing them around every operation (oracle), not proved",
    "the materializer's factor_cache / encoded_cache / encoder_state_cache are per call in the model (the code resets them at "
    "the start of every get_model_matrix, and every modelled entry point creates its own materializer anyway)",
]
ASSUMPTIONS = [
    "inner state dictionaries (state[name], encoder_state[expr][1]) are written only while a key is absent "
    "(scale/center/poly/bs/encode_contrasts), so they are immutable values once stored in a spec",
    "stateful calls are not nested inside one another within a factor (the state a node fits depends on the data only)",
    "rank reduction (which scoped factors a term is encoded with) is a function of (term, formula, ensure_full_rank, "
    "data): it enters the model as the parameter `scopedOf`, tabulated per case from fresh builds (it is the subject of C03)",
    "whether `_enforce_structure` raises FactorEncodingError is a function of the part's record (parameter `encodingFails`; "
    "the harness reports after how many completed parts an operation raised it and the engine tabulates the record)",
    "when several factors fail in step 1 for different reasons, WHICH exception class escapes (FactorEvaluationError vs "
    "ValueError for nulls under na_action='raise') depends on the iteration order of the factor set, i.e. on the hash seed "
    "(observed); the property text does not cover the exception class, both are one observable 'EvaluationError' here",
    "encoders do not raise",
    "the null rows of an evaluated factor do not depend on the fitted state it is evaluated with (the generator keeps "
    "poly/bs away from degenerate data where a fresh fit gives NaN but a reused one does not)",
]
RULE = (
    "random histories (<= 12 ops) over 2-3 of 4 shared formulas (center/scale/C(), one structured, one with a back-quoted "
    "non-identifier column in several stateful factors, one with bs/C/poly taking lists from the caller's context), 2-3 "
    "frames (nulls in a/y, third frame may lack z), three fixed witnesses (D16, back-quote, context) first; interleaving new/update/subset/build/call via every entry point incl. joint ModelSpecs calls "
    "and attribute overrides; malformed stream: formula swaps that keep a structure (KeyError), subsets of un-materialised "
    "specs / unknown terms, inconsistent joint specs, na_action='raise' with nulls, missing columns; "
    "non-trivial = some spec is materialised at least twice on different frames or reused after an update; distinct by canonical JSON"
)

ROOT = Path(__file__).resolve().parent.parent.parent
FSTR = {
    "F1": "center(x) + C(a)",
    "F2": "y ~ scale(z) + center(x):C(a) + I(center(x) * z)",
    # a column whose name is not an identifier, back-quoted inside several Python factors (two of them stateful):
    # every factor must sanitise the name in its OWN scratch layer of the evaluation environment
    "F3": "center(`my col`) + scale(`my col`) + I(`my col` * x)",
    # transforms that take mutable objects (lists) from the caller's context
    "F4": "bs(x, knots=K, extrapolation='clip') + C(a, levels=L) + poly(z, degree=2)",
}
SIMPLE = ["F1", "F2l", "F2r", "F3", "F4"]
CTX = {"K": [1.5, 3.5], "L": ["u", "v", "w", "z"]}
LETTERS = ["u", "v", "w", "z"]
MAX_PROBED = 8


# ----------------------------------------------------------------------------- real objects


def _frames(case):
    import numpy
    import pandas

    out = []
    for fr in case["frames"]:
        cols = {}
        for k, v in fr.items():
            if k == "a":
                cols[k] = list(v)
            else:
                cols[k] = [numpy.nan if t is None else float(t) for t in v]
        out.append(pandas.DataFrame(cols))
    return out


def _formulas():
    from formulaic import Formula

    f1 = Formula(FSTR["F1"])
    f2 = Formula(FSTR["F2"])
    return {"F1": f1, "F2": f2, "F2l": f2.lhs, "F2r": f2.rhs, "F3": Formula(FSTR["F3"]), "F4": Formula(FSTR["F4"])}


def _context(case):
    """fresh context objects (the caller's scope): mutable lists referred to by name from the formulas"""
    c = case.get("ctx") or CTX
    return {"K": [float(t) for t in c["K"]], "L": [str(t) for t in c["L"]]}


def _ctx_repr(ctx):
    return repr(sorted((k, type(v).__name__, repr(list(v))) for k, v in ctx.items()))


def _rng_state():
    import numpy

    st = numpy.random.get_state()
    return _digest([st[0], [int(t) for t in st[1]], int(st[2]), int(st[3]), float(st[4])])


def _terms(formula):
    """model-level formula: list of terms, a term = list of non-literal factor expressions"""
    return [[f.expr for f in t.factors if f.eval_method.value != "literal"] for t in formula]


def _kwargs(u):
    kw = {}
    if u is None:
        return kw
    if "efr" in u:
        kw["ensure_full_rank"] = u["efr"]
    if "na" in u:
        kw["na_action"] = u["na"]
    if u.get("clear"):
        kw["structure"] = None
    return kw


def _hexf(v):
    v = float(v)
    return "nan" if v != v else v.hex()


def _canon_matrix(mm):
    import numpy

    arr = numpy.asarray(mm, dtype=float)
    return dict(
        cols=[str(c) for c in mm.columns],
        index=[int(i) for i in mm.index],
        vals=[[_hexf(v) for v in row] for row in arr],
    )


def _canon_state(spec):
    e = {}
    for k, v in spec.encoder_state.items():
        cats = v[1].get("categories") if isinstance(v[1], dict) else None
        e[str(k)] = None if cats is None else [str(c) for c in cats]
    return dict(t=sorted((str(k), _tok(v)) for k, v in spec.transform_state.items()), e=sorted(e.items()))


def _parts_of(res):
    """list of ModelMatrix in part order"""
    from formulaic.utils.structured import Structured

    if isinstance(res, Structured):
        return list(res._flatten())
    return [res]


def _tok(v):
    import numpy

    if isinstance(v, dict):
        return "{" + ",".join(f"{k}:{_tok(v[k])}" for k in sorted(v, key=str)) + "}"
    if v is None:
        return "None"
    a = numpy.asarray(v)
    if a.dtype == object:
        return repr(v)
    if a.ndim == 0:
        return repr(float(a))
    return "[" + ",".join(repr(float(t)) for t in a.ravel()) + "]"


class World:
    """the real objects of one history"""

    def __init__(self, case):
        self.frames = _frames(case)
        self.F = _formulas()
        self.ctx = _context(case)  # shared by every operation of the history, like variables of the calling scope
        self.H = []  # spec handles, in the order they were handed out
        self.M = []  # the matrix a handle came with (or None)
        self.origin = []  # how each handle was obtained: (op index, part index)

    # -- resolution of the symbolic references of a case against the current number of handles
    def resolve(self, op):
        n = len(self.H)
        k = op["k"]
        r = dict(op)
        if k in ("update", "subset"):
            if n == 0:
                return None
            r["h"] = op["h"] % n
        if k == "subset":
            spec = self.H[r["h"]]
            terms = [str(t) for t in spec.formula]
            pick = [terms[i % len(terms)] for i in op["pick"]] if terms else []
            pick = list(dict.fromkeys(pick))
            if op.get("bogus"):
                pick.append("x")
            r["terms"] = pick
            r.pop("pick", None)
        if k == "call":
            if n == 0:
                return None
            r["hs"] = [h % n for h in op["hs"]]
            if r.get("via") == "matrix" and (len(r["hs"]) != 1 or self.M[r["hs"][0]] is None):
                r["via"] = "mm"
        if k in ("build", "call"):
            r["d"] = op["d"] % len(self.frames)
        return r

    def execute(self, op, i):
        """run one resolved op on the real code; returns (outcome dict, canonical output or None)"""
        from formulaic import ModelSpec, ModelSpecs, model_matrix

        from formulaic.materializers.base import FormulaMaterializer

        k = op["k"]
        orig = FormulaMaterializer._build_model_matrix
        done = [0]

        def counting(self_, *a, **kw_):  # run-time wrapper (no hook in the source): parts completed so far
            r_ = orig(self_, *a, **kw_)
            done[0] += 1
            return r_

        FormulaMaterializer._build_model_matrix = counting
        try:
            if k == "new":
                f = self.F[op["f"]]
                if op.get("via") == "from_spec":
                    s = ModelSpec.from_spec(f, ensure_full_rank=op["efr"], na_action=op["na"])
                else:
                    s = ModelSpec(formula=f, ensure_full_rank=op["efr"], na_action=op["na"])
                self._publish([s], [None], i)
                return {"parts": []}, None
            if k == "update":
                kw = _kwargs(op["u"])
                if "formula" in op["u"]:
                    kw["formula"] = self.F[op["u"]["formula"]]
                s = self.H[op["h"]].update(**kw)
                self._publish([s], [None], i)
                return {"parts": []}, None
            if k == "subset":
                s = self.H[op["h"]].subset(op["terms"])
                self._publish([s], [None], i)
                return {"parts": []}, None
            data = self.frames[op["d"]]
            if k == "build":
                f = self.F[op["f"]]
                if op.get("via") == "formula":
                    res = f.get_model_matrix(data, context=self.ctx, ensure_full_rank=op["efr"], na_action=op["na"])
                else:
                    res = model_matrix(f, data, context=self.ctx, ensure_full_rank=op["efr"], na_action=op["na"])
            else:
                kw = _kwargs(op.get("u"))
                hs = [self.H[h] for h in op["hs"]]
                via = op.get("via", "spec")
                kw["context"] = self.ctx
                if len(hs) == 1 and via == "spec":
                    res = hs[0].get_model_matrix(data, **kw)
                elif len(hs) == 1 and via == "matrix":
                    res = model_matrix(self.M[op["hs"][0]], data, **kw)
                elif len(hs) == 1:
                    res = model_matrix(hs[0], data, **kw)
                else:
                    joint = ModelSpecs(**{f"p{j}": s for j, s in enumerate(hs)})
                    if via == "spec":
                        res = joint.get_model_matrix(data, **kw)
                    else:
                        res = model_matrix(joint, data, **kw)
            mats = _parts_of(res)
            self._publish([m.model_spec for m in mats], mats, i)
            # the result of a call = the matrix AND the spec that comes with it (keys and values of its fitted state)
            canon = [dict(_canon_matrix(m), state=_canon_state(m.model_spec)) for m in mats]
            parts = [
                dict(
                    kept=[int(t) for t in m.index],
                    terms=_terms([s.term for s in m.model_spec.structure]),
                )
                for m in mats
            ]
            return {"parts": parts}, canon
        except Exception as e:  # the class is the observable
            self.parts_done = done[0]
            name = type(e).__name__
            if k in ("build", "call") and name in ("FactorEvaluationError", "ValueError"):
                # Step 1 raises on the FIRST failing factor of `factors: set[Factor]`: when one factor cannot be
                # evaluated and another has nulls under na_action='raise', WHICH of the two exceptions escapes
                # depends on the set's iteration order (observed: PYTHONHASHSEED=0/1 ValueError, 2..5
                # FactorEvaluationError).  The property speaks about results (values, column order, dropped rows),
                # not about the class of the exception, so both are one observable here (as in order_independent).
                name = "EvaluationError"
            return {"err": name}, {"err": name}
        finally:
            FormulaMaterializer._build_model_matrix = orig

    def _publish(self, specs, mats, i):
        for j, (s, m) in enumerate(zip(specs, mats)):
            self.H.append(s)
            self.M.append(m)
            self.origin.append((i, j))

    def summary(self):
        """the store as seen from the handles"""
        tids, eids, out = [], [], []
        for s in self.H:
            if id(s.transform_state) not in tids:
                tids.append(id(s.transform_state))
            if id(s.encoder_state) not in eids:
                eids.append(id(s.encoder_state))
            e = {}
            for k, v in s.encoder_state.items():
                cats = v[1].get("categories") if isinstance(v[1], dict) else None
                e[str(k)] = [LETTERS.index(c) for c in cats] if cats is not None else []
            out.append(
                dict(
                    formula=_terms(s.formula),
                    efr=bool(s.ensure_full_rank),
                    na=s.na_action.value,
                    struct=None if s.structure is None else _terms([t.term for t in s.structure]),
                    tc=tids.index(id(s.transform_state)),
                    ec=eids.index(id(s.encoder_state)),
                    t={str(k): _tok(v) for k, v in s.transform_state.items()},
                    e=e,
                )
            )
        return out


def _digest(x):
    return hashlib.sha256(json.dumps(x, sort_keys=True).encode()).hexdigest()[:16]


def _mdigest(canon):
    """digest of the matrices alone (without the state of the specs that come with them)"""
    if canon is None:
        return None
    if isinstance(canon, dict):
        return _digest(canon)
    return _digest([{k: v for k, v in c.items() if k != "state"} for c in canon])


def _frame_hash(df):
    import pandas

    h = hashlib.sha256()
    h.update(pandas.util.hash_pandas_object(df, index=True).values.tobytes())
    h.update(repr([(str(c), str(t)) for c, t in df.dtypes.items()]).encode())
    h.update(repr(list(df.index)).encode())
    return h.hexdigest()[:16]


def _formula_repr(F):
    return {k: repr([[(f.expr, f.eval_method.value, f.kind.value) for f in t.factors] for t in v])
            for k, v in F.items() if k != "F2"}


def _probe(spec, frame, ctx):
    """replay behaviour of a spec, observed on deep copies (so that observing cannot disturb)"""
    try:
        return _digest([_canon_matrix(m) for m in _parts_of(
            copy.deepcopy(spec).get_model_matrix(frame.copy(), context=copy.deepcopy(ctx)))])
    except Exception as e:
        return "err:" + type(e).__name__


def run_history(case, light=False):
    """Run the history on the real code.  light=True: outputs only (used in the hash-seed batches)."""
    import numpy

    warnings.simplefilter("ignore")
    numpy.random.seed(180018)  # the global stream is an observable: no operation may consume it
    w = World(case)
    rec = []
    probes = {}
    for i, op0 in enumerate(case["ops"]):
        op = w.resolve(op0)
        if op is None:
            continue
        n_before = len(w.H)
        if not light:
            fh = [_frame_hash(f) for f in w.frames]
            fr = _formula_repr(w.F)
            cx = _ctx_repr(w.ctx)
            rs = _rng_state()
        out, canon = w.execute(op, len(rec))
        entry = dict(op=op, out=out, digest=None if canon is None else _digest(canon), mdigest=_mdigest(canon))
        if out.get("err") == "FactorEncodingError":
            entry["parts_done"] = w.parts_done
        if not light:
            bad = []
            if fh != [_frame_hash(f) for f in w.frames]:
                bad.append("an input data frame was mutated")
            if fr != _formula_repr(w.F):
                bad.append("a shared formula was mutated")
            if cx != _ctx_repr(w.ctx):
                bad.append(f"an object of the caller's context was mutated: {cx} -> {_ctx_repr(w.ctx)}")
            if rs != _rng_state():
                bad.append("the operation consumed numpy's global random stream")
            # replay behaviour of the specs obtained before this op, on a frame other than the op's
            pf = (op.get("d", i) + 1) % len(w.frames)
            idx = list(range(n_before))
            if len(idx) > MAX_PROBED:
                idx = idx[: MAX_PROBED // 2] + idx[-MAX_PROBED // 2:]
            for h in idx:
                p = _probe(w.H[h], w.frames[pf], w.ctx)
                if (h, pf) in probes and probes[(h, pf)] != p:
                    bad.append(f"replay of spec #{h} on frame {pf} changed ({probes[(h, pf)]} -> {p})")
                probes[(h, pf)] = p
            for h in range(n_before, len(w.H)):
                probes[(h, pf)] = _probe(w.H[h], w.frames[pf], w.ctx)
            entry["bad"] = bad
            entry["specs"] = w.summary()
        rec.append(entry)
    if rec and not light:
        # module-level parser state (DEFAULT_PARSER / DEFAULT_NESTED_PARSER): parsing the same strings again after the
        # history must give the same terms as before it
        if _formula_repr(_formulas()) != _formula_repr(w.F):
            rec[-1]["bad"].append("re-parsing the formulas after the history gives different terms")
    return w, rec


# ----------------------------------------------------------------------------- fresh replay


def fresh_output(case, rec, i):
    """the output of executed op i on fresh objects: fresh formulas and frames; the specs it names are
    re-derived through their own ancestry only"""
    w = World(case)
    ops = [r["op"] for r in rec]
    # origin of handle h in the original run
    origin = []
    for j, r in enumerate(rec):
        k = r["op"]["k"]
        if "err" in r["out"]:
            continue
        n = len(r["out"]["parts"]) if k in ("build", "call") else 1
        origin += [(j, p) for p in range(n)]
    memo = {}  # op index -> list of fresh specs/matrices it handed out

    def handed(j):
        if j not in memo:
            memo[j] = run(j)[2]
        return memo[j]

    def spec_of(h):
        j, p = origin[h]
        return handed(j)[p]

    def run(j):
        op = dict(ops[j])
        fresh = World.__new__(World)
        fresh.frames, fresh.F, fresh.ctx, fresh.H, fresh.M, fresh.origin = w.frames, w.F, w.ctx, [], [], []
        if op["k"] in ("update", "subset"):
            s, m = spec_of(op["h"])
            fresh.H, fresh.M = [s], [m]
            op["h"] = 0
        elif op["k"] == "call":
            pairs = [spec_of(h) for h in op["hs"]]
            uniq = []
            for pr in pairs:
                if not any(pr[0] is q[0] for q in uniq):
                    uniq.append(pr)
            fresh.H, fresh.M = [q[0] for q in uniq], [q[1] for q in uniq]
            op["hs"] = [next(t for t, q in enumerate(uniq) if q[0] is pr[0]) for pr in pairs]
        n0 = len(fresh.H)
        out, canon = fresh.execute(op, j)
        return out, canon, list(zip(fresh.H[n0:], fresh.M[n0:]))

    out, canon, _ = run(i)
    return (None, None) if canon is None else (_digest(canon), _mdigest(canon))


# ----------------------------------------------------------------------------- parameters of the model


def _used_formulas(case):
    names = []
    for op in case["ops"]:
        for n in (op.get("f"), (op.get("u") or {}).get("formula")):
            for m in (["F2l", "F2r"] if n == "F2" else [n]):
                if m is not None and m not in names:
                    names.append(m)
    return names


def model_params(case, handles=()):
    """fresh isolated evaluations of the real transforms: the numeric parameters of the model"""
    from formulaic import ModelSpec, model_matrix
    from formulaic.transforms import TRANSFORMS
    from formulaic.utils.layered_mapping import LayeredMapping
    from formulaic.utils.null_handling import find_nulls
    from formulaic.utils.stateful_transforms import stateful_eval

    warnings.simplefilter("ignore")
    F = _formulas()
    used = _used_formulas(case)
    factors, method = [], {}
    for k in used:
        for t in F[k]:
            for fa in t.factors:
                if fa.eval_method.value != "literal" and fa.expr not in factors:
                    factors.append(fa.expr)
                    method[fa.expr] = fa.eval_method.value
    frames = _frames(case)
    nodes = {f: [] for f in factors}
    fit, fails, nulls, levels, fixedenc = {}, {f: {} for f in factors}, {f: {} for f in factors}, {}, {}
    for d, df in enumerate(frames):
        for f in factors:
            st = {}
            env = LayeredMapping({c: df[c].copy() for c in df.columns}, _context(case), TRANSFORMS)
            try:
                val = env[f] if method[f] == "lookup" else stateful_eval(f, env, None, st, None)
                bad = False
            except Exception:
                val, bad = None, True
            for n in st:
                if n not in nodes[f]:
                    nodes[f].append(n)
                if not bad:
                    fit.setdefault(n, {})[str(d)] = _tok(st[n])
            fails[f][str(d)] = bad
            if bad:
                nulls[f][str(d)] = []
                continue
            nulls[f][str(d)] = sorted(int(t) for t in find_nulls(val))
            meta = getattr(val, "__formulaic_metadata__", None)
            if meta is not None and meta.kind.value == "categorical":
                raw = getattr(val, "__wrapped__", val)
                levels.setdefault(f, {})[str(d)] = [
                    None if (t is None or t != t) else LETTERS.index(t) for t in list(raw)
                ]
                if meta.encoder is not None and f not in fixedenc:
                    # levels that do not come from the data (C(a, levels=L)): still there when every row is dropped
                    try:
                        est = {}
                        meta.encoder(val, reduced_rank=False, drop_rows=list(range(len(df))), encoder_state=est,
                                     model_spec=ModelSpec(formula=[], output="pandas"))
                        if est.get("categories"):
                            fixedenc[f] = [LETTERS.index(c) for c in est["categories"]]
                    except Exception:
                        pass
    # rank reduction as a parameter: the scoped factors of every term of every formula that a spec of the history
    # carries (the shared formulas, and restrictions of them made by subset()), per frame
    F = dict(F)
    seen = {json.dumps(_terms(F[k])) for k in used}
    for s_ in handles:
        key = json.dumps(_terms(s_.formula))
        if key not in seen:
            seen.add(key)
            F[key] = s_.formula
            used = used + [key]
    scoped = []
    for d, df in enumerate(frames):
        for k in used:
            for efr in (True, False):
                st = None
                for na in ("drop", "ignore"):
                    try:
                        st = model_matrix(F[k], df.copy(), context=_context(case), ensure_full_rank=efr,
                                          na_action=na).model_spec.structure
                        break
                    except Exception:
                        continue
                for s in st or []:
                    scoped.append(dict(
                        term=_terms([s.term])[0], origin=_terms(F[k]), efr=efr, d=d,
                        factors=[[sf.factor.expr, bool(sf.reduced)] for t in s.scoped_terms for sf in t.factors],
                    ))
    return dict(
        nodes=nodes, fit=fit, fails=fails, nulls=nulls, levels=levels, fixedenc=fixedenc, scoped=scoped,
        nrows={str(d): len(df) for d, df in enumerate(frames)},
    )


# ----------------------------------------------------------------------------- hash-seed batches

_SEED_CACHE: dict[str, dict] = {}
_PENDING: list = []


def _key(case):
    return json.dumps(case, sort_keys=True, separators=(",", ":"))


def _start_batches(cases, seeds):
    """one subprocess per seed, each running every case (startup is the expensive part)"""
    if not cases or not seeds:
        return
    tmp = ROOT / "lean" / ".lake" / f"c18_batch_{os.getpid()}_{len(_PENDING)}.json"
    tmp.parent.mkdir(parents=True, exist_ok=True)
    tmp.write_text(json.dumps(cases))
    procs = []
    for s in seeds:
        env = dict(os.environ, PYTHONHASHSEED=str(s))
        p = subprocess.Popen(
            [sys.executable, "-W", "ignore", "-m", "harness.props.c18", "--batch", str(tmp)],
            cwd=str(ROOT), env=env, stdout=subprocess.PIPE, stderr=subprocess.PIPE, text=True,
        )
        procs.append((s, p))
    _PENDING.append((tmp, [_key(c) for c in cases], procs))


def _collect():
    while _PENDING:
        tmp, keys, procs = _PENDING.pop()
        for s, p in procs:
            try:
                so, se = p.communicate(timeout=1800)
                res = json.loads(so)
            except Exception as e:  # a crashed batch is reported as a difference for every case
                res = [["batch-failed: " + repr(e)[:80]]] * len(keys)
            for k, r in zip(keys, res):
                _SEED_CACHE.setdefault(k, {})[str(s)] = r
        try:
            tmp.unlink()
        except OSError:
            pass


def seed_outputs(case):
    seeds = case.get("seeds") or []
    if not seeds:
        return {}
    k = _key(case)
    if k not in _SEED_CACHE or any(str(s) not in _SEED_CACHE[k] for s in seeds):
        _collect()
    if k not in _SEED_CACHE or any(str(s) not in _SEED_CACHE[k] for s in seeds):
        _start_batches([case], seeds)
        _collect()
    return {str(s): _SEED_CACHE[k][str(s)] for s in seeds}


def _batch_main(path):
    cases = json.loads(Path(path).read_text())
    out = []
    for c in cases:
        try:
            _, rec = run_history(c, light=True)
            out.append([r["digest"] for r in rec])
        except Exception as e:
            out.append(["harness-exception: " + type(e).__name__])
    sys.stdout.write(json.dumps(out))


# ----------------------------------------------------------------------------- generator


def _gen_frame(rng, drop_z):
    n = rng.randint(4, 6)
    while True:
        x = [rng.randint(-4, 9) for _ in range(n)]
        z = [rng.randint(-3, 12) for _ in range(n)]
        if len(set(x)) > 1 and len(set(z)) > 2:  # poly(z, 2) needs three distinct values to be finite
            break
    x[0], x[1] = -rng.randint(1, 4), rng.randint(5, 9)  # the range of x covers the context knots K
    a = [None if rng.random() < 0.12 else rng.choice(LETTERS) for _ in range(n)]
    if all(t is None for t in a):
        a[0] = "u"
    y = [None if rng.random() < 0.12 else rng.randint(-5, 5) for _ in range(n)]
    q = [rng.randint(1, 30) for _ in range(n)]
    if len(set(q)) == 1:
        q[0] += 1
    fr = {"x": x, "z": z, "a": a, "y": y, "my col": q}
    if drop_z:
        del fr["z"]
    return fr


def _gen_cfg(rng, malformed):
    na = "drop"
    r = rng.random()
    if r < 0.12:
        na = "ignore"
    elif r < (0.3 if malformed else 0.06):
        na = "raise"
    return dict(efr=rng.random() < 0.7, na=na)


def _gen_upd(rng, malformed, simple=SIMPLE):
    u = {}
    r = rng.random()
    if r < 0.3:
        u["efr"] = rng.random() < 0.5
    elif r < 0.45:
        u["na"] = rng.choice(["drop", "ignore", "raise"] if malformed else ["drop", "ignore"])
    elif r < 0.65:
        u["clear"] = True
    elif r < 0.85:
        u["formula"] = rng.choice(simple)
        if not (malformed and rng.random() < 0.6):
            u["clear"] = True
    else:
        u["efr"] = rng.random() < 0.5
        u["clear"] = True
    return u


def _gen_ops(rng, malformed, nmax):
    ops = []
    # each history works with 2-3 of the four formulas
    fams = rng.sample(["F1", "F2", "F3", "F4"], rng.choice([2, 2, 3]))
    simple = [m for f in fams for m in (["F2l", "F2r"] if f == "F2" else [f])]
    buildable = [m for f in fams for m in (["F2", "F2r"] if f == "F2" else [f])]
    n = rng.randint(3, nmax)
    for i in range(n):
        r = rng.random()
        if i == 0:
            r = rng.choice([0.05, 0.2])
        if r < 0.15:
            ops.append(dict(k="new", f=rng.choice(simple), via=rng.choice(["ctor", "from_spec"]), **_gen_cfg(rng, malformed)))
        elif r < 0.33:
            ops.append(dict(k="build", f=rng.choice(buildable), via=rng.choice(["mm", "formula"]),
                            d=rng.randint(0, 5), **_gen_cfg(rng, malformed)))
        elif r < 0.73:
            k = rng.choice([1, 1, 1, 1, 2, 2, 3])
            hs = [rng.randint(0, 40) for _ in range(k)]
            if k > 1 and rng.random() < 0.25:
                hs[1] = hs[0]
            u = None
            if rng.random() < 0.25:
                u = {}
                if rng.random() < 0.6:
                    u["efr"] = rng.random() < 0.5
                else:
                    u["na"] = rng.choice(["drop", "ignore", "raise"] if malformed else ["drop", "ignore"])
            ops.append(dict(k="call", hs=hs, via=rng.choice(["spec", "spec", "mm", "matrix"]), u=u, d=rng.randint(0, 5)))
        elif r < 0.88:
            ops.append(dict(k="update", h=rng.randint(0, 40), u=_gen_upd(rng, malformed, simple)))
        else:
            op = dict(k="subset", h=rng.randint(0, 40), pick=[rng.randint(0, 5) for _ in range(rng.randint(1, 3))])
            if malformed and rng.random() < 0.3:
                op["bogus"] = True
            ops.append(op)
    return ops


def _gen_case(rng, seeds, nmax=12):
    malformed = rng.random() < 0.25
    nf = rng.choice([2, 3, 3])
    frames = [_gen_frame(rng, drop_z=(j == 2 and rng.random() < 0.5)) for j in range(nf)]
    ctx = dict(K=sorted(rng.sample([0.5, 1.5, 2.5, 3.5, 4.5], 2)), L=list(LETTERS))
    return dict(frames=frames, ctx=ctx, ops=_gen_ops(rng, malformed, nmax), seeds=seeds)


D16_WITNESS = dict(
    frames=[
        {"x": [1, 2, 3, 4], "z": [1, 2, 4, 7], "a": ["u", "v", "w", "u"], "y": [1, 2, 3, 4]},
        {"x": [10, 20, 30, 40], "z": [2, 3, 5, 9], "a": ["v", "w", "z", "z"], "y": [4, 3, 2, 1]},
    ],
    ops=[
        dict(k="new", f="F1", via="ctor", efr=True, na="drop"),
        dict(k="call", hs=[0], via="spec", u=None, d=0),
        dict(k="call", hs=[0], via="spec", u=None, d=1),
    ],
)


_WFRAMES = [
    {"x": [-2, 6, 1, 3, 4], "z": [1, 2, 4, 7, 9], "a": ["u", "v", "w", "u", "z"], "y": [1, 2, 3, 4, 5],
     "my col": [1, 2, 4, 9, 11]},
    {"x": [-1, 8, 2, 5], "z": [2, 3, 5, 9], "a": ["v", "w", "z", "z"], "y": [4, 3, 2, 1], "my col": [10, 20, 40, 45]},
]
# train / train again / predict with both fitted specs, back-quoted non-identifier column in several stateful factors
BACKQUOTE_WITNESS = dict(
    frames=_WFRAMES, ctx=CTX,
    ops=[
        dict(k="build", f="F3", via="mm", d=0, efr=True, na="drop"),
        dict(k="build", f="F3", via="formula", d=0, efr=True, na="drop"),
        dict(k="call", hs=[0], via="spec", u=None, d=1),
        dict(k="call", hs=[1], via="mm", u=None, d=1),
    ],
)
# the same build three times with mutable context objects (knots list, levels list), interleaved with a reuse
CONTEXT_WITNESS = dict(
    frames=_WFRAMES, ctx=CTX,
    ops=[
        dict(k="build", f="F4", via="mm", d=0, efr=True, na="drop"),
        dict(k="build", f="F4", via="formula", d=0, efr=True, na="drop"),
        dict(k="call", hs=[0], via="spec", u=None, d=1),
        dict(k="build", f="F4", via="mm", d=0, efr=True, na="drop"),
    ],
)


def cases(rng, tier):
    n = {"quick": 110, "thorough": 700, "search": 25}[tier]
    seeds = {"quick": [0, 1, 2, 3], "thorough": list(range(16)), "search": []}[tier]
    out = [dict(D16_WITNESS, seeds=seeds), dict(BACKQUOTE_WITNESS, seeds=seeds), dict(CONTEXT_WITNESS, seeds=seeds)]
    for _ in range(n):
        out.append(_gen_case(rng, seeds))
    if seeds:
        _start_batches(out, seeds)
    return out


# ----------------------------------------------------------------------------- interface


def describe(c):
    ks = [o["k"] for o in c["ops"]]
    return f"ops={len(ks)},calls={ks.count('call') + ks.count('build')},frames={len(c['frames'])}"


def nontrivial(c):
    ks = [o["k"] for o in c["ops"]]
    return ks.count("call") >= 2 or (ks.count("call") >= 1 and ("update" in ks or "subset" in ks))


def impl(c):
    w, rec = run_history(c)
    for i, r in enumerate(rec):
        r["fresh"], r["fresh_m"] = fresh_output(c, rec, i) if r["op"]["k"] in ("build", "call") else (None, None)
    return dict(ops=rec, params=model_params(c, w.H))


def _model_op(op, F):
    k = op["k"]
    if k == "new":
        return dict(op="new", f=_terms(F[op["f"]]), efr=op["efr"], na=op["na"])
    if k == "update":
        u = {x: op["u"][x] for x in ("efr", "na", "clear") if x in op["u"]}
        if "formula" in op["u"]:
            u["formula"] = _terms(F[op["u"]["formula"]])
        return dict(op="update", h=op["h"], u=u)
    if k == "subset":
        from formulaic.formula import SimpleFormula

        try:
            terms = _terms(SimpleFormula.from_spec(op["terms"]))
        except Exception:
            terms = [[t] for t in op["terms"]]
        return dict(op="subset", h=op["h"], terms=terms)
    if k == "build":
        f = F[op["f"]]
        fs = [_terms(F["F2l"]), _terms(F["F2r"])] if op["f"] == "F2" else [_terms(f)]
        return dict(op="build", fs=fs, efr=op["efr"], na=op["na"], d=op["d"])
    u = op.get("u")
    return dict(op="call", hs=op["hs"], u=None if u is None else dict(u), d=op["d"])


def request(c, o):
    if "ops" not in o:
        return dict(ops=[])
    F = _formulas()
    r = dict(o["params"], ops=[_model_op(r["op"], F) for r in o["ops"]])
    # the outcome of `_enforce_structure` is a parameter of the model (a function of the part's record):
    # which operation raised FactorEncodingError after how many completed parts
    r["encfail"] = [[i, x["parts_done"]] for i, x in enumerate(o["ops"]) if "parts_done" in x]
    if os.environ.get("C18_MODEL_MODE"):  # diagnostic only: "share" = the model of the code before the D16 repair
        r["mode"] = os.environ["C18_MODEL_MODE"]
    return r


def _model_view(out):
    if "err" in out:
        return {"err": out["err"]}
    return {"parts": [dict(kept=p["kept"], terms=p["terms"]) for p in out["parts"]]}


def agree(c, o, m):
    if "driver_error" in m:
        return "driver: " + m["driver_error"][:300]
    if "ops" not in o:
        return None
    heap, pure = m.get("heap", []), m.get("pure", [])
    if len(heap) != len(o["ops"]):
        return f"model ran {len(heap)} ops, implementation {len(o['ops'])}"
    records = {}
    for i, (r, hm, pm) in enumerate(zip(o["ops"], heap, pure)):
        if r["out"] != _model_view(hm["out"]):
            return f"op {i} {r['op']}: implementation {r['out']} vs model {_model_view(hm['out'])}"
        if r["specs"] != hm["specs"]:
            for h, (a, b) in enumerate(zip(r["specs"], hm["specs"])):
                if a != b:
                    return f"after op {i} {r['op']}: spec #{h} implementation {a} vs model {b}"
            return f"after op {i}: implementation has {len(r['specs'])} specs, model {len(hm['specs'])}"
        if r["op"]["k"] in ("build", "call"):
            for what, rec_, dig in (("history", hm["out"], r["mdigest"]), ("fresh", pm, r["fresh_m"])):
                key = json.dumps(rec_, sort_keys=True)
                if key in records and records[key][0] != dig:
                    return (f"op {i} ({what}) and op {records[key][1]} ({records[key][2]}) have the same model record "
                            f"but different real outputs: the model's record does not determine the output")
                records.setdefault(key, (dig, i, what))
    return None


def oracle(c, o):
    if "harness_exception" in o:
        return None
    for i, r in enumerate(o["ops"]):
        msgs = []
        if r["op"]["k"] in ("build", "call") and r["digest"] != r["fresh"]:
            what = ("the matrices differ" if r.get("mdigest") != r.get("fresh_m")
                    else "the matrices agree but the fitted state (transform_state / encoder_state keys or values) of the returned spec differs")
            msgs.append(f"its output inside the history differs from the output of the same call on fresh objects: {what} "
                        f"(history {r['out']}, digest {r['digest']} vs fresh {r['fresh']})")
        msgs += r.get("bad") or []
        if msgs:
            return f"op {i} {r['op']}: " + "; ".join(msgs)
    mine = [r["digest"] for r in o["ops"]]
    for s, ds in sorted(seed_outputs(c).items()):
        if ds != mine:
            j = next((t for t, (a, b) in enumerate(zip(ds, mine)) if a != b), min(len(ds), len(mine)))
            return f"PYTHONHASHSEED={s}: canonical output of op {j} differs from this process ({ds[j:j+1]} vs {mine[j:j+1]})"
    return None


def classify(c, o, why):
    return None


LEVEL_TEXT = (
    "Proof: Lean theorems (Props/C18.lean) about a store model of ModelSpec state (reference cells for transform_state / "
    "encoder_state, update() sharing, in-place writes of get_model_matrix steps 2-3) show, for ALL histories of "
    "new/update/subset/build/call operations and all numeric parameters, that every outcome equals the outcome under value "
    "semantics (a pure function of the named specs' values and the data), that no operation changes the replay behaviour of "
    "any earlier spec, that repeated calls agree, and that factor evaluation is independent of the iteration order of the "
    "factor set (hence of the hash seed).  Partial: CPython's real hash function / dict internals and float summation order "
    "are observed (subprocesses with 4/16 hash seeds, byte-identical canonical outputs), not modelled; immutability of the "
    "data frames and formulas is observed by hashing, not proved."
)
LEVEL_NOTE = (
    "Trusted: Lean kernel + propext/Quot.sound/Classical.choice; the hand model of model_spec.py / materializers/base.py "
    "state handling validated by correspondence (outcomes, dictionary identity classes and contents after every operation); "
    "numerics enter as parameters computed by isolated fresh evaluations."
)

if __name__ == "__main__":
    if len(sys.argv) == 3 and sys.argv[1] == "--batch":
        _batch_main(sys.argv[2])
