"""C10 — Model-spec metadata indexes the generated columns truthfully.

Correspondence stream (engine `c10`, model `Model/SpecMeta.lean`):

* `meta`   a real materialisation (`materializer.get_model_matrix(...)`); the harness forwards the
           recorded `model_spec.structure` (per row: the term's factor expressions in the term's own
           order, the variable names of every scoped factor, the recorded column names) and
           `list(model_spec.formula)`. The variable names of a scoped factor are NOT taken from the code's
           own records (`EvaluatedFactor.variables`) but read by the harness from the factor's source text
           (`source_uses`: Python's `ast`, every Name in Load context, dotted chains kept whole; the code's
           records are forwarded only for a factor this reader cannot decide). The model recomputes `column_names`, the labels the matrix
           carries, `column_indices`, `term_indices`, `term_slices`, `term_variables`,
           `variable_terms`, `variable_indices` and the outcome of every probe: lookups by Term
           object (own factor order and reversed), by printed form, by sorted form, by column name,
           by junk strings, `get_slice`, `get_column_indices`, `get_variable_indices`,
           `get_term_indices([...])` and `subset([...])` (incl. foreign terms -> error class).
* `split`  `Term.FACTOR_MATCHER.finditer` on adversarial strings against `Model.SpecMeta.matchFactors`.

Oracle (implementation only, no model): every clause of the property is evaluated directly on the
implementation's own objects: labels of the matrix vs `column_names`; the values of `term_indices`
concatenated in dict order are `0..ncols-1`, each is the block of its structure row, `term_slices`
select the same; lookups by object / printed form / column name return exactly the block computed
by walking the structure; `variable_indices[v]` is exactly the set of columns owned by terms one of
whose factors uses `v`, judged twice: according to `materializer.factor_cache[expr].variables` (the code's
own per-factor record: consistency of the derived maps) and according to `source_uses` (the harness's own
reading of the factor's source text, for every name that resolves in the data, the user context or the
transforms namespace: a variable passed positionally, by keyword, through `*`/`**`, inside a nested
call, subscript or conditional is used by the term);
`spec.subset(ts).get_model_matrix(data)` has exactly the parent's columns (names and values) of
those terms, in the order of the subset's formula, on the original data and on a second data set.
"""
from __future__ import annotations

import ast
import re
import types

import numpy
import pandas

PROPERTY = "C10"
ENGINE = "c10"
REQUIRED_THEOREMS = [
    "names_eq_labels",
    "term_ranges_partition",
    "blocks_partition",
    "lookup_by_term",
    "lookup_by_term_any_order",
    "lookup_by_printed_form",
    "lookup_by_column_name",
    "variable_indices_exact",
    "subset_regenerates",
]
TRUSTED = [
    "modelled, not verified: CPython dict/set semantics (insertion order, hash-then-eq probing) and `re` (the model of "
    "Term.FACTOR_MATCHER is compared with the real regular expression on every run, stream `split`)",
    "`hash(str)` is modelled as injective on strings (a 64-bit hash collision between two different strings is outside the model)",
    "parameters of the model: the recorded `structure` itself (which columns a term generates is C02/C03), the parse of a "
    "`terms_spec` into a term list (C01) and the per-factor variable sets; these are read by the harness from each factor's "
    "source text with Python's `ast` (`source_uses`: lookup factor = its name, Python factor = every Name in Load context "
    "with its longest dotted chain, back-quoted names restored) and NOT from formulaic's own extraction, so `ast.parse` and "
    "that 40-line reader are trusted; for a factor the reader cannot decide (names bound inside the expression, back-quotes "
    "next to triple-quoted strings) the code's own record is forwarded and the oracle judges nothing; the values regenerated for one structure "
    "row (`gen` in `Model.SpecMeta.replay`) — that a replayed row reproduces the original values is C04 and is checked here "
    "only by the oracle on the real code",
    "pandas/numpy/scipy/narwhals assembly of the matrix is modelled as positional (`list`) or name-keyed (`dict`) assembly",
]
ASSUMPTIONS = [
    "term_ranges_partition, lookup_*, variable_indices_exact, subset_regenerates assume that no two rows of the structure hold "
    "equal terms (a dict keyed by Term cannot hold both); formulas with a repeated term are reachable only through "
    "Formula.differentiate or an explicit term list and are reported as finding C10-F1",
    "lookup_by_printed_form assumes factor expressions without backticks/newlines (FACTOR_MATCHER cannot split others) and "
    "pairwise different printed forms",
    "names_eq_labels for name-keyed assembly (narwhals frames) holds iff the column names are pairwise different (finding C10-F2)",
]
RULE = (
    "meta: frames of 6-9 rows with categorical A,B (1-3 levels, so that rank reduction yields zero-column terms), numeric a,b,x "
    "and adversarial columns named `A[T.b]`, `Intercept`, `a:b`, `A[b]`; formulas of 1-5 terms over names, C(), contrasts, "
    "poly(x,3), bs(x,df=4), center/scale, I(), {}, np.log, a[:] (an expression containing ':'), numeric literal scalings incl. 0.0, "
    "interactions up to degree 3 with factors in random (non-alphabetical) order, intercept on/off; or a derivative formula "
    "(Formula.differentiate); or an explicit term list with repeated / permuted terms; every materialisation has a user "
    "context (scalars lo,hi,deg,k, flags rw,on, a function mix(u,w,s), a namespace ns with ns.f/ns.lo, a dict kw, a tuple pair, "
    "level lists lvA/lvB, a contrasts object cs) and with probability 0.1 per factor (0.6 in a dedicated stream of 60 cases) a "
    "factor is a generated Python call: mix/ns.f/np.clip/np.where/scale/poly/bs/C/hashed whose arguments (data columns incl. "
    "back-quoted ones, context scalars, expressions `a + lo`, `[a][0]`, `dict(q=a)['q']`, `a[::-1]`, `(a if deg else x)`, "
    "nested calls to depth 2) are each passed positionally or BY KEYWORD at random (keyword order shuffled), or through "
    "`*pair` / `**kw`, optionally wrapped in I()/center()/{}/np.abs(); x ensure_full_rank x output in "
    "pandas/numpy/sparse x materializer pandas/narwhals x cluster_by. split: strings over {a,b,:,`,newline,[,]}. "
    "non-trivial = the structure has an interaction whose factors are not sorted, or a zero-column term, or a multi-column "
    "term, or a call with a keyword argument; distinct by canonical JSON"
)

FACTOR_MATCHER = re.compile(r"(?:^|(?<=:))(`?)(?P<factor>[^`]+?)\1(?=:|$)")

# ----------------------------------------------------------------------------- generators

NUM_ATOMS = ["a", "b", "x", "a", "b", "I(a+b)", "center(a)", "scale(b)", "np.log(x)", "a[:]", "poly(x,3)",
             "bs(x, df=4)", "{a*2}", "poly(x,2)"]
CAT_ATOMS = ["A", "B", "A", "B", "C(A)", "C(B)", "C(A, contr.sum)", "C(B, contr.helmert)", "C(A, contr.treatment)",
             "C(B, contr.sum)"]
ADVERSARIAL = {"A[T.b]": "`A[T.b]`", "Intercept": "Intercept", "a:b": "`a:b`", "A[b]": "`A[b]`", "b:a": "`b:a`"}
JUNK = ["zz", "", ":", "`", "a::b", "A:", ":A", "`a:b`", "a:b", "b:a", "`a`", "`a`:`b`", "1", "0", "Intercept",
        "A[T.b]", "a\n", "a:b\n", "``", "`a:b`:x", "x:`a:b`", "B:A", "A:B", "a[:]", "`a[:]`"]


def gen_data(rng):
    nrows = rng.randint(6, 9)
    cat = {}
    for name, pool in (("A", ["a", "b", "c"]), ("B", ["x", "y", "z"])):
        k = rng.choice([1, 2, 2, 3, 3])
        codes = [i % k for i in range(nrows)]
        rng.shuffle(codes)
        cat[name] = {"levels": pool[:k], "codes": codes}
    num = {
        "a": [rng.randint(-4, 6) for _ in range(nrows)],
        "b": [rng.randint(-4, 6) for _ in range(nrows)],
        "x": rng.sample(range(1, 17), nrows),
    }
    for name in ADVERSARIAL:
        if rng.random() < 0.35:
            num[name] = [rng.randint(1, 9) for _ in range(nrows)]
    return {"nrows": nrows, "cat": cat, "num": num}


def second_data(rng, data):
    n = data["nrows"]
    cat = {}
    for k, c in data["cat"].items():
        codes = [rng.randrange(len(c["levels"])) for _ in range(n)]
        cat[k] = {"levels": c["levels"], "codes": codes}
    num = {}
    for k, v in data["num"].items():
        if k == "x":
            num[k] = list(v)
            rng.shuffle(num[k])
        else:
            num[k] = [rng.randint(-4, 6) for _ in range(n)]
    return {"nrows": n, "cat": cat, "num": num}


def make_frame(data):
    cols = {}
    for k, c in data["cat"].items():
        cols[k] = pandas.Categorical([c["levels"][i] for i in c["codes"]], categories=c["levels"])
    for k, v in data["num"].items():
        cols[k] = numpy.array(v, dtype=float)
    return pandas.DataFrame(cols)


# ---- Python-call factors whose arguments are passed positionally, by keyword, through `*`/`**`, nested in other calls,
# subscripts, conditionals ...; the names they read are data columns, values of the user context (`make_context`) and
# callables of the user context / the transforms namespace.

SCALARS = ["lo", "hi", "ns.lo", "2.0", "lo + 1", "-hi"]


def gen_arr(rng, data, depth):
    """source text of a numeric vector argument"""
    base = rng.choice(["a", "b", "x"])
    qn = [ADVERSARIAL[k] for k in data["num"] if k in ADVERSARIAL and ADVERSARIAL[k].startswith("`")]
    r = rng.random()
    if qn and r < 0.12:
        return rng.choice(qn)
    if depth < 2 and r < (0.25, 0.12)[depth]:
        return gen_call(rng, data, depth + 1, numeric=True)
    if r < 0.50:
        return rng.choice([f"{base} + lo", f"{base}[::-1]", f"[{base}][0]", f"dict(q={base})['q']",
                           f"({base} if deg else x)", f"-{base}", f"{base} * ns.lo"])
    return base


def render_call(rng, fname, params, first_positional=False, extra=(), max_positional=99):
    """params: [(name, source)] in signature order; every argument is passed positionally or by keyword at random (once
    one is passed by keyword all later ones are; keyword arguments are then shuffled)"""
    pos, kws, pos_ok = [], [], True
    for i, (name, src) in enumerate(params):
        if pos_ok and i < max_positional and ((first_positional and i == 0) or rng.random() < 0.4):
            pos.append(src)
        else:
            pos_ok = False
            kws.append(f"{name}={src}")
    rng.shuffle(kws)
    return f"{fname}({', '.join(pos + kws + list(extra))})"


def gen_call(rng, data, depth=0, numeric=False):
    sc = lambda: rng.choice(SCALARS)
    arr = lambda: gen_arr(rng, data, depth)
    arr_or_sc = lambda: arr() if rng.random() < 0.5 else sc()
    kinds = ["mix", "mix", "mix", "ns.f", "np.clip", "np.where", "star", "dstar", "scale"]
    if not numeric:
        kinds += ["poly", "bs", "C", "C", "hashed"]
    kind = rng.choice(kinds)
    if kind == "mix":
        ps = [("u", arr())]
        if rng.random() < 0.8:
            ps.append(("w", arr_or_sc()))
        if rng.random() < 0.6:
            ps.append(("s", arr_or_sc()))
        out = render_call(rng, "mix", ps)
    elif kind == "ns.f":
        out = render_call(rng, "ns.f", [("u", arr()), ("w", arr_or_sc())])
    elif kind == "np.clip":
        out = render_call(rng, "np.clip", [("a", arr()), ("a_min", sc()), ("a_max", arr_or_sc())], first_positional=True)
    elif kind == "np.where":
        out = f"np.where({arr()} > {sc()}, {arr()}, {arr_or_sc()})"
    elif kind == "star":
        out = rng.choice(["mix(*pair)", "mix(*pair, s={})".format(arr_or_sc())])
    elif kind == "dstar":
        out = render_call(rng, "mix", [("u", arr())] + ([("s", arr_or_sc())] if rng.random() < 0.5 else []), extra=["**kw"],
                          max_positional=1)
    elif kind == "scale":
        # the argument is never a nested call: a call may return a constant vector, whose scaling is 0/0 = null, and
        # rows with nulls are dropped from the parent but not from a subset without that term (null handling is C06)
        ps = [("data", gen_arr(rng, data, 2)), ("center", rng.choice(["rw", "on"]))]
        if rng.random() < 0.5:
            ps.append(("scale", rng.choice(["rw", "on"])))
        out = render_call(rng, "scale", ps, first_positional=True)
    elif kind == "poly":
        ps = [("x", rng.choice(["x", "x", "x + lo"])), ("degree", rng.choice(["deg", "deg", "2", "deg + 1"]))]
        if rng.random() < 0.4:
            ps.append(("raw", rng.choice(["rw", "on"])))
        out = render_call(rng, "poly", ps, first_positional=True)
    elif kind == "bs":
        ps = [("x", "x"), ("df", rng.choice(["k", "k", "k + 1"]))]
        if rng.random() < 0.3:
            ps.append(("degree", "deg"))
        out = render_call(rng, "bs", ps, first_positional=True, max_positional=2)
    elif kind == "C":
        cat = rng.choice(["A", "B"])
        ps = [("data", cat)]
        if rng.random() < 0.6:
            ps.append(("contrasts", rng.choice(["contr.sum", "contr.treatment", "contr.helmert",
                                               f"contr.treatment(base=lv{cat}[0])", "cs"])))
        extra = [f"levels=lv{cat}"] if rng.random() < 0.6 else []
        out = render_call(rng, "C", ps, first_positional=True, extra=extra)
    else:
        out = render_call(rng, "hashed", [("data", rng.choice(["A", "B"])), ("levels", rng.choice(["k", "k - 1"]))],
                          first_positional=True)
    if depth == 0 and kind not in ("poly", "bs", "C", "hashed") and rng.random() < 0.25:
        out = rng.choice(["I({})", "center({})", "{{{}}}", "np.abs({})"]).format(out)
    return out


def gen_ctx(rng):
    return {"lo": rng.choice([-1.0, 0.5, 2.0]), "hi": rng.choice([7.0, 9.0]), "deg": rng.choice([2, 3]),
            "k": rng.choice([4, 5])}


def make_context(c):
    """the user context of a case: scalars from the case, plus fixed helpers"""
    from formulaic.transforms.contrasts import SumContrasts

    g = c["ctx"]
    data = c["data"]
    return {
        "lo": g["lo"], "hi": g["hi"], "deg": g["deg"], "k": g["k"], "rw": False, "on": True,
        "mix": lambda u, w=1.0, s=0.0: u * w + s,
        "ns": types.SimpleNamespace(lo=1.5, f=lambda u, w=1.0: u * w),
        "kw": {"w": 2.0},
        "pair": (numpy.array(data["num"]["a"], dtype=float), 3.0),
        "lvA": list(data["cat"]["A"]["levels"]),
        "lvB": list(data["cat"]["B"]["levels"]),
        "cs": SumContrasts(),
    }


def gen_atom(rng, data, p_call=0.0):
    adv = [ADVERSARIAL[k] for k in data["num"] if k in ADVERSARIAL]
    if rng.random() < p_call:
        return gen_call(rng, data)
    r = rng.random()
    if adv and r < 0.25:
        return rng.choice(adv)
    if r < 0.6:
        return rng.choice(CAT_ATOMS)
    return rng.choice(NUM_ATOMS)


def gen_term(rng, data, p_call=0.0):
    k = rng.choice([1, 1, 2, 2, 2, 3])
    atoms = []
    wide = lambda t: t.startswith(("poly(", "bs(", "hashed("))
    for _ in range(k):
        a = gen_atom(rng, data, p_call)
        if p_call and wide(a) and any(wide(t) for t in atoms):
            a = gen_call(rng, data, numeric=True)  # one many-column call per term keeps the column count (and the run time) small
        if a not in atoms:
            atoms.append(a)
    if rng.random() < 0.15:
        atoms.insert(rng.randrange(len(atoms) + 1), rng.choice(["2", "0.5", "0.0", "3"]))
    return atoms


def gen_formula(rng, data, p_call=0.0):
    terms, seen = [], set()
    for _ in range(rng.randint(1, 5)):
        atoms = gen_term(rng, data, p_call)
        key = frozenset(a for a in atoms if not a[0].isdigit())
        if key in seen:
            continue
        seen.add(key)
        terms.append(":".join(atoms))
    icpt = rng.choice(["", "", "", "0 + ", "1 + ", "-1 + "])
    return icpt + " + ".join(terms)


def gen_meta_case(rng, tier, p_call=0.1):
    data = gen_data(rng)
    r = rng.random()
    if r < 0.72:
        build = {"formula": gen_formula(rng, data, p_call)}
    elif r < 0.86:
        vs = ["a", "b", "x"]
        terms, seen = [], set()
        for _ in range(rng.randint(1, 5)):
            fs = rng.sample(vs, rng.choice([1, 1, 2, 2, 3]))
            if frozenset(fs) in seen:
                continue
            seen.add(frozenset(fs))
            terms.append(":".join(fs))
        build = {"diff": {"formula": rng.choice(["", "0 + "]) + " + ".join(terms),
                          "wrt": [rng.choice(vs + ["zz"]) for _ in range(rng.choice([1, 1, 2]))]}}
    else:
        terms = []
        for _ in range(rng.randint(1, 4)):
            t = gen_term(rng, data, p_call)
            terms.append(":".join(t))
            if rng.random() < 0.35:
                terms.append(":".join(t if rng.random() < 0.5 else t[::-1]))
        rng.shuffle(terms)
        build = {"terms": terms}
    nsub = rng.randint(1, 3)
    subsets = []
    for _ in range(nsub):
        k = rng.randint(0, 4)
        subsets.append({
            "idx": [rng.randrange(12) for _ in range(k)],
            "rev": rng.random() < 0.4,
            "foreign": rng.random() < 0.12,
            "dup": rng.random() < 0.1,
        })
    return dict(
        kind="meta",
        data=data,
        data2=second_data(rng, data),
        ctx=gen_ctx(rng),
        build=build,
        efr=rng.random() < 0.7,
        output=rng.choice(["pandas", "pandas", "numpy", "sparse"]),
        mat=rng.choice(["pandas", "pandas", "pandas", "narwhals"]),
        cluster=rng.random() < 0.2,
        junk=rng.sample(JUNK, 4),
        subsets=subsets,
    )


def gen_split_case(rng):
    if rng.random() < 0.3:
        parts = [rng.choice(["a", "b", "x1", "`a:b`", "C(A)", "a[:]", "`a[:]`", "", "a`", "`", "a\n", "\n"])
                 for _ in range(rng.randint(1, 4))]
        s = ":".join(parts)
    else:
        s = "".join(rng.choice("ab:`\n[]:`") for _ in range(rng.randint(0, 9)))
    return dict(kind="split", s=s)


def cases(rng, tier):
    n = {"quick": 140, "thorough": 1500, "search": 60}[tier]
    for i in range(n):
        yield gen_meta_case(rng, tier)
    # call stream: most factors are Python calls taking data columns / context values positionally, by keyword, via * and **
    for i in range({"quick": 60, "thorough": 700, "search": 40}[tier]):
        yield gen_meta_case(rng, tier, p_call=0.6)
    for i in range({"quick": 300, "thorough": 4000, "search": 0}[tier]):
        yield gen_split_case(rng)
    # malformed stream: a formula that names a column that does not exist
    for i in range({"quick": 3, "thorough": 20, "search": 0}[tier]):
        c = gen_meta_case(rng, tier)
        c["build"] = {"formula": "a + nosuchcolumn:A"}
        yield c


def describe(c):
    if c["kind"] == "split":
        return "split"
    b = c["build"]
    how = "formula" if "formula" in b else ("diff" if "diff" in b else "terms")
    text = b.get("formula") or " + ".join(b.get("terms", []))
    if "=" in text or "*" in text:
        how += "+kwcall"
    return f"meta:{how}:{c['mat']}:{c['output']}"


def nontrivial(c):
    if c["kind"] != "meta":
        return False
    b = c["build"]
    text = b.get("formula") or (b.get("diff") or {}).get("formula") or " + ".join(b.get("terms", []))
    for t in text.split(" + "):
        fs = t.split(":")
        if len(fs) > 1 and fs != sorted(fs):
            return True
    return any(k in text for k in ("poly", "bs(", "contr.", "C(", "="))


# ----------------------------------------------------------------------------- implementation side


def _exprs(term):
    return [f.expr for f in term.factors]


def _mk_term(exprs):
    from formulaic.parser.types import Factor, Term

    return Term([Factor(e) for e in exprs])


def _res(fn):
    try:
        return {"ok": fn()}
    except Exception as e:  # the class is the observable
        return {"err": type(e).__name__}


def _slice(s):
    return [s.start, s.stop]


def _dense(mm):
    if hasattr(mm, "toarray"):
        a = mm.toarray()
    elif hasattr(mm, "to_numpy"):
        a = mm.to_numpy()
    else:
        a = numpy.asarray(mm)
    a = numpy.asarray(a, dtype=float)
    return [[float(v) for v in a[:, j]] for j in range(a.shape[1])]


def _labels(mm, output):
    if output in ("numpy", "sparse"):
        return None
    return [str(c) for c in mm.columns]


def _ncols(mm):
    return int(mm.shape[1])


_BACKQUOTED = re.compile(r"""("(?:\\.|[^"\\])*"|'(?:\\.|[^'\\])*')|`([^`]*)`""")
_BINDERS = (ast.Lambda, ast.ListComp, ast.SetComp, ast.DictComp, ast.GeneratorExp, ast.NamedExpr)


def source_uses(expr, method):
    """The names a factor reads, derived from its SOURCE TEXT alone with Python's `ast` (independent of
    formulaic.utils.variables): a factor looked up by name reads that name; a literal reads nothing; in a Python factor
    every `Name` in Load context is read, wherever it stands (positional or keyword argument, `*`/`**` argument,
    subscript, operand, nested call ...), and it is reported under the library's naming convention for variables: the
    longest `name.attr.attr` chain it heads (`np.log`, `ns.lo`); a back-quoted name (outside string literals) stands
    for itself. Returns a sorted list, or None when this reader cannot decide (names bound inside the expression,
    back-quotes next to triple-quoted strings or heading an attribute chain, unparsable text) -- then nothing is
    demanded for that factor."""
    if method == "literal":
        return []
    if method == "lookup":
        return [expr]
    if "`" in expr and ('"""' in expr or "'''" in expr):
        return None
    quoted = {}

    def sub(m):
        if m.group(1) is not None:  # a string literal stays as it is
            return m.group(1)
        key = f"_fvq{len(quoted)}_"
        quoted[key] = m.group(2)
        return f" {key} "

    src = _BACKQUOTED.sub(sub, expr).strip()
    if any(k in expr for k in quoted):
        return None
    try:
        tree = ast.parse(src, mode="eval")
    except SyntaxError:
        return None
    if any(isinstance(n, _BINDERS) for n in ast.walk(tree)):
        return None
    found, undecided = set(), []

    def chain(node):
        if isinstance(node, ast.Name):
            return node.id
        if isinstance(node, ast.Attribute):
            base = chain(node.value)
            return None if base is None else base + "." + node.attr
        return None

    def visit(node):
        if isinstance(node, ast.Attribute):
            name = chain(node)
            if name is not None:
                if name.split(".")[0] in quoted:
                    undecided.append(name)
                found.add(name)
                return
        elif isinstance(node, ast.Name):
            if not isinstance(node.ctx, ast.Load):
                undecided.append(node.id)
            found.add(quoted.get(node.id, node.id))
            return
        for child in ast.iter_child_nodes(node):
            visit(child)

    visit(tree)
    return None if undecided else sorted(found)


def _transform_names():
    from formulaic.transforms import TRANSFORMS

    return list(TRANSFORMS)


def impl(c):
    if c["kind"] == "split":
        return {"factors": [m.group("factor") for m in __import__("formulaic").parser.types.Term.FACTOR_MATCHER.finditer(c["s"])]}
    from formulaic import Formula
    from formulaic.materializers import FormulaMaterializer

    df = make_frame(c["data"])
    df2 = make_frame(c["data2"])
    b = c["build"]
    try:
        if "formula" in b:
            formula = Formula(b["formula"])
        elif "diff" in b:
            formula = Formula(b["diff"]["formula"]).differentiate(*b["diff"]["wrt"])
        else:
            formula = Formula(list(b["terms"]))
        ctx = make_context(c) if "ctx" in c else {}
        m = FormulaMaterializer.for_materializer(c["mat"])(df, context=ctx)
        mm = m.get_model_matrix(
            formula, ensure_full_rank=c["efr"], output=c["output"],
            cluster_by="numerical_factors" if c["cluster"] else "none",
        )
    except Exception as e:
        return {"error": type(e).__name__}
    spec = mm.model_spec
    out = {}
    out["structure"] = [
        dict(
            term=_exprs(s.term),
            svars=[[sorted(str(v) for v in (sf.factor.variables or ())) for sf in st.factors] for st in s.scoped_terms],
            sexprs=[[sf.factor.expr for sf in st.factors] for st in s.scoped_terms],
            columns=[str(x) for x in s.columns],
        )
        for s in spec.structure
    ]
    out["formula"] = [_exprs(t) for t in spec.formula]
    out["printed"] = [repr(s.term) for s in spec.structure]
    out["labels"] = _labels(mm, c["output"])
    out["ncols"] = _ncols(mm)
    out["values"] = _dense(mm)
    out["fvars"] = {
        f.expr: sorted(str(v) for v in ((m.factor_cache[f.expr].variables if f.expr in m.factor_cache else None) or ()))
        for s in spec.structure for f in s.term.factors
    }
    # the harness's own reading of each factor's source text (not formulaic's variable extraction)
    out["uses"] = {
        f.expr: source_uses(f.expr, f.eval_method.value) for s in spec.structure for f in s.term.factors
    }
    out["scope"] = sorted(set(df.columns) | set(ctx) | set(_transform_names()))
    out["column_names"] = list(spec.column_names)
    out["column_indices"] = [[k, v] for k, v in spec.column_indices.items()]
    out["term_indices"] = [[_exprs(k), list(v)] for k, v in spec.term_indices.items()]
    out["term_slices"] = [[_exprs(k), _slice(v)] for k, v in spec.term_slices.items()]
    out["term_variables"] = [[_exprs(k), sorted(str(x) for x in v)] for k, v in spec.term_variables.items()]
    out["variable_terms"] = sorted(
        [str(k), sorted(":".join(t._factor_key) for t in v)] for k, v in spec.variable_terms.items()
    )
    vi = _res(lambda: sorted([str(k), list(v)] for k, v in spec.variable_indices.items()))
    out["variable_indices"] = vi["ok"] if "ok" in vi else {"error": vi["err"]}

    # ---- probes
    probes = []
    terms = [s.term for s in spec.structure]
    for t in terms:
        ex = _exprs(t)
        probes.append({"k": "term", "t": ex})
        if len(ex) > 1:
            probes.append({"k": "term", "t": ex[::-1]})
        probes.append({"k": "str", "s": repr(t)})
        probes.append({"k": "str", "s": ":".join(sorted(ex))})
        if len(ex) > 1:
            probes.append({"k": "str", "s": ":".join(ex[::-1])})
    probes.append({"k": "term", "t": ["zz"]})
    for n in dict.fromkeys(spec.column_names):
        probes.append({"k": "str", "s": n})
    for s in c["junk"]:
        probes.append({"k": "str", "s": s})
    for v in sorted(set(x for vs in out["fvars"].values() for x in vs)
                    | set(x for vs in out["uses"].values() for x in (vs or ())) | {"zz"}):
        probes.append({"k": "var", "s": v})
    specs = []
    for sb in c["subsets"]:
        if not terms:
            chosen = []
        else:
            chosen = [terms[i % len(terms)] for i in sb["idx"]]
            if not sb["dup"]:
                chosen = list(dict.fromkeys(chosen))
        from formulaic.parser.types import Term as _Term

        tl = [_Term(list(t.factors)[::-1] if sb["rev"] else list(t.factors)) for t in chosen]
        if sb["foreign"]:
            tl.append(_mk_term(["zz"]))
        specs.append(tl)
    outs = []
    for p in probes:
        if p["k"] == "term":
            t = _mk_term(p["t"])
            outs.append(dict(
                ti=_res(lambda: list(spec.term_indices[t])),
                ts=_res(lambda: _slice(spec.term_slices[t])),
                gs=_res(lambda: _slice(spec.get_slice(t))),
            ))
            outs[-1]["in"] = t in spec.term_indices
        elif p["k"] == "str":
            s = p["s"]
            outs.append(dict(
                ti=_res(lambda: list(spec.term_indices[s])),
                ts=_res(lambda: _slice(spec.term_slices[s])),
                gs=_res(lambda: _slice(spec.get_slice(s))),
                ci=_res(lambda: spec.column_indices[s]),
                gci=_res(lambda: list(spec.get_column_indices(s))),
            ))
            outs[-1]["in"] = s in spec.term_indices
        elif p["k"] == "var":
            v = p["s"]
            outs.append(dict(
                vi=_res(lambda: list(spec.variable_indices[v])),
                gvi=_res(lambda: list(spec.get_variable_indices([v]))),
            ))
    from formulaic.formula import SimpleFormula

    subs = []
    for tl in specs:
        parsed = [_exprs(t) for t in SimpleFormula.from_spec(list(tl))]
        probes.append({"k": "tidx", "terms": parsed})
        outs.append(_res(lambda: list(spec.get_term_indices(list(tl)))))
        probes.append({"k": "subset", "terms": parsed})
        try:
            sub = spec.subset(list(tl))
        except Exception as e:
            outs.append({"err": type(e).__name__})
            subs.append(None)
            continue
        outs.append({"ok": dict(
            rows=[dict(term=_exprs(s.term), columns=list(s.columns)) for s in sub.structure],
            names=list(sub.column_names),
        )})
        rec = dict(formula=[_exprs(t) for t in sub.formula])
        try:
            m2 = sub.get_model_matrix(df, context=ctx)
            rec.update(labels=_labels(m2, c["output"]), ncols=_ncols(m2), values=_dense(m2))
            p3 = spec.get_model_matrix(df2, context=ctx)
            m3 = sub.get_model_matrix(df2, context=ctx)
            rec.update(parent2=_dense(p3), values2=_dense(m3))
        except Exception as e:
            rec["mat_error"] = type(e).__name__ + ": " + str(e)[:120]
        subs.append(rec)
    out["probes"] = probes
    out["probe_out"] = outs
    out["subs"] = subs
    return out


def request(c, o):
    if c["kind"] == "split":
        return dict(op="split", s=c["s"])
    if "error" in o or "harness_exception" in o:
        return dict(op="meta", structure=[], formula=[], probes=[], materializer=c["mat"], output=c["output"])
    uses = o.get("uses", {})
    structure = []
    for r in o["structure"]:
        r = dict(r)
        sx = r.pop("sexprs", None)
        if sx is not None and all(uses.get(e) is not None for st in sx for e in st):
            r["svars"] = [[list(uses[e]) for e in st] for st in sx]
        structure.append(r)
    return dict(
        op="meta",
        structure=structure,
        formula=o["formula"],
        probes=o["probes"],
        materializer=c["mat"],
        output=c["output"],
    )


COMPARED = ["column_names", "column_indices", "term_indices", "term_slices", "term_variables", "variable_terms",
            "variable_indices"]


def agree(c, o, m):
    why = _agree(c, o, m)
    if isinstance(o, dict):
        o["_corr"] = why  # a known finding must not hide a model/implementation disagreement (see classify)
    return why


def _agree(c, o, m):
    if isinstance(m, dict) and "driver_error" in m:
        return "driver: " + m["driver_error"][:300]
    if c["kind"] == "split":
        return None if o.get("factors") == m.get("factors") else f"FACTOR_MATCHER {o.get('factors')} vs model {m.get('factors')}"
    if "error" in o:
        return None
    for k in COMPARED:
        if o[k] != m.get(k):
            return f"{k}: impl {o[k]} vs model {m.get(k)}"
    if o["labels"] is not None:
        if o["labels"] != m["labels"]:
            return f"labels: impl {o['labels']} vs model {m['labels']}"
    elif o["ncols"] != len(m["labels"]):
        return f"number of matrix columns: impl {o['ncols']} vs model {len(m['labels'])}"
    if len(o["probe_out"]) != len(m["probes"]):
        return "probe count differs"
    for p, a, b in zip(o["probes"], o["probe_out"], m["probes"]):
        if a != b:
            return f"probe {p}: impl {a} vs model {b}"
    return None


# ----------------------------------------------------------------------------- oracle


def _key(ex):
    return tuple(sorted(ex))


def _blocks(o):
    """walk the structure: [(term exprs, start, stop)]"""
    out, start = [], 0
    for r in o["structure"]:
        out.append((r["term"], start, start + len(r["columns"])))
        start += len(r["columns"])
    return out, start


def _close(a, b):
    if len(a) != len(b):
        return False
    for x, y in zip(a, b):
        if len(x) != len(y):
            return False
        for u, v in zip(x, y):
            if not (abs(u - v) <= 1e-9 * max(1.0, abs(u), abs(v))):
                return False
    return True


def _denotes(s, ex, printed):
    """could the string `s` be read as the term with exprs `ex` (printed form, or Term.__eq__)?"""
    if s == printed:
        return True
    return sorted(m.group("factor") for m in FACTOR_MATCHER.finditer(s)) == sorted(ex)


def oracle(c, o):
    """first failing clause; a clause that matches a known-finding signature is reported only when
    nothing else fails (so that a known finding never masks a new failure on the same case)"""
    if c["kind"] == "split" or "error" in o or "harness_exception" in o:
        return None
    first_known = None
    for why in _reasons(c, o):
        if _known_sig(c, o, why) is None:
            return why
        if first_known is None:
            first_known = why
    return first_known


def _known_sig(c, o, why):
    keys = [_key(r["term"]) for r in o["structure"]]
    names = [n for r in o["structure"] for n in r["columns"]]
    if why.startswith("term ranges:") and len(set(keys)) != len(keys):
        return "C10-F1"
    if why.startswith("names/labels:") and c["mat"] == "narwhals" and c["output"] != "sparse" and len(set(names)) != len(names):
        return "C10-F2"
    return None


def _reasons(c, o):
    blocks, total = _blocks(o)
    names = [n for r in o["structure"] for n in r["columns"]]
    # (1) reported names = actual labels
    if o["column_names"] != names:
        yield f"column_names {o['column_names']} differ from the recorded structure columns {names}"
    if o["labels"] is not None:
        if o["labels"] != o["column_names"]:
            yield f"names/labels: matrix labels {o['labels']} != column_names {o['column_names']}"
    if o["ncols"] != len(o["column_names"]):
        yield f"names/labels: matrix has {o['ncols']} columns, column_names lists {len(o['column_names'])}"
    # (2) term ranges
    cat = [i for _, v in o["term_indices"] for i in v]
    if cat != list(range(total)):
        yield f"term ranges: term_indices values concatenate to {cat}, not 0..{total - 1}"
    keys = [_key(t) for t, _, _ in blocks]
    dup_terms = {k for k in keys if keys.count(k) > 1}
    entries = {}
    for t, v in o["term_indices"]:
        if v != list(range(v[0], v[0] + len(v))) if v else False:
            yield f"term ranges: term_indices[{t}] = {v} is not contiguous"
        entries[_key(t)] = v
    for bt, a, b in blocks:
        if _key(bt) not in dup_terms and entries.get(_key(bt)) != list(range(a, b)):
            yield f"term ranges: term_indices[{bt}] = {entries.get(_key(bt))} is not the block [{a},{b}) of that term"
    for (t, sl), (_, v) in zip(o["term_slices"], o["term_indices"]):
        if list(range(sl[0], sl[1])) != v:
            yield f"term ranges: term_slices[{t}] = {sl} does not select {v}"
    # (3) lookups
    printed = o["printed"]
    rng_of = {}
    for (t, a, b) in blocks:
        rng_of[_key(t)] = (a, b)
    for p, r in zip(o["probes"], o["probe_out"]):
        if p["k"] == "term":
            k = _key(p["t"])
            if k in dup_terms or k not in rng_of:
                continue
            a, b = rng_of[k]
            want_sl = [a, b] if b > a else [0, 0]
            if r["ti"] != {"ok": list(range(a, b))} or r["ts"] != {"ok": want_sl} or r["gs"] != {"ok": want_sl} or not r["in"]:
                yield f"lookup by term object {p['t']}: got {r}, its columns are [{a},{b})"
        elif p["k"] == "str":
            s = p["s"]
            owners = [i for i, pr in enumerate(printed) if pr == s]
            if len(owners) == 1 and _key(blocks[owners[0]][0]) not in dup_terms:
                a, b = blocks[owners[0]][1], blocks[owners[0]][2]
                # another term that the string equally denotes (Term.__eq__) makes the request ambiguous
                others = [j for j, (t, _, _) in enumerate(blocks) if j != owners[0] and _denotes(s, t, printed[j])]
                if not others:
                    want_sl = [a, b] if b > a else [0, 0]
                    if r["ti"] != {"ok": list(range(a, b))} or r["ts"] != {"ok": want_sl} or r["gs"] != {"ok": want_sl} or not r["in"]:
                        yield f"lookup by printed form {s!r}: got {r}, the term's columns are [{a},{b})"
            pos = [i for i, n in enumerate(names) if n == s]
            if len(pos) == 1:
                if r["ci"] != {"ok": pos[0]} or r["gci"] != {"ok": [pos[0]]}:
                    yield f"lookup by column name {s!r}: got {r}, the column is at {pos[0]}"
                if not any(_denotes(s, t, printed[j]) for j, (t, _, _) in enumerate(blocks)):
                    if r["gs"] != {"ok": [pos[0], pos[0] + 1]}:
                        yield f"lookup by column name {s!r}: get_slice gave {r['gs']}, the column is at {pos[0]}"
        elif p["k"] == "tidx":
            ks = [_key(t) for t in p["terms"]]
            if any(k in dup_terms or k not in rng_of for k in ks):
                continue
            want = [i for k in ks for i in range(*rng_of[k])]
            if r != {"ok": want}:
                yield f"get_term_indices({p['terms']}) = {r}, the terms' columns are {want}"
    # (4) variables
    vi = o["variable_indices"]
    if isinstance(vi, dict):
        yield f"variable indices: raised {vi['error']}"
        vi = []
    vi = {k: v for k, v in vi}
    allvars = set(x for vs in o["fvars"].values() for x in vs) | set(vi)
    for v in sorted(allvars):
        if any(_key(t) in dup_terms and any(v in o["fvars"].get(e, []) for e in t) for (t, a, b) in blocks):
            continue  # used by a repeated term: which row's columns count is the subject of C10-F1 (clause 2)
        want = [i for (t, a, b) in blocks for i in range(a, b) if any(v in o["fvars"].get(e, []) for e in t)]
        want = sorted(set(want))
        if vi.get(v, []) != want:
            yield f"variable indices: variable_indices[{v!r}] = {vi.get(v)}, terms using it own columns {want}"
    for p, r in zip(o["probes"], o["probe_out"]):
        if p["k"] == "var" and p["s"] in vi:
            if r["vi"] != {"ok": vi[p["s"]]} or r["gvi"] != {"ok": vi[p["s"]]}:
                yield f"variable indices: lookup of {p['s']!r} gave {r}"
    # (4b) the same clause against the harness's own reading of the factors' source text (`source_uses`): "the terms
    # using that variable" are the terms one of whose factors reads the name. Only names that resolve in the data, the
    # user context or the transforms namespace are judged (what else a Python expression may read -- builtins -- is
    # not a variable the property speaks about); a variable is judged only if every factor of every term was decidable.
    uses = o.get("uses")
    if uses is not None and all(uses.get(e) is not None for (t, a, b) in blocks for e in t):
        scope = set(o["scope"])
        judged = {v for vs in uses.values() for v in vs} | set(vi)
        wanted = {}
        for v in sorted(judged):
            if v.split(".")[0] not in scope:
                continue
            if any(_key(t) in dup_terms and any(v in uses[e] or v in o["fvars"].get(e, []) for e in t) for (t, a, b) in blocks):
                continue  # C10-F1, as above
            want = sorted(set(i for (t, a, b) in blocks for i in range(a, b) if any(v in uses[e] for e in t)))
            wanted[v] = want
            if vi.get(v, []) != want:
                users = [":".join(t) for (t, a, b) in blocks if any(v in uses[e] for e in t)]
                yield (f"variable indices: variable_indices[{v!r}] = {vi.get(v)}, but the terms whose source reads {v!r} "
                       f"({users}) own columns {want}")
        for p, r in zip(o["probes"], o["probe_out"]):
            if p["k"] == "var" and wanted.get(p["s"]):
                want = wanted[p["s"]]
                if r["vi"] != {"ok": want} or r["gvi"] != {"ok": want}:
                    yield f"variable indices: lookup of {p['s']!r} gave {r}, the terms reading it own columns {want}"
    # (5) subset regenerates the parent's columns
    subs = iter(o["subs"])
    for p, r in zip(o["probes"], o["probe_out"]):
        if p["k"] != "subset":
            continue
        rec = next(subs)
        ks = [_key(t) for t in p["terms"]]
        if any(k not in rng_of for k in ks):
            continue  # foreign term: an error is the documented outcome
        if any(k in dup_terms for k in ks) or len(set(ks)) != len(ks):
            continue
        if "err" in r:
            yield f"subset({p['terms']}) raised {r['err']} although every term belongs to the spec"
            continue
        fk = [_key(t) for t in rec["formula"]]
        if sorted(fk) != sorted(ks):
            yield f"subset({p['terms']}): formula of the subset is {rec['formula']}"
        idx = [i for k in fk for i in range(*rng_of[k])]
        want_names = [names[i] for i in idx]
        if r["ok"]["names"] != want_names:
            yield f"subset({p['terms']}): column_names {r['ok']['names']}, parent's columns for those terms {want_names}"
        if "mat_error" in rec:
            yield f"subset({p['terms']}).get_model_matrix failed: {rec['mat_error']}"
            continue
        if c["mat"] == "narwhals" and c["output"] != "sparse" and len(set(want_names)) != len(want_names):
            continue  # name-keyed assembly cannot hold the repeated label (C10-F2, reported by clause 1)
        if rec["labels"] is not None and rec["labels"] != want_names:
            yield f"subset({p['terms']}): regenerated labels {rec['labels']}, parent's {want_names}"
        if rec["ncols"] != len(want_names):
            yield f"subset({p['terms']}): regenerated {rec['ncols']} columns, parent has {len(want_names)} for those terms"
        if not _close(rec["values"], [o["values"][i] for i in idx]) if len(o["values"]) == total else False:
            yield f"subset({p['terms']}): regenerated values differ from the parent's columns {idx}"
        if len(rec["parent2"]) == total and not _close(rec["values2"], [rec["parent2"][i] for i in idx]):
            yield f"subset({p['terms']}): on new data the regenerated values differ from the parent's columns {idx}"
    return


def classify(c, o, why):
    if c["kind"] != "meta" or "structure" not in o:
        return None
    if o.get("_corr"):  # the model did not reproduce the implementation on this case: never suppress
        return None
    return _known_sig(c, o, why)


LEVEL_TEXT = (
    "Proof: Lean theorems (Props/C10.lean) about the executable model of ModelSpec's derived metadata (Model/SpecMeta.lean), "
    "for ALL structures: column names = matrix labels (positional assembly: always; name-keyed assembly: iff the names are "
    "distinct); term ranges are the consecutive blocks of the structure rows and partition [0, ncols); lookups by Term object, "
    "by printed form (Python dict probing modelled as hash-then-__eq__, FACTOR_MATCHER modelled as the regex behaves) and by "
    "column name return exactly the block/position; variable_indices[v] is exactly the increasing list of columns owned by rows "
    "using v (which rows use v enters the model from the harness's own `ast` reading of the factor source, so a variable passed "
    "by keyword / * / ** / inside a nested call counts; the oracle checks the same on the real maps); subset returns the parent's rows of the chosen terms, so its column names are the parent's names at "
    "get_term_indices. The model is tied to the code by a differential correspondence on every run; regenerated VALUES of a "
    "subset are checked on the real code by the oracle."
)
LEVEL_NOTE = (
    "Trusted: Lean kernel + propext/Quot.sound; the hand model of model_spec.py validated by correspondence on generated "
    "formulas (non-alphabetical interactions, zero-column terms, multi-column transforms, adversarial column names, "
    "Python-call factors with positional/keyword/starred arguments over data columns and context values, "
    "pandas/numpy/sparse, pandas/narwhals materializers); hash(str) injective; which columns a term generates and what a "
    "replayed row evaluates to are parameters (C02/C03/C04)."
)
